// OBSERVATION (not a registered finding): domain restriction of C07's "sync, async and streaming chunk decoders return identical results".
// Holds on serializer output (every chunk serialize_chunk writes is frame-exact: U-CHUNKSER + U-CODEC).  On a crafted, format-valid stored chunk whose
// compressed-length field covers bytes AFTER the lz4 frame's end mark, lz4_flex's FrameDecoder stops at the end mark, so the SYNC decoder
// (decompress_from_reader over reader.take(clen)) leaves the reader inside the declared payload and the sync multi-chunk decoder resynchronises there,
// while the async / stream decoder read_exact()s the declared length and skips the slack.
// Replay: copy to cas_object/tests/ in a scratch worktree of /repo (0492fcb) and run
//   cargo test -p cas_object --offline --test c07_sync_async_slack_after_frame -- --nocapture
// Observed:  sync  = Ok((6185, [0, 4096, 4137, 6185]))   async = Ok((6144, [0, 4096, 6144]))
//            payload len 91 ; decompress_from_reader returned 4096 and left the reader at 42      (the final assert_eq! fails)
// Units: U-CODEC (consumed_spec / lz4_consumed), U-CHUNKDEC (single_ok_sync, frame_exact_at, lemma_sync_async_agree), U-XORBRANGE (decode_from walks chunk_next_sync).
// U-CODEC probe: an LZ4 stored chunk whose compressed-length field covers bytes AFTER the lz4 frame's end mark.
use std::io::{Cursor, Write};

use cas_object::deserialize_async::deserialize_chunks_from_async_read;
use cas_object::*;

fn chunk_bytes(data: &[u8], scheme: CompressionScheme) -> Vec<u8> {
    let mut v = Vec::new();
    serialize_chunk(data, &mut v, Some(scheme)).unwrap();
    v
}

#[test]
fn lz4_payload_with_embedded_chunk() {
    let x = vec![7u8; 4096]; // compressible
    let y = vec![9u8; 2048];
    let c = b"EMBEDDED-CHUNK-ONLY-THE-SYNC-DECODER-SEES".to_vec();

    // chunk A: lz4 frame of x, followed (inside the region the header calls "compressed data") by a complete serialized chunk C
    let frame = lz4_compress_from_slice(&x).unwrap();
    let c_ser = chunk_bytes(&c, CompressionScheme::None);
    let mut a = Vec::new();
    let clen = (frame.len() + c_ser.len()) as u32;
    let ulen = x.len() as u32;
    a.push(0u8); // version
    a.extend_from_slice(&clen.to_le_bytes()[..3]);
    a.push(CompressionScheme::LZ4 as u8);
    a.extend_from_slice(&ulen.to_le_bytes()[..3]);
    a.write_all(&frame).unwrap();
    a.write_all(&c_ser).unwrap();

    let mut bytes = a.clone();
    bytes.extend_from_slice(&chunk_bytes(&y, CompressionScheme::LZ4));

    // sync decoder
    let sync = deserialize_chunks(&mut Cursor::new(&bytes));
    // async decoder
    let asy = futures::executor::block_on(deserialize_chunks_from_async_read(&mut &bytes[..]));
    println!("sync  = {:?}", sync.as_ref().map(|(d, i)| (d.len(), i.clone())));
    println!("async = {:?}", asy.as_ref().map(|(d, i)| (d.len(), i.clone())));
    // slice-based and reader-based codec entry points on the payload alone
    let payload = &a[8..];
    let d_slice = CompressionScheme::LZ4.decompress_from_slice(payload).unwrap();
    let mut cur = Cursor::new(payload);
    let mut out = Vec::new();
    let n = CompressionScheme::LZ4.decompress_from_reader(&mut cur, &mut out).unwrap();
    println!("payload len {} ; decompress_from_reader returned {} and left the reader at {}", payload.len(), n, cur.position());
    assert_eq!(&d_slice[..], &out[..]);
    let (sd, si) = sync.unwrap();
    let (ad, ai) = asy.unwrap();
    assert_eq!((sd, si), (ad, ai), "sync and async decoders disagree on the same bytes");
}
