// C12 replay: a cache file renamed (while the cache is closed) to a name that claims a WIDER chunk range with the same
// length and checksum is accepted by the re-open scan and by every check of `validate_match` (length, crc, header parse);
// `validate_match` then indexes `header.chunk_byte_indices[i + 1]` past the end of the stored header and panics in `put`.
use std::path::{Path, PathBuf};

use base64::engine::general_purpose::URL_SAFE;
use base64::Engine;
use cas_types::{ChunkRange, Key};
use chunk_cache::{CacheConfig, ChunkCache, DiskCache};
use merklehash::MerkleHash;
use tempdir::TempDir;

fn files_under(dir: &Path, out: &mut Vec<PathBuf>) {
    for e in std::fs::read_dir(dir).unwrap() {
        let p = e.unwrap().path();
        if p.is_dir() {
            files_under(&p, out);
        } else {
            out.push(p);
        }
    }
}

#[test]
fn c12_put_after_reopen_with_renamed_item_must_not_panic() {
    let root = TempDir::new("c12_renamed").unwrap();
    let config = CacheConfig {
        cache_directory: root.path().to_path_buf(),
        cache_size: 1 << 30,
    };
    let key = Key {
        prefix: "default".to_string(),
        hash: MerkleHash::from([1, 2, 3, 4]),
    };
    let data: Vec<u8> = (0..4000u32).map(|i| (i % 251) as u8).collect();
    let offsets: Vec<u32> = vec![0, 1000, 2000, 3000, 4000];
    {
        let cache = DiskCache::initialize(&config).unwrap();
        cache.put(&key, &ChunkRange { start: 0, end: 4 }, &offsets, &data).unwrap();
    } // cache closed

    // rename the item file: same length and checksum, but the name now claims chunks [0, 8)
    let mut files = Vec::new();
    files_under(root.path(), &mut files);
    assert_eq!(files.len(), 1);
    let old = files.pop().unwrap();
    let mut name = URL_SAFE.decode(old.file_name().unwrap().to_str().unwrap()).unwrap();
    assert_eq!(name.len(), 20); // start u32, end u32, len u64, crc u32 (little endian)
    name[4..8].copy_from_slice(&8u32.to_le_bytes());
    let new = old.with_file_name(URL_SAFE.encode(&name));
    std::fs::rename(&old, &new).unwrap();

    // re-open: the scan accepts the entry (name parses, length matches)
    let cache = DiskCache::initialize(&config).unwrap();
    assert_eq!(cache.num_items().unwrap(), 1);

    // a read of the chunks the file does not have is an error or a miss, never a panic: fine
    let r = cache.get(&key, &ChunkRange { start: 4, end: 8 });
    println!("get [4,8) after the rename: {:?}", r.as_ref().map(|o| o.is_some()));

    // a put of chunks [4, 8): find_match returns the renamed item, validate_match walks the stored header
    let data2: Vec<u8> = (0..4000u32).map(|i| (i % 241) as u8).collect();
    let r = std::panic::catch_unwind(std::panic::AssertUnwindSafe(|| {
        cache.put(&key, &ChunkRange { start: 4, end: 8 }, &offsets, &data2)
    }));
    match &r {
        Ok(res) => println!("put returned {:?}", res.as_ref().map(|_| ())),
        Err(_) => println!("put PANICKED"),
    }
    assert!(r.is_ok(), "put panicked on an entry that was renamed while the cache was closed");
}
