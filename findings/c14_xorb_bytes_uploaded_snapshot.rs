// Replay for C14, last clause: "the reported xorb and shard upload bytes equal what was actually handed to the store".
// FileUploadSession::finalize_impl took the session's metrics out of the mutex BEFORE it joined the xorb upload tasks; every task
// adds the bytes it handed to the store (`xorb_bytes_uploaded += n`) at its very end, so the bytes of every task that finishes
// after that snapshot - at the very least the session's final, aggregated xorb, whose upload is spawned by the statement just
// before the snapshot - land in a value nobody reads. The returned metrics then report fewer xorb bytes than the store received.
// Run from the workspace root (copy to data/tests/): cargo test -p data --offline --test c14_xorb_bytes_uploaded_snapshot
use data::configurations::TranslatorConfig;
use data::FileUploadSession;
use tempfile::TempDir;
use xet_threadpool::ThreadPool;

fn xorb_bytes_in_store(dir: &std::path::Path) -> (usize, usize) {
    // LocalClient::put writes one file `default.<xorb hash>` per xorb; the file is exactly the serialized xorb handed to it
    let mut n = 0;
    let mut bytes = 0;
    let mut stack = vec![dir.to_path_buf()];
    while let Some(d) = stack.pop() {
        for e in std::fs::read_dir(&d).unwrap() {
            let e = e.unwrap();
            let p = e.path();
            if p.is_dir() {
                stack.push(p);
            } else if p.file_name().unwrap().to_string_lossy().starts_with("default.") {
                n += 1;
                bytes += e.metadata().unwrap().len() as usize;
            }
        }
    }
    (n, bytes)
}

#[tokio::test(flavor = "multi_thread", worker_threads = 2)]
async fn c14_reported_xorb_bytes_equal_bytes_handed_to_the_store() {
    for round in 0..5usize {
        let temp_dir = TempDir::new().unwrap();
        let cas = temp_dir.path().join("cas");
        let config = TranslatorConfig::local_config(&cas).unwrap();
        let session = FileUploadSession::new(config, ThreadPool::from_current_runtime(), None).await.unwrap();
        // incompressible content, a few hundred KiB: a handful of chunks, all in the session's final aggregated xorb
        let mut x: u64 = 0x9e3779b97f4a7c15 ^ (round as u64);
        let data: Vec<u8> = (0..300_000)
            .map(|_| {
                x ^= x << 13;
                x ^= x >> 7;
                x ^= x << 17;
                (x >> 24) as u8
            })
            .collect();
        let mut cleaner = session.start_clean("f".to_string());
        cleaner.add_data(&data).await.unwrap();
        cleaner.finish().await.unwrap();
        let metrics = session.finalize().await.unwrap();
        let (n_xorbs, stored) = xorb_bytes_in_store(&cas);
        assert!(n_xorbs >= 1 && stored >= data.len(), "the store holds the xorb(s): {n_xorbs} files, {stored} bytes");
        assert_eq!(
            metrics.xorb_bytes_uploaded, stored,
            "round {round}: finalize reports xorb_bytes_uploaded = {} but the store was handed {} bytes in {} xorb(s)",
            metrics.xorb_bytes_uploaded, stored, n_xorbs
        );
        assert_eq!(metrics.total_bytes_uploaded, metrics.shard_bytes_uploaded + metrics.xorb_bytes_uploaded);
    }
}
