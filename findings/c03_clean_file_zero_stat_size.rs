// Replay for U-DATACLIENT/clean_file, clause "C03 ... also when `stat` reports 0 for a file that has content".
// clean_file sizes its read buffer as min(metadata().len(), INGESTION_BLOCK_SIZE); for a file whose reported size is 0 (procfs,
// many sysfs attributes, or a file that is written after the stat) the buffer is EMPTY, the first read() returns 0, and the file
// is cleaned as the empty file although it has content.
use data::configurations::TranslatorConfig;
use data::data_client::clean_file;
use data::FileUploadSession;
use tempfile::TempDir;
use xet_threadpool::ThreadPool;

#[tokio::test(flavor = "multi_thread", worker_threads = 2)]
async fn c03_clean_file_of_zero_stat_size_file_covers_its_content() {
    let path = "/proc/version";
    let content = std::fs::read(path).unwrap();
    assert!(!content.is_empty(), "test needs a procfs file with content");
    assert_eq!(std::fs::metadata(path).unwrap().len(), 0, "test needs a file whose stat size is 0");

    let temp_dir = TempDir::new().unwrap();
    let config = TranslatorConfig::local_config(temp_dir.path().join("cas")).unwrap();
    let session = FileUploadSession::new(config, ThreadPool::from_current_runtime(), None).await.unwrap();
    let (pointer, metrics) = clean_file(session.clone(), path).await.unwrap();
    session.finalize().await.unwrap();
    // the pointer must describe the bytes of the file
    assert_eq!(pointer.filesize() as usize, content.len());
    assert_eq!(metrics.total_bytes, content.len());
}
