// C12 replay (copy to chunk_cache/tests/): "Entries that were damaged, truncated, RENAMED or PLANTED while the cache was
// closed turn into misses or errors once it is re-opened, never into wrong data."
//
// The checksum in an item's file name covers header + data of the file, but neither the chunk range nor the key (the
// directory).  A file that is renamed to a different range OF THE SAME WIDTH (same length, same crc, same number of header
// offsets), or moved into another key's directory, therefore passes the re-open scan, the crc verification on first read and
// the header checks, and `get` serves its bytes for chunks / a key they were never put for.
use std::path::{Path, PathBuf};

use base64::engine::general_purpose::URL_SAFE;
use base64::Engine;
use cas_types::{ChunkRange, Key};
use chunk_cache::{CacheConfig, ChunkCache, DiskCache};
use merklehash::MerkleHash;
use tempdir::TempDir;

fn files_under(dir: &Path, out: &mut Vec<PathBuf>) {
    for e in std::fs::read_dir(dir).unwrap() {
        let p = e.unwrap().path();
        if p.is_dir() {
            files_under(&p, out);
        } else {
            out.push(p);
        }
    }
}

fn key(tag: u64) -> Key {
    Key {
        prefix: "default".to_string(),
        hash: MerkleHash::from([tag, 2, 3, 4]),
    }
}

/// chunk i of key `tag` is 1000 bytes of the value (tag * 16 + i): every chunk is distinguishable
fn chunks(tag: u8, first: u32, n: u32) -> (Vec<u32>, Vec<u8>) {
    let mut data = Vec::new();
    let mut offsets = vec![0u32];
    for i in first..first + n {
        data.extend(std::iter::repeat(tag * 16 + i as u8).take(1000));
        offsets.push(data.len() as u32);
    }
    (offsets, data)
}

#[test]
fn c12_file_renamed_to_another_range_of_the_same_width_is_served_as_a_hit() {
    let root = TempDir::new("c12_renamed_same_width").unwrap();
    let config = CacheConfig {
        cache_directory: root.path().to_path_buf(),
        cache_size: 1 << 30,
    };
    let k = key(1);
    let (offsets, data) = chunks(1, 0, 4); // chunks 0..4 of K
    {
        let cache = DiskCache::initialize(&config).unwrap();
        cache.put(&k, &ChunkRange { start: 0, end: 4 }, &offsets, &data).unwrap();
    } // closed

    // rename: the name now claims chunks [4, 8); length and crc unchanged
    let mut files = Vec::new();
    files_under(root.path(), &mut files);
    assert_eq!(files.len(), 1);
    let old = files.pop().unwrap();
    let mut name = URL_SAFE.decode(old.file_name().unwrap().to_str().unwrap()).unwrap();
    name[0..4].copy_from_slice(&4u32.to_le_bytes());
    name[4..8].copy_from_slice(&8u32.to_le_bytes());
    std::fs::rename(&old, old.with_file_name(URL_SAFE.encode(&name))).unwrap();

    let cache = DiskCache::initialize(&config).unwrap();
    let r = cache.get(&k, &ChunkRange { start: 4, end: 8 });
    println!("get(K, [4,8)) after the rename: {:?}", r.as_ref().map(|o| o.as_ref().map(|c| (c.data.len(), c.data[0]))));
    // chunks 4..8 of K were never put: anything but a miss or an error is wrong data
    match r {
        Ok(Some(hit)) => panic!(
            "hit for chunks [4,8) that were never put; it returns {} bytes starting with {:#x} = the bytes of chunks [0,4)",
            hit.data.len(),
            hit.data[0]
        ),
        Ok(None) | Err(_) => {},
    }
}

#[test]
fn c12_file_planted_in_another_keys_directory_is_served_as_a_hit() {
    let root = TempDir::new("c12_planted_other_key").unwrap();
    let config = CacheConfig {
        cache_directory: root.path().to_path_buf(),
        cache_size: 1 << 30,
    };
    let (k1, k2) = (key(1), key(2));
    let (offsets1, data1) = chunks(1, 0, 4);
    let (offsets2, data2) = chunks(2, 0, 2);
    {
        let cache = DiskCache::initialize(&config).unwrap();
        cache.put(&k1, &ChunkRange { start: 0, end: 4 }, &offsets1, &data1).unwrap();
        cache.put(&k2, &ChunkRange { start: 10, end: 12 }, &offsets2, &data2).unwrap(); // creates K2's directory
    } // closed

    // move K1's item file into K2's directory (same file name)
    let mut files = Vec::new();
    files_under(root.path(), &mut files);
    assert_eq!(files.len(), 2);
    files.sort_by_key(|p| std::fs::metadata(p).unwrap().len());
    let (k2_file, k1_file) = (files[0].clone(), files[1].clone()); // K1's file is the longer one
    std::fs::rename(&k1_file, k2_file.with_file_name(k1_file.file_name().unwrap())).unwrap();

    let cache = DiskCache::initialize(&config).unwrap();
    let r = cache.get(&k2, &ChunkRange { start: 0, end: 4 });
    println!("get(K2, [0,4)) after planting K1's file: {:?}", r.as_ref().map(|o| o.as_ref().map(|c| (c.data.len(), c.data[0]))));
    match r {
        Ok(Some(hit)) => panic!(
            "hit for K2 chunks [0,4) that were never put; it returns {} bytes starting with {:#x} = K1's data",
            hit.data.len(),
            hit.data[0]
        ),
        Ok(None) | Err(_) => {},
    }
}
