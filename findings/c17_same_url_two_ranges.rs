//! Replay for the C17 finding "single-flight key ignores url_range" (copy to cas_client/tests/, run
//! `cargo test -p cas_client --offline --test c17_same_url_two_ranges`).
//!
//! A reconstruction plan whose two fetch_info entries for one xorb carry the SAME url and DIFFERENT url_range (the blob
//! store tells the two downloads apart by the HTTP Range header, which is what `download_range` sends). Both terms are
//! fetched concurrently (cold, no chunk cache). The reconstructed file must be `chunks[0..3) ++ chunks[5..8)` for both
//! writers. (Derived from the demonstration of seeded change C17c; only the mock urls / ranges differ.)
use std::collections::HashMap;
use std::sync::Arc;
use std::time::Duration;

use cas_client::{FileProvider, OutputProvider, RemoteClient};
use cas_object::{serialize_chunk, CompressionScheme};
use cas_types::{CASReconstructionFetchInfo, CASReconstructionTerm, ChunkRange, HexMerkleHash, HttpRange};
use httpmock::prelude::*;
use merklehash::compute_data_hash;
use xet_threadpool::ThreadPool;

const CHUNK_SIZE: usize = 512;
const NUM_CHUNKS: usize = 8;
/// byte offset of the second fetch range inside the stored xorb (anything different from 0)
const HI_START: usize = 100_000;

/// chunk i is CHUNK_SIZE bytes, every byte position distinguishable from every other chunk
fn chunk(i: usize) -> Vec<u8> {
    (0..CHUNK_SIZE).map(|j| ((i * 31 + j * 7 + 1) % 251) as u8).collect()
}

/// serialized (xorb chunk format) bytes of chunks [start, end)
fn serialized(start: usize, end: usize) -> Vec<u8> {
    let mut out = Vec::new();
    for i in start..end {
        serialize_chunk(&chunk(i), &mut out, Some(CompressionScheme::None)).unwrap();
    }
    out
}

fn raw(start: usize, end: usize) -> Vec<u8> {
    (start..end).flat_map(chunk).collect()
}

fn run(parallel: bool) -> (u64, Vec<u8>, Vec<u8>) {
    let server = MockServer::start();

    let lo: (usize, usize) = (0, 3);
    let hi: (usize, usize) = (5, NUM_CHUNKS);
    let body_lo = serialized(lo.0, lo.1);
    let body_hi = serialized(hi.0, hi.1);

    // every response is slow enough that the two range downloads overlap in time
    let m_lo = server.mock(|when, then| {
        when.method(GET).path("/xorb/x").header("range", format!("bytes=0-{}", body_lo.len() - 1));
        then.status(206).body(body_lo.clone()).delay(Duration::from_millis(400));
    });
    let m_hi = server.mock(|when, then| {
        when.method(GET).path("/xorb/x").header("range", format!("bytes={}-{}", HI_START, HI_START + body_hi.len() - 1));
        then.status(206).body(body_hi.clone()).delay(Duration::from_millis(400));
    });

    let xorb_hash: HexMerkleHash = compute_data_hash(&raw(0, NUM_CHUNKS)).into();

    let terms = vec![
        CASReconstructionTerm {
            hash: xorb_hash,
            unpacked_length: ((lo.1 - lo.0) * CHUNK_SIZE) as u32,
            range: ChunkRange {
                start: lo.0 as u32,
                end: lo.1 as u32,
            },
        },
        CASReconstructionTerm {
            hash: xorb_hash,
            unpacked_length: ((hi.1 - hi.0) * CHUNK_SIZE) as u32,
            range: ChunkRange {
                start: hi.0 as u32,
                end: hi.1 as u32,
            },
        },
    ];
    let mut fetch_info = HashMap::new();
    fetch_info.insert(
        xorb_hash,
        vec![
            CASReconstructionFetchInfo {
                range: ChunkRange {
                    start: lo.0 as u32,
                    end: lo.1 as u32,
                },
                url: server.url("/xorb/x"),
                url_range: HttpRange {
                    start: 0,
                    end: body_lo.len() as u32 - 1,
                },
            },
            CASReconstructionFetchInfo {
                range: ChunkRange {
                    start: hi.0 as u32,
                    end: hi.1 as u32,
                },
                url: server.url("/xorb/x"),
                url_range: HttpRange {
                    start: HI_START as u32,
                    end: (HI_START + body_hi.len()) as u32 - 1,
                },
            },
        ],
    );
    let fetch_info = Arc::new(fetch_info);

    let dir = tempfile::tempdir().unwrap();
    let out_path = dir.path().join("out.bin");
    let output = OutputProvider::File(FileProvider::new(out_path.clone()));

    let threadpool = Arc::new(ThreadPool::new().unwrap());
    // no chunk cache: cold fetches only
    let client = RemoteClient::new(threadpool.clone(), &server.base_url(), None, &None, &None, "".into(), false);

    let n = threadpool
        .external_run_async_task(async move {
            if parallel {
                client
                    .reconstruct_file_to_writer_parallel(terms, fetch_info, 0, None, &output, None)
                    .await
            } else {
                client
                    .reconstruct_file_to_writer(terms, fetch_info, 0, None, &output, None)
                    .await
            }
        })
        .unwrap()
        .expect("reconstruction returned an error");

    // sanity: nothing but these two urls exists on the blob store
    assert!(m_lo.hits() + m_hi.hits() >= 1);

    let got = std::fs::read(&out_path).unwrap();
    let mut expected = raw(lo.0, lo.1);
    expected.extend(raw(hi.0, hi.1));
    (n, got, expected)
}

#[test]
fn same_url_two_ranges_parallel_writer() {
    let (n, got, expected) = run(true);
    assert_eq!(n as usize, expected.len());
    assert_eq!(got.len(), expected.len());
    assert!(got == expected, "parallel writer: output differs from concatenated term data");
}

#[test]
fn same_url_two_ranges_sequential_writer() {
    let (n, got, expected) = run(false);
    assert_eq!(n as usize, expected.len());
    assert_eq!(got.len(), expected.len());
    assert!(got == expected, "sequential writer: output differs from concatenated term data");
}
