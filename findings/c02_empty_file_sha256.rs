// Replay for U-SHA/finalize, clause "the recorded SHA-256 equals the value recomputed from the original bytes" (C02), input: the EMPTY file.
// ShaGenerator::finalize returns MerkleHash::default() when `update` was never called; SingleFileCleaner never calls it for a file
// with no chunks, so the file record of an empty file carries sha256 = 00..00 instead of SHA-256("") = e3b0c442...b855.
use data::configurations::TranslatorConfig;
use data::FileUploadSession;
use tempfile::TempDir;
use xet_threadpool::ThreadPool;

#[tokio::test(flavor = "multi_thread", worker_threads = 2)]
async fn c02_empty_file_recorded_sha256_is_sha256_of_empty_input() {
    let temp_dir = TempDir::new().unwrap();
    let config = TranslatorConfig::local_config(temp_dir.path().join("cas")).unwrap();
    let session = FileUploadSession::new(config, ThreadPool::from_current_runtime(), None).await.unwrap();
    let mut cleaner = session.start_clean("empty".to_owned());
    cleaner.add_data(&[]).await.unwrap();
    let (pointer, metrics) = cleaner.finish().await.unwrap();
    assert_eq!(pointer.filesize(), 0);
    assert_eq!(metrics.total_bytes, 0);
    let (_m, infos) = session.finalize_with_file_info().await.unwrap();
    assert_eq!(infos.len(), 1, "one file record expected");
    let recorded = infos[0].metadata_ext.as_ref().expect("metadata_ext recorded").sha256.hex();
    // SHA-256 of the empty byte string, as any independent validator computes it
    assert_eq!(recorded, "e3b0c44298fc1c149afbf4c8996fb92427ae41e4649b934ca495991b7852b855");
}
