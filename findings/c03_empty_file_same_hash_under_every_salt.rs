// C03 replay ("Different salts give different hashes for the same bytes"): the file hash of the EMPTY file is the all-zero hash
// under every salt, because `file_node_hash` returns `MerkleHash::default()` for an empty chunk list before the salt is applied.
// Copy to merkledb/tests/ and run `cargo test -p merkledb --offline --test c03_empty_file_same_hash_under_every_salt`.
use merkledb::aggregate_hashes::file_node_hash;
use merklehash::{compute_data_hash, MerkleHash};

#[test]
fn empty_file_hash_depends_on_the_salt() {
    let s1 = [1u8; 32];
    let s2 = [2u8; 32];
    // control: a one-chunk file gets different hashes under different salts
    let c = [(compute_data_hash(b"x"), 1usize)];
    assert_ne!(file_node_hash(&c, &s1).unwrap(), file_node_hash(&c, &s2).unwrap());
    // the empty file does not
    let h1 = file_node_hash(&[], &s1).unwrap();
    let h2 = file_node_hash(&[], &s2).unwrap();
    println!("empty file: salt 01.. -> {h1}, salt 02.. -> {h2} (zero hash: {})", h1 == MerkleHash::default());
    assert_ne!(h1, h2, "the empty file has the same hash under two different salts");
}
