#!/bin/bash
# run.sh [unit|e2e|seeds|units|all]   — tests of rule R9h (vxlib/autohelper.py); see README.md
#   unit   (default) synthetic snippets: supported + refused shapes, differential rustc run      (~5 s)
#   e2e    real edits from /tmp/seed: benign patches B*-out/patch2.diff, breaking C17d/C07d/C02d   (~15 min, 3 at a time)
#          prints the before (VX_INLINE=0) / after table; a benign patch with rc=1 after is a FAILURE
#   seeds  /verif/seedregress.sh C04 C13 C16 (stored seeded bugs must stay rc=1)
#   units  ./vx unit <U> on /repo for every unit (must all be ok)
cd /verif
WHAT=${1:-unit}
RC=0
BENIGN="B01 B04 B05 B07 B08 B09 B10 B12 B13 B14 B16 B17 B19"
BREAKING="C17d C07d C02d"
if [ $WHAT = unit ] || [ $WHAT = all ]; then
  python3 tests_autohelper/test_inline.py || RC=1
fi
if [ $WHAT = e2e ] || [ $WHAT = all ]; then
  mkdir -p /tmp/ah
  for L in before after; do
    # KEEP_BEFORE=1: re-use /tmp/ah/before.txt of an earlier run (the rule is switched off in it, so it does not depend on the rule)
    [ $L = before ] && [ "$KEEP_BEFORE" = 1 ] && [ -s /tmp/ah/before.txt ] && continue
    rm -f /tmp/ah/$L.*.txt
    echo $BENIGN $BREAKING | tr ' ' '\n' | split -n r/3 - /tmp/ah/ids.$L.
    for F in /tmp/ah/ids.$L.*; do ( tests_autohelper/e2e.sh $L $(cat $F) > /tmp/ah/$L.$(basename $F).txt 2>&1 ) & done
    wait
    cat /tmp/ah/$L.ids.*.txt | sort > /tmp/ah/$L.txt
  done
  echo "id    prop  before -> after"
  for ID in $BENIGN $BREAKING; do
    B=$(grep "^$ID " /tmp/ah/before.txt | sed 's/.*rc=\([0-9]*\).*/\1/'); A=$(grep "^$ID " /tmp/ah/after.txt | sed 's/.*rc=\([0-9]*\).*/\1/')
    P=$(grep "^$ID " /tmp/ah/after.txt | sed 's/.*prop=\([A-Z0-9]*\).*/\1/')
    FLAG=""
    case $ID in B*) [ "$A" = 1 ] && [ "$B" != 1 ] && { FLAG="  <-- FALSE ALARM introduced by inlining"; RC=1; };; esac
    echo "$ID  $P   $B -> $A$FLAG"
  done
  git -C /repo worktree prune
fi
if [ $WHAT = seeds ] || [ $WHAT = all ]; then
  OUT=$(./seedregress.sh C04 C13 C16); echo "$OUT"
  echo "$OUT" | grep -v "rc=1" | grep -q "rc=" && { echo "a stored seed is no longer caught"; RC=1; }
fi
if [ $WHAT = units ] || [ $WHAT = all ]; then
  # a unit is fine if it is `ok`, or if every failing obligation is a recorded known finding (known_findings.json: C03 empty file,
  # C12 renamed cache file, C19 drop commits) - `./vx check` reports those as KNOWN-FINDING, `./vx unit` as FAILED
  for U in $(./vx units 2>/dev/null | cut -d' ' -f1); do
    OUT=$(./vx unit $U 2>&1); L=$(echo "$OUT" | head -1)
    case "$L" in
      *": ok "*) echo "$L";;
      *": violation "*)
        if echo "$OUT" | grep "^FAILED: " | python3 -c "
import json, sys
kf = json.load(open('/verif/known_findings.json'))['findings']
bad = [l for l in sys.stdin if not any(l.startswith('FAILED: ' + f['function'] + ' |') and (f.get('clause_contains') or '') in l for f in kf)]
sys.exit(1 if bad else 0)"; then echo "$L   (known finding only)"; else echo "$L"; RC=1; fi;;
      *) echo "$L"; RC=1;;
    esac
  done
fi
exit $RC
