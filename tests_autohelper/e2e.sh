#!/bin/bash
# e2e.sh <label> <id>...   — run the property's quick check against edited trees, one scratch worktree per id under /tmp/ah.
#   id = Bnn  : behaviour-preserving patch /tmp/seed/Bnn-out/patch2.diff   (expected rc 0 or 2, NEVER 1)
#   id = CnnX : property-breaking patch    /tmp/seed/CnnX-out/patch.diff    (wanted rc 1, at worst 2)
# label "before" runs with VX_INLINE=0 (rule R9h switched off), anything else with the rule on.
# Output: one line per id `<id> prop=<P> rc=<rc> :: first finding`, full logs in /tmp/ah/logs/<label>/<id>.log
LABEL=$1; shift
[ "$LABEL" = before ] && export VX_INLINE=0
mkdir -p /tmp/ah/logs/$LABEL
run_one() {
  ID=$1
  SRC=/tmp/seed/$ID-out
  case $ID in B*) P=$SRC/patch2.diff;; *) P=$SRC/patch.diff;; esac
  PROP=$(python3 -c "import json;print(json.load(open('$SRC/meta.json'))['property'])" 2>/dev/null)
  [ -n "$PROP" ] || PROP=$(echo $ID | cut -c1-3)
  W=/tmp/ah/$ID-$LABEL
  rm -rf $W; git -C /repo worktree prune
  git -C /repo worktree add -f $W HEAD -q || { echo "$ID worktree failed"; return; }
  if ! git -C $W apply $P 2>/tmp/ah/logs/$LABEL/$ID.applyerr; then echo "$ID prop=$PROP NOAPPLY"; git -C /repo worktree remove --force $W; return; fi
  OUT=$(cd /verif && VX_REPO=$W ./vx check $PROP --tier quick 2>&1); RC=$?
  echo "$OUT" > /tmp/ah/logs/$LABEL/$ID.log
  FIRST=$(echo "$OUT" | grep "^failed obligation\|^UNDECIDED" | head -1 | cut -c1-220)
  echo "$ID prop=$PROP rc=$RC :: $FIRST"
  git -C /repo worktree remove --force $W
}
for ID in "$@"; do run_one $ID; done
