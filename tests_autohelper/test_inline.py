#!/usr/bin/env python3
"""Unit tests of vxlib.autohelper (rule R9h) on synthetic Rust snippets.

Three layers:
  1. missing_names on the four message shapes;
  2. every SUPPORTED call/helper shape: inline_calls must succeed, the result must no longer mention the helper, and - the
     differential part - a Rust program holding the original caller+helper next to the inlined caller is compiled with rustc
     and both are run on the same inputs: the results must be equal (this checks evaluation order, capture, `?`, `return`
     lowering for real, not by eye);
  3. every REFUSED shape: inline_calls must raise CannotInline with the expected reason, and leave nothing changed.

usage: test_inline.py [-k substring] [--no-rustc] [--show]
"""
import os
import re
import subprocess
import sys
import tempfile

sys.path.insert(0, os.path.dirname(os.path.dirname(os.path.abspath(__file__))))
from vxlib import autohelper as ah  # noqa: E402

FAILS = []


def check(cond, what):
    if not cond:
        FAILS.append(what)
        print("FAIL:", what)


# ----------------------------------------------------------------------------------------------------------------------
def test_missing_names():
    msgs = [
        "cannot find function `term_output_range` in this scope",
        "no method named `skip_minimum_chunk` found for mutable reference `&mut Chunker` in the current scope",
        "no function or associated item named `join_all` found for struct `FileUploadSession` in the current scope",
        "no associated function or constant named `publish` found for struct `SafeFileCreator` in the current scope",
        "no method named `skip_minimum_chunk` found for struct `Chunker` in the current scope",
        "mismatched types",
        "cannot find value `x` in this scope",
        "cannot find macro `foo` in this scope",
        None,
    ]
    got = ah.missing_names(msgs)
    check(got == ["term_output_range", "skip_minimum_chunk", "join_all", "publish"], "missing_names: %r" % got)
    check(ah.missing_names([]) == [], "missing_names([])")
    got = ah.missing_names(["cannot find value `SHARD_COPY_BUFFER_SIZE` in this scope", "cannot find value `n_read` in this scope", "cannot find value `Foo` in this scope"])
    check(got == ["SHARD_COPY_BUFFER_SIZE"], "missing_names: ALL_CAPS value only: %r" % got)


# ----------------------------------------------------------------------------------------------------------------------
# supported shapes.  prelude: items at module level; impl: header of the impl both functions live in (or None);
# calls: expressions over `F` (the caller's name, qualified as needed) whose Debug output is compared
OK = []


def ok(name, helper, caller, calls, prelude="", impl=None, hcont="same", expect=(), reject=()):
    OK.append(dict(name=name, helper=helper, caller=caller, calls=calls, prelude=prelude, impl=impl, hcont=hcont, expect=expect, reject=reject))


ok("free fn, plain call, declared types kept",
   "fn add3(a: u64, b: u32) -> u64 { let s = a + b as u64; s + 3 }",
   "fn caller(x: u64) -> u64 { let y = add3(x * 2, 7); y + 1 }",
   ["F(1)", "F(40)"], expect=["let a: u64 = x * 2;", "let b: u32 = 7;", "let vx_h_ret: u64 = s + 3; vx_h_ret"])

ok("mut parameter stays `let mut`",
   "fn bump(mut n: u32, by: u32) -> u32 { n += by; n }",
   "fn caller(x: u32) -> u32 { bump(x, 2) + bump(x, 3) }",
   ["F(1)", "F(9)"], expect=["let mut n: u32 = x;"])

ok("unit helper as a statement, side effect through &mut parameter",
   "fn push2(v: &mut Vec<u32>, x: u32) { v.push(x); v.push(x + 1); }",
   "fn caller(n: u32) -> Vec<u32> { let mut out = Vec::new(); push2(&mut out, n); push2(&mut out, n * 10); out }",
   ["F(1)", "F(5)"], expect=["let v: &mut Vec<u32> = &mut out;"])

ok("call in operand / condition / argument position gets parentheses",
   "fn twice(a: u32) -> u32 { a * 2 }",
   "fn caller(x: u32) -> u32 { if twice(x) > 4 { twice(x) + twice(1) } else { std::cmp::max(twice(x), 1) } }",
   ["F(1)", "F(3)", "F(0)"])

ok("call at statement start followed by method call",
   "fn mk(a: u32) -> Vec<u32> { vec![a, a + 1] }",
   "fn caller(x: u32) -> usize { let mut n = 0; mk(x).iter().for_each(|v| n += *v as usize); n }",
   ["F(1)", "F(3)"])

ok("method on self: `self.h(..)` needs no receiver binding (&mut self)",
   "fn skip(&mut self, available: usize) -> usize { let adv = std::cmp::min(self.min - self.cur, available); self.cur += adv; adv }",
   "fn next(&mut self, n: usize) -> (usize, usize) { let mut c = 0; c += self.skip(n); (c, self.cur) }",
   ["{ let mut s = S { min: 10, cur: 2 }; s.F(5) }", "{ let mut s = S { min: 10, cur: 2 }; s.F(50) }"],
   prelude="pub struct S { min: usize, cur: usize }", impl="impl S", reject=["vx_h_self"])

ok("method on self: &self helper called from &mut self method",
   "fn room(&self) -> usize { self.min - self.cur }",
   "fn fill(&mut self) -> usize { let r = self.room(); self.cur += r; self.room() + r }",
   ["{ let mut s = S { min: 10, cur: 2 }; s.F() }"],
   prelude="pub struct S { min: usize, cur: usize }", impl="impl S")

ok("`Self::h(..)` associated function",
   "fn clamp(v: usize, hi: usize) -> usize { if v > hi { hi } else { v } }",
   "fn get(&self, v: usize) -> usize { Self::clamp(v, self.min) + Self::clamp(self.cur, 3) }",
   ["{ let s = S { min: 10, cur: 7 }; s.F(50) }", "{ let s = S { min: 10, cur: 1 }; s.F(5) }"],
   prelude="pub struct S { min: usize, cur: usize }", impl="impl S")

ok("`Type::h(..)` associated function named by its type",
   "fn clamp(v: usize, hi: usize) -> usize { if v > hi { hi } else { v } }",
   "fn get(&self, v: usize) -> usize { S::clamp(v, self.min) }",
   ["{ let s = S { min: 10, cur: 7 }; s.F(50) }"],
   prelude="pub struct S { min: usize, cur: usize }", impl="impl S")

ok("method on another receiver (plain path, &self helper, same impl): bound as vx_h_self",
   "fn room(&self) -> usize { self.min - self.cur }",
   "fn both(&self, other: &S, w: &W) -> usize { other.room() * 100 + w.inner.room() + self.room() }",
   ["{ let s = S { min: 10, cur: 7 }; let o = S { min: 5, cur: 1 }; let w = W { inner: S { min: 9, cur: 0 } }; s.F(&o, &w) }"],
   prelude="pub struct S { min: usize, cur: usize }\npub struct W { inner: S }", impl="impl S",
   expect=["let vx_h_self: &Self = &other;", "let vx_h_self: &Self = &w.inner;", "vx_h_self.min - vx_h_self.cur"])

ok("&self method of ANOTHER (non-generic, inherent) type of the file, called on a field: bound with the type's name",
   "fn trunc(&self, h: u64) -> u64 { if self.keyed { h ^ self.key } else { h } }",
   "fn query(&self, col: &K, h: u64) -> u64 { col.trunc(h) + self.inner.trunc(h + 1) + self.min as u64 }",
   ["{ let s = S { min: 1, cur: 0, inner: K { keyed: true, key: 5 } }; s.F(&K { keyed: false, key: 9 }, 8) }"],
   prelude="pub struct K { keyed: bool, key: u64 }\npub struct S { min: usize, cur: usize, inner: K }\nimpl K { HELPER }", impl="impl S", hcont="impl K",
   expect=["let vx_h_self: &K = &col;", "let vx_h_self: &K = &self.inner;"])

ok("trailing `return e;` becomes the tail",
   "fn last(a: u32) -> u32 { let b = a + 1; return b * 2; }",
   "fn caller(x: u32) -> u32 { last(x) }",
   ["F(1)", "F(4)"], reject=["return"])

ok("guard clause: `if c { return 0; }` REST  ->  if c { 0 } else { REST }",
   "fn skip(cur: usize, min: usize, avail: usize) -> usize { if cur + 64 >= min { return 0; } let adv = std::cmp::min(min - cur - 64 - 1, avail); adv }",
   "fn caller(cur: usize, n: usize) -> usize { let mut c = 1; c += skip(cur, 200, n); c }",
   ["F(0, 1000)", "F(0, 10)", "F(150, 10)", "F(136, 10)", "F(135, 10)"], reject=["return"])

ok("two guard clauses and a unit helper",
   "fn note(v: &mut Vec<u32>, x: u32) { if x == 0 { return; } v.push(x); if x > 5 { v.push(99); return; } v.push(x + 1); }",
   "fn caller(a: u32) -> Vec<u32> { let mut v = vec![]; note(&mut v, a); note(&mut v, a + 5); v }",
   ["F(0)", "F(1)", "F(7)"], reject=["return"])

ok("parameter captured by a later argument is renamed with vx_h_",
   "fn sub(a: u32, b: u32) -> u32 { let d = a - b; d }",
   "fn caller(a: u32, b: u32) -> u32 { sub(b + 10, a) }",
   ["F(1, 2)", "F(3, 0)"], expect=["let vx_h_a: u32 = b + 10;", "let b: u32 = a;", "vx_h_a - b"])

ok("parameter named like its own argument needs no renaming",
   "fn inc(data: u32) -> u32 { data + 1 }",
   "fn caller(data: u32) -> u32 { inc(data) * inc(data + 1) }",
   ["F(1)", "F(7)"], expect=["let data: u32 = data;"], reject=["vx_h_data"])

ok("same-named functions of other types / modules and same-named methods of other things are left alone",
   "fn new(a: u32) -> S { let v: Vec<u32> = Vec::new(); S { min: a as usize + v.len(), cur: 0 } }",
   "fn make(a: u32) -> (S, usize) { let b = Box::new(a); let s = Self::new(*b); let t = std::rc::Rc::new(1usize); (s, *t) }",
   ["{ let (s, t) = S::F(3); (s.min, s.cur, t) }"],
   prelude="pub struct S { min: usize, cur: usize }", impl="impl S", expect=["Box::new(a)", "Rc::new(1usize)", "Vec::new()"])

ok("free helper `len`; `.len()` calls in caller and body are methods of something else",
   "fn len(v: &[u32]) -> usize { v.len() + 1 }",
   "fn caller(v: &[u32]) -> usize { v.len() * 100 + len(v) }",
   ["F(&[1, 2])"], expect=["v.len() * 100", "v.len() + 1"])

ok("nested calls of the helper in its own arguments",
   "fn inc(a: u32) -> u32 { a + 1 }",
   "fn caller(x: u32) -> u32 { inc(inc(inc(x))) }",
   ["F(1)"])

ok("async helper called with .await (driver erases async/await afterwards; here: compared as text only)",
   "async fn fetch(a: u32) -> u32 { a + 1 }",
   "async fn caller(x: u32) -> u32 { let y = fetch(x).await; y }",
   [], expect=["let y = { let a: u32 = x;"], reject=["fetch", ".await"])

ok("`?` in the body: `let P = h(..)?;`, Ok(e) tail unwrapped, same error type, different Ok type",
   "fn parse(s: &str, add: u32) -> Result<u32, String> { let v: u32 = s.parse().map_err(|_| format!(\"bad {s}\"))?; Ok(v + add) }",
   "fn caller(a: &str, b: &str) -> Result<(u32, u32), String> { let x = parse(a, 1)?; let y = parse(b, 2)?; Ok((x, y)) }",
   ['F("1", "2")', 'F("x", "2")', 'F("1", "y")'], expect=["let vx_h_ret: u32 = v + add; vx_h_ret"], reject=["parse(a", "parse(b"])

ok("`?` in the body: `place = h(..)?;` and `h(..)?;` statement forms, inside control-flow blocks",
   "fn rd(src: &mut Vec<u32>, n: usize) -> Result<Vec<u32>, String> { let mut t = Vec::new(); for _ in 0..n { t.push(src.pop().ok_or(String::from(\"eof\"))?); } Ok(t) }",
   "fn caller(mut src: Vec<u32>, n: usize) -> Result<P, String> { let mut p = P::default(); if n > 0 { p.a = rd(&mut src, n)?; for _ in 0..2 { rd(&mut src, 1)?; } } p.b = rd(&mut src, 1)?; Ok(p) }",
   ["F(vec![1,2,3,4,5,6,7], 2)", "F(vec![1,2,3], 2)", "F(vec![1,2,3], 0)", "F(vec![], 0)", "F(vec![1,2,3,4], 2)"],
   prelude="#[derive(Debug, Default)] pub struct P { a: Vec<u32>, b: Vec<u32> }")

ok("`?` in the body, call sites inside `if let`, `while`, labelled loop and match-arm blocks of statement-level control flow",
   "fn parse(s: &str) -> Result<u32, String> { let v: u32 = s.parse().map_err(|_| String::from(\"bad\"))?; Ok(v + 1) }",
   "fn caller(a: Option<&str>, b: &str, k: u32) -> Result<u32, String> { let mut t = 0; if let Some(x) = a { let v = parse(x)?; t += v; } "
   "match k { 0 => { t += 1; } 1 | 2 => { let w = parse(b)?; t += w; } _ => {} } let mut i = 0; 'outer: while i < k { i += 1; if i == 4 { let z = parse(b)?; t += z; break 'outer; } } Ok(t) }",
   ['F(Some("1"), "5", 0)', 'F(Some("x"), "5", 0)', 'F(None, "y", 1)', 'F(None, "7", 2)', 'F(None, "q", 9)', 'F(None, "q", 3)'])

ok("`?` in the body: compound assignment `place += h(..)?;`",
   "fn wr(out: &mut Vec<u8>, v: &[u8]) -> Result<usize, String> { if v.len() > 3 { Err(String::from(\"long\"))?; } out.extend_from_slice(v); Ok(v.len()) }",
   "fn caller(a: &[u8], b: &[u8]) -> Result<(usize, Vec<u8>), String> { let mut out = Vec::new(); let mut n = 1; n += wr(&mut out, a)?; n <<= wr(&mut out, b)?; Ok((n, out)) }",
   ["F(&[1], &[2, 3])", "F(&[1, 2, 3, 4], &[2])", "F(&[1], &[2, 3, 4, 5])"])

ok("`?` in the body, tail is not Ok(..): becomes (TAIL)?",
   "fn two(a: &str) -> Result<u32, std::num::ParseIntError> { let x: u32 = a.parse()?; a.repeat(2).parse::<u32>().map(|v| v + x) }",
   "fn caller(a: &str) -> Result<u64, std::num::ParseIntError> { let v = two(a)?; Ok(v as u64) }",
   ['F("12")', 'F("zz")', 'F("99999")'])

ok("`?` in the body, call is the tail of the calling function (no unwrapping)",
   "fn parse(s: &str) -> Result<u32, String> { let v: u32 = s.parse().map_err(|_| String::from(\"bad\"))?; Ok(v + 1) }",
   "fn caller(a: &str) -> Result<u32, String> { let _n = a.len(); parse(a) }",
   ['F("1")', 'F("x")'], expect=["let vx_h_ret: Result<u32, String> = Ok(v + 1); vx_h_ret"])

ok("`?` on Option",
   "fn firstplus(v: &[u32], k: u32) -> Option<u32> { let f = v.first()?; Some(*f + k) }",
   "fn caller(v: &[u32]) -> Option<(u32, u32)> { let a = firstplus(v, 1)?; let b = firstplus(&v[1..], 2)?; Some((a, b)) }",
   ["F(&[1, 2])", "F(&[1])", "F(&[])"])

ok("helper without `?` used under `?` at the call site: ordinary inlining, type annotation fixes the error type",
   "fn chk(a: u32) -> Result<u32, String> { if a > 3 { return Err(String::from(\"big\")); } Ok(a * 2) }",
   "fn caller(a: u32) -> Result<u32, String> { let v = chk(a)? + chk(a + 1)?; Ok(v) }",
   ["F(1)", "F(3)", "F(9)"])

ok("generic helper whose type parameter is not mentioned by any parameter/return type (only in a bound): refused? no - unused generic is dropped",
   "fn plain<'a>(a: &'a [u32], i: usize) -> &'a u32 { &a[i] }",
   "fn caller(v: &[u32]) -> u32 { *plain(v, 1) + *plain(v, 0) }",
   ["F(&[5, 6])"], expect=["let a: &'_ [u32] = v;", "let vx_h_ret: &'_ u32"])

ok("generic helper bound to the caller's own generic parameter (same name, identical parameter type, argument is that parameter)",
   "fn rd<R: std::io::Read>(reader: &mut R, n: usize) -> Result<Vec<u8>, std::io::Error> { let mut t = vec![0u8; n]; reader.read_exact(&mut t)?; Ok(t) }",
   "fn caller<R: std::io::Read>(r: &mut R) -> Result<(Vec<u8>, Vec<u8>), std::io::Error> { let a = rd(r, 2)?; let b = rd(r, 3)?; Ok((a, b)) }",
   ["F(&mut &[1u8, 2, 3, 4, 5, 6][..]).map_err(|e| e.kind())", "F(&mut &[1u8, 2, 3][..]).map_err(|e| e.kind())"],
   expect=["let reader: &mut R = r;"])

ok("free helper called from a method",
   "fn clampf(v: usize, hi: usize) -> usize { v.min(hi) }",
   "fn get(&self, v: usize) -> usize { clampf(v, self.min) }",
   ["{ let s = S { min: 10, cur: 7 }; s.F(50) }"],
   prelude="pub struct S { min: usize, cur: usize }", impl="impl S", hcont=None)

ok("helper in `impl S`, caller in `impl Tr for S` (same self type)",
   "fn room(&self) -> usize { self.min - self.cur }",
   "fn get(&self) -> usize { self.room() + 1 }",
   [], prelude="", impl="impl Tr for S", hcont="impl S", expect=["self.min - self.cur"])


# ----------------------------------------------------------------------------------------------------------------------
# refused shapes: (name, helper, helper container, caller container, caller, reason substring)
NO = [
    ("method on a computed receiver", "fn room(&self) -> usize { self.a }", "impl S", "impl S",
     "fn f(&self) -> usize { self.other().room() }", "not a plain path"),
    ("method on an indexed receiver", "fn room(&self) -> usize { self.a }", "impl S", "impl S",
     "fn f(&self, v: &[S]) -> usize { v[0].room() }", "not a plain path"),
    ("&mut self helper on another receiver", "fn bump(&mut self) { self.a += 1; }", "impl S", "impl S",
     "fn f(&mut self, o: &mut S) { o.bump(); }", "only a `&self` helper"),
    ("other receiver, helper in a generic impl of another type", "fn room(&self) -> usize { self.a }", "impl<T> G<T>", "impl S",
     "fn f(&self, o: &G<u8>) -> usize { o.room() }", "own impl block"),
    ("other receiver, helper of another type mentions Self", "fn room(&self) -> usize { Self::base() + self.a }", "impl K", "impl S",
     "fn f(&self, o: &K) -> usize { o.room() }", "own impl block"),
    ("other receiver, helper in a trait impl of another type", "fn room(&self) -> usize { self.a }", "impl Tr for K", "impl S",
     "fn f(&self, o: &K) -> usize { o.room() }", "own impl block"),
    ("self.h() but helper belongs to another type", "fn room(&self) -> usize { self.a }", "impl T", "impl S",
     "fn f(&self) -> usize { self.room() }", "not a method of the calling item's type"),
    ("plain call but helper is an associated fn", "fn room(a: usize) -> usize { a }", "impl S", "impl S",
     "fn f(&self) -> usize { room(1) }", "no call"),
    ("Self::h but helper is free", "fn room(a: usize) -> usize { a }", None, "impl S",
     "fn f(&self) -> usize { Self::room(1) }", "no call"),
    ("module path call", "fn room(a: usize) -> usize { a }", None, None,
     "fn f() -> usize { util::room(1) }", "no call"),
    ("self:: path call", "fn room(a: usize) -> usize { a }", None, None,
     "fn f() -> usize { self::room(1) }", "free function"),
    ("long path call", "fn room(a: usize) -> usize { a }", "impl S", None,
     "fn f() -> usize { crate::S::room(1) }", "longer than"),
    ("Type::h names another type", "fn room(a: usize) -> usize { a }", "impl S", "impl S",
     "fn f() -> usize { T::room(1) }", "no call"),
    ("method through a path (UFCS)", "fn room(&self) -> usize { self.a }", "impl S", "impl S",
     "fn f(&self) -> usize { Self::room(self) }", "called through a path"),
    ("function value, not a call", "fn room(a: usize) -> usize { a }", None, None,
     "fn f(v: Vec<usize>) -> Vec<usize> { v.into_iter().map(room).collect() }", "without being called"),
    ("turbofish", "fn room<T>(a: usize) -> usize { a }", None, None,
     "fn f() -> usize { room::<u8>(1) }", "without being called"),
    ("destructuring parameter", "fn room((a, b): (usize, usize)) -> usize { a + b }", None, None,
     "fn f() -> usize { room((1, 2)) }", "not a plain identifier"),
    ("wildcard parameter", "fn room(_: usize) -> usize { 1 }", None, None,
     "fn f() -> usize { room(2) }", "not a plain identifier"),
    ("generic parameter type", "fn room<T: Into<u64>>(a: T) -> u64 { a.into() }", None, None,
     "fn f() -> u64 { room(2u32) }", "mentions type parameter"),
    ("generic in return type", "fn mk<T: Default>() -> T { T::default() }", None, None,
     "fn f() -> u64 { mk() }", "return type or only in the body"),
    ("generic only in the body", "fn mk<T: Default + Into<u64>>() -> u64 { T::default().into() }", None, None,
     "fn f() -> u64 { mk::<u32>() }", ""),
    ("impl Trait parameter", "fn room(a: impl Into<u64>) -> u64 { a.into() }", None, None,
     "fn f() -> u64 { room(2u32) }", "impl Trait"),
    ("impl Trait return", "fn it(a: u32) -> impl Iterator<Item = u32> { 0..a }", None, None,
     "fn f() -> u32 { it(3).sum() }", "impl Trait"),
    ("generic bound to a caller parameter of a different type", "fn rd<R: std::io::Read>(reader: &mut R) -> u8 { 0 }", None, None,
     "fn f<R: std::io::Read>(r: &mut std::io::BufReader<R>) -> u8 { rd(r) }", "identical declared type"),
    ("generic bound to a computed argument", "fn rd<R: std::io::Read>(reader: &mut R) -> u8 { 0 }", None, None,
     "fn f<R: std::io::Read>(r: &mut R) -> u8 { rd(&mut *r) }", "identical declared type"),
    ("generic bound to a re-bound name", "fn rd<R: std::io::Read>(reader: &mut R) -> u8 { 0 }", None, None,
     "fn f<R: std::io::Read>(r: &mut R) -> u8 { let r = r; rd(r) }", "identical declared type"),
    ("early return inside a loop", "fn find(v: &[u32]) -> usize { for i in 0..v.len() { if v[i] == 0 { return i; } } v.len() }", None, None,
     "fn f(v: &[u32]) -> usize { find(v) }", "does not handle"),
    ("return inside match", "fn g(a: Option<u32>) -> u32 { let v = match a { Some(v) => v, None => return 0 }; v + 1 }", None, None,
     "fn f() -> u32 { g(None) }", "does not handle"),
    ("return in if/else chain", "fn g(a: u32) -> u32 { if a > 1 { return 1; } else { let _b = 2; } a }", None, None,
     "fn f() -> u32 { g(1) }", "if/else chain"),
    ("return guarded by if let", "fn g(a: Option<u32>) -> u32 { if let Some(v) = a { return v; } 0 }", None, None,
     "fn f() -> u32 { g(None) }", "if let"),
    ("return in a closure of the body", "fn g(a: u32) -> u32 { let c = |x: u32| { return x + 1; }; c(a) }", None, None,
     "fn f() -> u32 { g(1) }", "does not handle"),
    ("return and ? together", "fn g(a: &str) -> Result<u32, String> { if a.is_empty() { return Ok(0); } let v: u32 = a.parse().map_err(|_| String::new())?; Ok(v) }", None, None,
     "fn f(a: &str) -> Result<u32, String> { let v = g(a)?; Ok(v) }", "both `return` and `?`"),
    ("? with a different error type", "fn g(a: &str) -> Result<u32, std::num::ParseIntError> { let v: u32 = a.parse()?; Ok(v) }", None, None,
     "fn f(a: &str) -> Result<u32, String> { let v = g(a).map_err(|e| e.to_string())?; Ok(v) }", "same constructor and error type"),
    ("? with a different result alias", "fn g(a: &str) -> io::Result<u32> { let v = rd(a)?; Ok(v) }", None, None,
     "fn f(a: &str) -> Result<u32> { let v = g(a)?; Ok(v) }", "same constructor and error type"),
    ("? helper, comparison statement is not an assignment", "fn g(a: &str) -> Result<u32, String> { let v = rd(a)?; Ok(v) }", None, None,
     "fn f(a: &str, x: u32) -> Result<u32, String> { x <= g(a)?; Ok(x) }", "not of the form"),
    ("? helper, assignment to an indexed place", "fn g(a: &str) -> Result<u32, String> { let v = rd(a)?; Ok(v) }", None, None,
     "fn f(a: &str, x: &mut [u32]) -> Result<u32, String> { x[next()] = g(a)?; Ok(1) }", "not of the form"),
    ("? helper, call result used in an expression", "fn g(a: &str) -> Result<u32, String> { let v = rd(a)?; Ok(v) }", None, None,
     "fn f(a: &str) -> Result<u32, String> { let v = g(a)? + 1; Ok(v) }", "not of the form"),
    ("? helper, call not followed by ? and not the tail", "fn g(a: &str) -> Result<u32, String> { let v = rd(a)?; Ok(v) }", None, None,
     "fn f(a: &str) -> Result<u32, String> { let r = g(a); r }", "neither followed by `?`"),
    ("? helper, call result matched", "fn g(a: &str) -> Result<u32, String> { let v = rd(a)?; Ok(v) }", None, None,
     "fn f(a: &str) -> Result<u32, String> { match g(a) { Ok(v) => Ok(v), Err(_) => Ok(0) } }", "neither followed by `?`"),
    ("? helper called inside a closure", "fn g(a: &str) -> Result<u32, String> { let v = rd(a)?; Ok(v) }", None, None,
     "fn f(a: &str) -> Result<u32, String> { let c = |s: &str| -> Result<u32, String> { let v = g(s)?; Ok(v) }; c(a) }", "closure"),
    ("? helper called inside an async block", "fn g(a: &str) -> Result<u32, String> { let v = rd(a)?; Ok(v) }", None, None,
     "fn f(a: &str) -> Result<u32, String> { let h = spawn(async move { let v = g(a)?; Ok(v) }); h.join() }", "closure"),
    ("? helper called inside an expression block", "fn g(a: &str) -> Result<u32, String> { let v = rd(a)?; Ok(v) }", None, None,
     "fn f(a: &str) -> Result<u32, String> { let w = { let v = g(a)?; v + 1 }; Ok(w) }", "closure"),
    ("? helper called inside a match that is an expression", "fn g(a: &str) -> Result<u32, String> { let v = rd(a)?; Ok(v) }", None, None,
     "fn f(a: &str, k: u32) -> Result<u32, String> { let w = match k { 0 => { let v = g(a)?; v } _ => 1 }; Ok(w) }", "closure"),
    ("? helper called inside a block passed as argument", "fn g(a: &str) -> Result<u32, String> { let v = rd(a)?; Ok(v) }", None, None,
     "fn f(a: &str) -> Result<u32, String> { let w = run(|| { let v = g(a)?; Ok(v) }); w }", "closure"),
    ("? helper with let-else", "fn g(a: &str) -> Result<Option<u32>, String> { let v = rd(a)?; Ok(Some(v)) }", None, None,
     "fn f(a: &str) -> Result<u32, String> { let Some(v) = g(a)? else { return Ok(0) }; Ok(v) }", "not of the form"),
    ("? helper without tail", "fn g(a: &str) -> Result<u32, String> { let v = rd(a)?; loop { } }", None, None,
     "fn f(a: &str) -> Result<u32, String> { let v = g(a)?; Ok(v) }", ""),
    ("macro that may return", "fn g(a: u32) -> Result<u32, String> { if a > 3 { bail!(\"big\"); } Ok(a) }", None, None,
     "fn f(a: u32) -> u32 { match g(a) { Ok(v) => v, Err(_) => 0 } }", "may `return`"),
    ("recursion", "fn g(a: u32) -> u32 { if a == 0 { 0 } else { g(a - 1) } }", None, None,
     "fn f() -> u32 { g(3) }", "recursion"),
    ("async helper not awaited", "async fn g(a: u32) -> u32 { a }", None, None,
     "async fn f() -> u32 { let fut = g(3); fut.await }", "without `.await`"),
    ("await on a non-async helper", "fn g(a: u32) -> BoxFuture<u32> { mk(a) }", None, None,
     "async fn f() -> u32 { g(3).await }", "not an `async fn`"),
    ("unsafe helper", "unsafe fn g(a: u32) -> u32 { a }", None, None,
     "fn f() -> u32 { unsafe { g(3) } }", "unsafe"),
    ("mut self helper", "fn g(mut self) -> S { self.a += 1; self }", "impl S", "impl S",
     "fn f(self) -> S { self.g() }", "mut self"),
    ("typed self receiver", "fn g(self: Arc<Self>) -> usize { self.a }", "impl S", "impl S",
     "fn f(self: Arc<Self>) -> usize { self.g() }", "typed `self`"),
    ("wrong number of arguments", "fn g(a: u32, b: u32) -> u32 { a + b }", None, None,
     "fn f() -> u32 { g(3) }", "argument(s)"),
    ("body calls a function whose name the caller binds as a local", "fn g(a: u32) -> u32 { compute(a) }", None, None,
     "fn f() -> u32 { let compute = |x: u32| x + 1; g(compute(1)) }", "binds as a local"),
    ("renaming needed but the name is used in a format string", "fn g(a: u32, b: u32) -> String { format!(\"{a} {}\", b) }", None, None,
     "fn f(a: u32, b: u32) -> String { g(b, a) }", "format string"),
    ("renaming needed but the name is a struct-literal shorthand", "fn g(a: u32, b: u32) -> P { P { a, b } }", None, None,
     "fn f(a: u32, b: u32) -> P { g(b, a) }", "struct-literal"),
    ("caller defines its own fn of that name", "fn g(a: u32) -> u32 { a }", None, None,
     "fn f() -> u32 { fn g(a: u32) -> u32 { a + 1 } g(1) }", "defines its own"),
    ("Self mentioned, caller outside the type", "fn mk(a: u32) -> Self { Self { a } }", "impl S", "impl T",
     "fn f() -> S { S::mk(1) }", "Self"),
    ("nested item in body", "fn g(a: u32) -> u32 { struct Q; a }", None, None,
     "fn f() -> u32 { g(1) }", "nested item"),
    ("no call at all", "fn g(a: u32) -> u32 { a }", None, None,
     "fn f() -> u32 { 1 }", "no call"),
    ("helper mentions a type parameter of the calling item", "fn g(a: u32) -> u32 { T::get(a) }", None, None,
     "fn f<T: Into<u32>>(t: T) -> u32 { g(1) + t.into() }", "type parameter of the calling item"),
]


# ----------------------------------------------------------------------------------------------------------------------
def run_ok(only, show):
    progs = []
    for idx, c in enumerate(OK):
        if only and only not in c["name"]:
            continue
        cc = c["impl"]
        hc = cc if c["hcont"] == "same" else c["hcont"]
        try:
            h = ah.parse_helper(c["helper"], hc, cc)
            log = {}
            out = ah.inline_calls(c["caller"], h, log)
        except ah.CannotInline as e:
            check(False, "OK[%s]: refused: %s" % (c["name"], e))
            continue
        marked = out
        out = ah.strip_marks(out)
        gen = ah.generated_token_indices(marked)
        mst = ah.sig(ah.lex(marked))
        check(all(mst[k].text not in ("{", "}") or True for k in gen) and len(gen) > 0, "OK[%s]: no generated-token marks" % c["name"])
        # every brace the rule added is marked: the unmarked `{`/`}` are those of the caller plus those of the helper body
        n_unmarked = sum(1 for k, t in enumerate(mst) if t.text in "{}" and k not in gen)
        n_expected = sum(1 for t in ah.sig(ah.lex(c["caller"])) if t.text in "{}") + ah.occurrences(c["caller"], h) * sum(1 for t in ah.sig(ah.lex(h.body)) if t.text in "{}")
        if True:
            check(n_unmarked == n_expected, "OK[%s]: unmarked braces %d, expected %d" % (c["name"], n_unmarked, n_expected))
        if show:
            print("---", c["name"], "\n", out, "\n", log)
        n_calls = ah.occurrences(c["caller"], h)
        check(ah.occurrences(out, h) == 0, "OK[%s]: helper still mentioned: %s" % (c["name"], out))
        check(any(k.startswith("R9h inline %s at %d call site(s)" % (h.name, n_calls)) for k in log), "OK[%s]: log %r (calls=%d)" % (c["name"], log, n_calls))
        nrm = lambda s: re.sub(r"\s+", " ", s)
        for e in c["expect"]:
            check(nrm(e) in nrm(out), "OK[%s]: expected `%s` in: %s" % (c["name"], e, out))
        for e in c["reject"]:
            check(nrm(e) not in nrm(out), "OK[%s]: unexpected `%s` in: %s" % (c["name"], e, out))
        # the source text of the caller outside the call sites is untouched: removing the inserted blocks is not attempted; but
        # the inlined text must still lex and have balanced brackets
        try:
            ah.parse_fn(out)
        except Exception as e:  # noqa
            check(False, "OK[%s]: result does not parse: %s" % (c["name"], e))
        if c["calls"]:
            cname = ah.parse_fn(c["caller"]).name
            inl = re.sub(r"\bfn %s\b" % cname, "fn %s_inl" % cname, out, count=1)
            body = []
            if c["impl"]:
                items = "%s {\n pub %s\n pub %s\n}" % (c["impl"], c["caller"], inl)
                if c["hcont"] == "same":
                    items = "%s {\n %s\n pub %s\n pub %s\n}" % (c["impl"], c["helper"], c["caller"], inl)
                elif "HELPER" in c["prelude"]:
                    pass
                else:
                    items = c["helper"] + "\n" + items
            else:
                items = "%s\npub %s\npub %s" % (c["helper"], c["caller"], inl)
            for call in c["calls"]:
                a = re.sub(r"\bF\(", cname + "(", call)
                b = re.sub(r"\bF\(", cname + "_inl(", call)
                body.append("    { let a = format!(\"{:?}\", %s); let b = format!(\"{:?}\", %s); if a != b { println!(\"DIFF case %d `%s`: {} vs {}\", a, b); } else { println!(\"same case %d: {}\", a); } }" % (a, b, idx, c["name"].replace('"', "'").replace("{", "(").replace("}", ")"), idx))
            progs.append("#[allow(unused, unused_parens, clippy::all)]\nmod case%d {\n%s\n%s\npub fn run() {\n%s\n}\n}\n" % (idx, c["prelude"].replace("HELPER", c["helper"]), items, "\n".join(body)))
    return progs


def run_no(only):
    for name, helper, hc, cc, caller, why in NO:
        if only and only not in name:
            continue
        try:
            h = ah.parse_helper(helper, hc, cc)
        except ah.CannotInline as e:
            check(why in str(e), "NO[%s]: refused at parse with another reason: %s" % (name, e))
            continue
        try:
            out = ah.inline_calls(caller, h, {})
            check(False, "NO[%s]: was inlined: %s" % (name, out))
        except ah.CannotInline as e:
            check(why in str(e), "NO[%s]: refused with another reason: %s (wanted: %s)" % (name, e, why))
        except Exception as e:  # noqa
            check(False, "NO[%s]: crashed: %r" % (name, e))


def test_depth_and_find():
    """find_helper / inline_item on a scratch source file: same-impl preference, cfg(test) ignored, nested helpers, depth limit"""
    d = tempfile.mkdtemp(prefix="ah_unit_")
    os.makedirs(os.path.join(d, "src"))
    src = '''
pub struct S { a: usize }
fn util(a: usize) -> usize { a + 1 }
impl S {
    pub fn top(&self, x: usize) -> usize { let y = self.h1(x); y + Self::h0(x) }
    fn h1(&self, x: usize) -> usize { self.h2(x) + 1 }
    fn h2(&self, x: usize) -> usize { self.h3(x) + util(2) }
    fn h3(&self, x: usize) -> usize { self.h4(x) + 3 }
    fn h4(&self, x: usize) -> usize { x + self.a }
    fn h0(x: usize) -> usize { x * 2 }
    fn dup(&self) -> usize { 1 }
}
impl T {
    fn dup(&self) -> usize { 2 }
    fn only_t(x: usize) -> usize { x }
}
fn dup() -> usize { 3 }
#[cfg(test)]
mod tests {
    fn util(a: usize) -> usize { a + 100 }
    fn only_in_tests() {}
}
'''
    with open(os.path.join(d, "src", "lib.rs"), "w") as f:
        f.write(src)
    h = ah.find_helper(d, "src/lib.rs", "h1", "impl S")
    check(h is not None and h.container == "impl S" and h.same_container, "find_helper h1 in impl S")
    h = ah.find_helper(d, "src/lib.rs", "util", "impl S")
    check(h is not None and h.kind == "free" and "a + 1" in h.text, "find_helper util: the free fn outside cfg(test)")
    check(ah.find_helper(d, "src/lib.rs", "only_in_tests", None) is None, "find_helper ignores cfg(test) modules")
    check(ah.find_helper(d, "src/lib.rs", "nope", None) is None, "find_helper: absent")
    h = ah.find_helper(d, "src/lib.rs", "dup", "impl S")
    check(h is not None and h.container == "impl S", "find_helper prefers the caller's impl")
    h = ah.find_helper(d, "src/lib.rs", "dup", None)
    check(h is not None and h.kind == "free", "find_helper: free fn for a free caller")
    check(ah.find_helper(d, "src/nofile.rs", "dup", None) is None, "find_helper: missing file")
    from vxlib.extract import find_item
    top = find_item(d, "src/lib.rs", "fn", "top", "impl S").text
    info, log = {}, {}
    out = ah.inline_item(d, "src/lib.rs", "impl S", top, ["h1", "h0", "h2", "util"], log, info, "k")
    check(not any(ah.mentions(out, n) for n in ("h1", "h0", "h2", "util")) and ah.mentions(out, "h3"), "inline_item nests h1>h2>util: %s" % out)
    check(sorted(info.get("inlined", [])) == ["k: h0", "k: h1", "k: h2", "k: util"] and not info.get("inline_failed"), "inline_item info: %r" % info)
    info, log = {}, {}
    out = ah.inline_item(d, "src/lib.rs", "impl S", top, ["h1", "h2", "h3", "h4"], log, info, "k")
    check(ah.mentions(out, "h4") and any("nesting deeper" in x for x in info.get("inline_failed", [])), "inline_item depth limit: %r" % info)
    info, log = {}, {}
    out = ah.inline_item(d, "src/lib.rs", "impl S", top, ["x", "nope"], log, info, "k")
    check(out == top and not info, "inline_item: names that are not called leave the item alone: %r" % info)
    info, log = {}, {}
    bad = "fn top(&self, v: Vec<usize>) -> usize { v.into_iter().map(Self::h0).sum() }"
    out = ah.inline_item(d, "src/lib.rs", "impl S", bad, ["h0"], log, info, "k")
    check(out == bad and info.get("inline_failed") and "inlined" not in info, "inline_item: failure leaves text unchanged: %r" % info)
    # constants an edit introduced: module-level const / static, associated const; `*NAME` (R6 shape) left alone
    csrc = '''
/// doc
const BUF: usize = 1 << 18;
pub(crate) static LIMIT: u64 = 4 * 1024;
static mut COUNTER: u64 = 0;
static CACHE: Mutex<u32> = Mutex::new(0);
pub struct S { a: usize }
impl S {
    const W: usize = 64;
    pub fn run(&self, n: usize) -> usize { let v = vec![0u8; BUF]; v.len() + n + Self::W + LIMIT as usize }
    pub fn lazy(&self) -> usize { *BUF + 1 }
    pub fn stat(&self) -> u64 { COUNTER + *CACHE.lock() as u64 }
}
#[cfg(test)]
mod tests { const ONLY_TEST: usize = 1; }
'''
    with open(os.path.join(d, "src", "c.rs"), "w") as f:
        f.write(csrc)
    run = find_item(d, "src/c.rs", "fn", "run", "impl S").text
    info, log = {}, {}
    out = ah.inline_item(d, "src/c.rs", "impl S", run, ["BUF", "W", "LIMIT"], log, info, "k")
    o = ah.strip_marks(out)
    check("{ const BUF: usize = 1 << 18;" in o.replace("  ", " ") or "const BUF: usize = 1 << 18;" in o, "free const re-declared at function start: %s" % o)
    check("const LIMIT: u64 = 4 * 1024;" in o and "static" not in o and "const W: usize = 64;" in o and "Self::W" not in o and "pub(crate)" not in o, "static and associated const re-declared, uses plain: %s" % o)
    check(sorted(info.get("inlined", [])) == ["k: const BUF", "k: const LIMIT", "k: const W"] and not info.get("inline_failed"), "const info: %r" % info)
    check(o.count("const BUF") == 1, "declared once (Verus: no two same-named consts in one function)")
    info, log = {}, {}
    out = ah.inline_item(d, "src/c.rs", "impl S", run, ["BUF", "LIMIT"], log, info, "k", region=True)
    o = ah.strip_marks(out)
    check("const VX_H_1_BUF: usize = 1 << 18; VX_H_1_BUF" in o and "const VX_H_1_LIMIT: u64 = 4 * 1024; VX_H_1_LIMIT" in o, "region: per-use block with a fresh name: %s" % o)
    lazy = find_item(d, "src/c.rs", "fn", "lazy", "impl S").text
    info, log = {}, {}
    out = ah.inline_item(d, "src/c.rs", "impl S", lazy, ["BUF"], log, info, "k")
    check(out == lazy and any("R6" in x for x in info.get("inline_failed", [])), "`*NAME` is left alone: %r" % info)
    stat = find_item(d, "src/c.rs", "fn", "stat", "impl S").text
    info, log = {}, {}
    out = ah.inline_item(d, "src/c.rs", "impl S", stat, ["COUNTER", "CACHE", "ONLY_TEST"], log, info, "k")
    check(out == stat and "inlined" not in info, "static mut / interior mutability / test-only constants are not inlined: %r" % info)
    # driver policy: a helper with a loop is inlined only if that loop is a loop of the item's baseline text (up to renaming of locals)
    base = "fn run(&self, xs: &[u32]) -> u32 { let mut acc = 0; let mut i = 0; while i < xs.len() && xs[i] != 0 { acc += xs[i]; i += 1; } acc + self.a as u32 }"
    cur = "fn run(&self, xs: &[u32]) -> u32 { let acc = Self::sum_prefix(xs); acc + self.a as u32 }"
    moved = ah.parse_helper("fn sum_prefix(xs: &[u32]) -> u32 { let mut total = 0; let mut k = 0; while k < xs.len() && xs[k] != 0 { total += xs[k]; k += 1; } total }", "impl S", "impl S")
    rewritten = ah.parse_helper("fn sum_prefix(xs: &[u32]) -> u32 { let mut total = 0; for k in 0..xs.len() { if xs[k] == 0 { break; } total += xs[k]; } total }", "impl S", "impl S")
    changed = ah.parse_helper("fn sum_prefix(xs: &[u32]) -> u32 { let mut total = 0; let mut k = 0; while k < xs.len() && xs[k] != 1 { total += xs[k]; k += 1; } total }", "impl S", "impl S")
    method_changed = ah.parse_helper("fn sum_prefix(xs: &[u32]) -> u32 { let mut total = 0; let mut k = 0; while k < xs.iter().len() && xs[k] != 0 { total += xs[k]; k += 1; } total }", "impl S", "impl S")
    check(ah.loops_fit_baseline(moved, base) is None, "loop moved verbatim (locals renamed) fits the baseline")
    check(ah.loops_fit_baseline(rewritten, base) is not None, "restructured loop does not fit the baseline")
    check(ah.loops_fit_baseline(changed, base) is not None, "loop with a changed literal does not fit the baseline")
    check(ah.loops_fit_baseline(method_changed, base) is not None, "loop with a changed callee does not fit the baseline")
    param_renamed = ah.parse_helper("fn sum_prefix(vals: &[u32]) -> u32 { let mut total = 0; let mut k = 0; while k < vals.len() && vals[k] != 0 { total += vals[k]; k += 1; } total }", "impl S", "impl S")
    check(ah.loops_fit_baseline(param_renamed, base) is None and ah.loops_fit_baseline.needs_context, "loop over a parameter that is named differently in the baseline: fits, but needs the bindings in front of it")
    check(ah.loops_fit_baseline(moved, base) is None and not ah.loops_fit_baseline.needs_context, "loop over an identically named parameter needs no extra context")
    check(ah.loops_fit_baseline(moved, None) is not None, "no baseline: a helper with a loop is refused")
    check(ah.loops_fit_baseline(ah.parse_helper("fn h(a: u32) -> u32 { a + 1 }"), None) is None, "no loop: nothing to check")
    import shutil
    shutil.rmtree(d)


def main():
    only = None
    if "-k" in sys.argv:
        only = sys.argv[sys.argv.index("-k") + 1]
    show = "--show" in sys.argv
    test_missing_names()
    progs = run_ok(only, show)
    run_no(only)
    if not only:
        test_depth_and_find()
    n_diff = 0
    if progs and "--no-rustc" not in sys.argv:
        d = tempfile.mkdtemp(prefix="ah_rustc_")
        p = os.path.join(d, "diff.rs")
        with open(p, "w") as f:
            f.write("#![allow(warnings)]\npub trait Tr { fn get(&self) -> usize; }\n" + "\n".join(progs) + "\nfn main() {\n" + "\n".join("    case%s::run();" % m for m in re.findall(r"mod case(\d+) ", "\n".join(progs))) + "\n}\n")
        r = subprocess.run(["rustc", "--edition", "2021", "-O", "-o", os.path.join(d, "diff"), p], capture_output=True, text=True)
        if r.returncode != 0:
            check(False, "differential program does not compile (%s):\n%s" % (p, r.stderr[:6000]))
        else:
            r2 = subprocess.run([os.path.join(d, "diff")], capture_output=True, text=True)
            check(r2.returncode == 0, "differential program failed: %s" % r2.stderr[:2000])
            n_same = r2.stdout.count("same case")
            n_diff = r2.stdout.count("DIFF case")
            for l in r2.stdout.split("\n"):
                if l.startswith("DIFF"):
                    check(False, l)
            print("differential: %d call(s) compared on original vs inlined code, %d differ" % (n_same + n_diff, n_diff))
            import shutil
            shutil.rmtree(d)
    print("supported shapes: %d   refused shapes: %d   failures: %d" % (len(OK), len(NO), len(FAILS)))
    return 1 if FAILS else 0


if __name__ == "__main__":
    sys.exit(main())
