#!/usr/bin/env python3
"""Robustness sweep of rule R9h over a real source tree: for every non-test fn F of every .rs file and every fn H of the SAME
file that F mentions, try to inline H into F.  Nothing may crash; every success must still lex, parse and have balanced
brackets.  With --apply <tree>: the inlined texts are written into that (scratch!) tree, one call-graph layer (F's own text is
replaced; helpers stay defined), so that `cargo check` / `cargo test` of the tree can confirm that the inlined code type-checks
and behaves as before.

usage: sweep_repo.py <tree> [--apply] [--no-recv] [--only crate_dir ...]   (--only must come last)
"""
import collections
import os
import sys

sys.path.insert(0, os.path.dirname(os.path.dirname(os.path.abspath(__file__))))
from vxlib import autohelper as ah  # noqa: E402
from vxlib.extract import items_of  # noqa: E402
from vxlib.lexer import lex, sig  # noqa: E402


def main():
    tree = sys.argv[1]
    apply = "--apply" in sys.argv
    only = sys.argv[sys.argv.index("--only") + 1:] if "--only" in sys.argv else None
    if "--no-recv" in sys.argv:
        ah.ALLOW_RECV = False
    stats = collections.Counter()
    reasons = collections.Counter()
    for root, dirs, files in os.walk(tree):
        dirs[:] = [d for d in dirs if d not in ("target", ".git", "tests", "benches", "examples")]
        for fn in files:
            if not fn.endswith(".rs"):
                continue
            rel = os.path.relpath(os.path.join(root, fn), tree)
            if only and not any(rel.startswith(o) for o in only):
                continue
            try:
                src, items = items_of(tree, rel)
            except Exception as e:  # noqa
                stats["file not lexed"] += 1
                continue
            fns = [it for it in items if it.kind == "fn" and src[it.body_open] == "{" and not (it.container and any(c == "tests" or c == "test" for c in it.container))]
            names = set(it.name for it in fns)
            edits = []
            for f in fns:
                cont = f.container[-1] if f.container else None
                if cont is not None and not cont.startswith("impl"):
                    cont = None
                body_ids = set(t.text for t in sig(lex(f.text)) if t.kind == "ident")
                text = f.text
                changed = False
                for n in sorted(names & body_ids):
                    if n == f.name:
                        continue
                    if not ah.refers_to(text, n):
                        continue
                    stats["candidate"] += 1
                    try:
                        h = ah.find_helper(tree, rel, n, cont)
                    except Exception as e:  # noqa
                        stats["CRASH find_helper"] += 1
                        print("CRASH find_helper", rel, f.name, n, repr(e))
                        continue
                    if h is None:
                        stats["helper not found / ambiguous"] += 1
                        continue
                    try:
                        out = ah.inline_calls(text, h, {})
                    except ah.CannotInline as e:
                        stats["refused"] += 1
                        reasons[str(e).split("`")[0][:60]] += 1
                        continue
                    except Exception as e:  # noqa
                        stats["CRASH inline_calls"] += 1
                        print("CRASH inline_calls", rel, f.name, n, repr(e))
                        continue
                    try:
                        ah.parse_fn(ah.strip_marks(out), strict=False)
                        stats["inlined"] += 1
                        text = out
                        changed = True
                    except Exception as e:  # noqa
                        stats["RESULT DOES NOT PARSE"] += 1
                        print("BAD RESULT", rel, f.name, n, repr(e))
                if changed:
                    edits.append((f.start, f.end, ah.strip_marks(text)))
            if apply and edits:
                edits.sort()
                out = []
                pos = 0
                for a, b, t in edits:
                    if a < pos:
                        continue        # nested fn
                    out.append(src[pos:a])
                    out.append(t)
                    pos = b
                out.append(src[pos:])
                with open(os.path.join(tree, rel), "w") as fh:
                    fh.write("".join(out))
                stats["files rewritten"] += 1
    for k, v in sorted(stats.items()):
        print("%-32s %d" % (k, v))
    print("refusal reasons:")
    for k, v in reasons.most_common(25):
        print("   %4d  %s" % (v, k))
    return 1 if any(k.startswith("CRASH") or k.startswith("RESULT") for k in stats) else 0


if __name__ == "__main__":
    sys.exit(main())
