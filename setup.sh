#!/bin/bash
# Run once after a fresh restore, offline.  Nothing is compiled ahead of time: every check regenerates its Verus / Kani input
# from /repo's working tree.  This only creates scratch directories and checks that the tools are present.
set -e
cd "$(dirname "$0")"
mkdir -p build replay evidence
command -v verus >/dev/null || { echo "verus not on PATH"; exit 1; }
python3 -c "import sys; assert sys.version_info >= (3, 8)"
echo "setup ok"
