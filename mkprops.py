#!/usr/bin/env python3
"""Assemble props.json (property -> units / kani units / assumptions / not covered) from props_base.json (hand-written) and
the JSON snippets at the end of units/*.notes.md and kani/*/notes.md.  Run by hand after a unit is added; output is committed."""
import glob, json, os, re
HERE = os.path.dirname(os.path.abspath(__file__))
props = json.load(open(os.path.join(HERE, "props_base.json")))


def merge(pid, d):
    p = props.setdefault(pid, {"units": [], "kani": [], "assumptions": [], "not_covered": []})
    for k in ("units", "kani", "assumptions", "not_covered"):
        for x in d.get(k, []):
            if x not in p.setdefault(k, []):
                p[k].append(x)


for f in sorted(glob.glob(os.path.join(HERE, "units", "*.notes.md")) + glob.glob(os.path.join(HERE, "kani", "*", "notes.md"))):
    s = open(f).read()
    ms = re.findall(r"```json\n(.*?)```", s, re.S)
    for m in ms:
        try:
            d = json.loads(m)
        except Exception:
            continue
        if not isinstance(d, dict) or not all(re.match(r"^C\d\d$", k) for k in d):
            continue
        for pid, v in d.items():
            merge(pid, v)
# only units that exist
have = set(os.path.basename(p)[:-3] for p in glob.glob(os.path.join(HERE, "units", "U-*.rs")))
havek = set(os.path.basename(os.path.dirname(p)) for p in glob.glob(os.path.join(HERE, "kani", "*", "unit.json")))
for pid, p in props.items():
    p["units"] = [u for u in p.get("units", []) if u in have]
    p["kani"] = [k for k in p.get("kani", []) if k in havek]
json.dump(dict(sorted(props.items())), open(os.path.join(HERE, "props.json"), "w"), indent=1)
print({k: (v["units"], v["kani"]) for k, v in sorted(props.items())})
