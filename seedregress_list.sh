#!/bin/bash
# seedregress_list.sh <outfile> <seed id>... — FULL quick check (Verus + Kani + witness escalation) of the listed stored seeds, 3 at a time
OUT=$1; shift
cd /verif
printf "%s\n" "$@" | xargs -P 3 -I{} bash -c '
  N={}; D=/verif/seeded/$N
  PROP=$(python3 -c "import json;print(json.load(open(\"$D/meta.json\"))[\"property\"])")
  P=$D/patch.diff; for alt in $D/patch_on_*.diff; do [ -f "$alt" ] && P=$alt; done
  W=/tmp/sregl_$PPID/$N; rm -rf $W; mkdir -p /tmp/sregl_$PPID
  git -C /repo worktree add -f $W HEAD -q 2>/dev/null || exit 0
  git -C $W apply $P 2>/dev/null || (cd $W && patch -p1 -s --fuzz=3 < $P >/dev/null 2>&1) || { echo "$N prop=$PROP NOAPPLY"; git -C /repo worktree remove --force $W; exit 0; }
  O=$(cd /verif && VX_REPO=$W ./vx check $PROP --tier quick 2>&1); RC=$?
  echo "$N prop=$PROP rc=$RC :: $(echo "$O" | grep "^failed obligation\|^UNDECIDED\|WITNESS" | head -1 | cut -c1-200)"
  git -C /repo worktree remove --force $W
' > $OUT 2>&1
git -C /repo worktree prune
