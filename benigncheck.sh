#!/bin/bash
# benigncheck.sh <Bnn>...  — run the property's quick check against each behaviour-preserving patch in /tmp/seed/<Bnn>-out (patch1..3.diff),
# each applied to a scratch worktree of /repo HEAD; prints rc per patch (0 = quiet, 1 = FALSE ALARM, 2 = undecided)
for ID in "$@"; do
  SRC=/tmp/seed/$ID-out; [ -d $SRC ] || SRC=/verif/benign/$ID
  PROP=$(python3 -c "import json;print(json.load(open('$SRC/meta.json'))['property'])" 2>/dev/null) || { echo "$ID: no meta.json"; continue; }
  for k in 1 2 3; do
    [ -f $SRC/patch$k.diff ] || { echo "$ID patch$k: missing"; continue; }
    W=/tmp/bchk/${ID}_$k
    rm -rf $W; git -C /repo worktree prune; mkdir -p /tmp/bchk
    git -C /repo worktree add -f $W HEAD -q || continue
    if ! git -C $W apply $SRC/patch$k.diff 2>/tmp/bchk/${ID}_$k.applyerr; then echo "$ID patch$k prop=$PROP: DOES NOT APPLY ($(head -1 /tmp/bchk/${ID}_$k.applyerr))"; git -C /repo worktree remove --force $W; continue; fi
    OUT=$(cd /verif && VX_REPO=$W ./vx check $PROP --tier quick 2>&1); RC=$?
    echo "$OUT" > /tmp/bchk/${ID}_$k.log
    FIRST=$(echo "$OUT" | grep "^failed obligation\|^UNDECIDED" | head -2 | cut -c1-260 | tr '\n' ' ')
    echo "$ID patch$k prop=$PROP rc=$RC :: $FIRST"
    git -C /repo worktree remove --force $W
  done
done
