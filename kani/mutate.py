#!/usr/bin/env python3
"""Sensitivity check of Kani units: apply each source mutation of kani/<K-NAME>/mutants.json to a scratch copy of the
repository (never to /repo), run the unit against it, and require status 'violation' with a concrete counterexample.

  python3 kani/mutate.py K-HDR [mutant-name ...] [--tier quick|thorough] [--keep]

exit 0: every mutant was caught; 1: some mutant survived (contract too weak) or gave 'undecided'.
"""
import json
import os
import shutil
import subprocess
import sys

HERE = os.path.dirname(os.path.dirname(os.path.abspath(__file__)))
sys.path.insert(0, HERE)
from vxlib import kani  # noqa: E402

REPO = os.environ.get("VX_REPO", "/repo")
SCRATCH = "/tmp/KANI/mut"


def main(argv):
    unit = argv[1]
    tier = "quick"
    keep = "--keep" in argv
    if "--tier" in argv:
        tier = argv[argv.index("--tier") + 1]
    only = [a for a in argv[2:] if not a.startswith("--") and a not in ("quick", "thorough")]
    with open(os.path.join(HERE, "kani", unit, "mutants.json")) as f:
        muts = json.load(f)
    bad = 0
    for m in muts:
        if only and m["name"] not in only:
            continue
        d = os.path.join(SCRATCH, unit, m["name"])
        shutil.rmtree(d, ignore_errors=True)
        os.makedirs(d)
        subprocess.run(["rsync", "-a", "--exclude", "target", "--exclude", ".git", REPO + "/", d + "/"], check=True)
        p = os.path.join(d, m["file"])
        with open(p) as f:
            s = f.read()
        n = s.count(m["from"])
        if n != m.get("count", 1):
            print("MUTANT %s/%s: pattern occurs %d times, expected %d -- NOT APPLIED" % (unit, m["name"], n, m.get("count", 1)))
            bad += 1
            shutil.rmtree(d, ignore_errors=True)
            continue
        s = s.replace(m["from"], m["to"])
        ok_also = True
        for extra in m.get("also", []):  # further replacements belonging to the same mutant (e.g. a consistent swap on both sides)
            if s.count(extra["from"]) != extra.get("count", 1):
                ok_also = False
            s = s.replace(extra["from"], extra["to"])
        if not ok_also:
            print("MUTANT %s/%s: an `also` pattern does not occur the expected number of times -- NOT APPLIED" % (unit, m["name"]))
            bad += 1
            shutil.rmtree(d, ignore_errors=True)
            continue
        with open(p, "w") as f:
            f.write(s)
        r = kani.run_kani_unit(HERE, d, unit, m.get("tier", tier), only_harnesses=m.get("harnesses"))
        caught = r["status"] == "violation"
        cex = None
        for fl in r["failures"]:
            vo = fl["verifier_output"]
            if vo.get("counterexample"):
                cex = vo["counterexample"]
                break
        ok = caught and cex is not None
        print("MUTANT %s/%s  (%s: `%s` -> `%s`)  => %s%s  wall=%ss" % (unit, m["name"], m["file"], m["from"].strip()[:60], m["to"].strip()[:60], r["status"],
                                                                      "" if ok else ("  ** NOT CAUGHT **" if not caught else "  ** no concrete counterexample **"), r.get("wall_s")))
        if r["undecided_reason"]:
            print("    undecided:", r["undecided_reason"][:600])
        for fl in r["failures"][:4]:
            print("    failed:", fl["id"])
            print("       site:", fl.get("site"), "| source:", fl.get("source"))
        if cex is not None:
            print("    counterexample (kani::any() values in call order):", json.dumps([c["value"] for c in cex])[:400])
        if not ok:
            bad += 1
        if not keep:
            shutil.rmtree(d, ignore_errors=True)
            shutil.rmtree(kani.build_dir(HERE, d, unit), ignore_errors=True)
            try:
                os.remove(kani.build_dir(HERE, d, unit) + ".lock")
            except OSError:
                pass
    return 1 if bad else 0


if __name__ == "__main__":
    sys.exit(main(sys.argv))
