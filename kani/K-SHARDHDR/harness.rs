// K-SHARDHDR: shard file header / footer codecs on the REAL mdb_shard crate.
use std::io::Cursor;
use std::mem::size_of;

use mdb_shard::error::MDBShardError;
use mdb_shard::shard_format::{MDBShardFileFooter, MDBShardFileHeader};
use merklehash::MerkleHash;

// mdb_shard/src/shard_format.rs:43-46 (private constant, spelled out here and compared with Default below)
const TAG: [u8; 32] = [
    b'H', b'F', b'R', b'e', b'p', b'o', b'M', b'e', b't', b'a', b'D', b'a', b't', b'a', 0, 85, 105, 103, 69, 106, 123, 129, 87, 131, 165, 189,
    217, 92, 205, 209, 74, 169,
];
const HEADER_VERSION: u64 = 2;
const FOOTER_VERSION: u64 = 1;
const FOOTER_SIZE: usize = 200;

/// Stand-in for `alloc::fmt::format` (what `format!` calls): the footer's version-mismatch path builds its message with
/// `format!`, and core::fmt does not terminate under CBMC.  The message text is dropped; everything else is the real code.
fn no_format(_args: std::fmt::Arguments<'_>) -> String {
    String::new()
}

fn le64(b: &[u8], at: usize) -> u64 {
    u64::from_le_bytes([b[at], b[at + 1], b[at + 2], b[at + 3], b[at + 4], b[at + 5], b[at + 6], b[at + 7]])
}

fn any_footer() -> MDBShardFileFooter {
    let key: [u64; 4] = kani::any();
    MDBShardFileFooter {
        version: kani::any(),
        file_info_offset: kani::any(),
        cas_info_offset: kani::any(),
        file_lookup_offset: kani::any(),
        file_lookup_num_entry: kani::any(),
        cas_lookup_offset: kani::any(),
        cas_lookup_num_entry: kani::any(),
        chunk_lookup_offset: kani::any(),
        chunk_lookup_num_entry: kani::any(),
        chunk_hash_hmac_key: MerkleHash::from(key),
        shard_creation_timestamp: kani::any(),
        shard_key_expiry: kani::any(),
        _buffer: kani::any(),
        stored_bytes_on_disk: kani::any(),
        materialized_bytes: kani::any(),
        stored_bytes: kani::any(),
        footer_offset: kani::any(),
    }
}

#[kani::proof]
#[kani::stub(std::fmt::format, no_format)]
fn footer_roundtrip_and_layout() {
    let x = any_footer();
    kani::assume(x.version == FOOTER_VERSION);
    let mut out: Vec<u8> = Vec::new();
    let n = x.serialize(&mut out);
    assert!(matches!(n, Ok(FOOTER_SIZE)), "serialize returns Ok(200)");
    assert!(out.len() == FOOTER_SIZE && size_of::<MDBShardFileFooter>() == FOOTER_SIZE, "200 bytes written, size_of is 200");
    assert!(le64(&out, 0) == x.version && le64(&out, 8) == x.file_info_offset && le64(&out, 16) == x.cas_info_offset, "layout: version@0 file_info_offset@8 cas_info_offset@16");
    assert!(le64(&out, 24) == x.file_lookup_offset && le64(&out, 32) == x.file_lookup_num_entry, "layout: file_lookup_offset@24 file_lookup_num_entry@32");
    assert!(le64(&out, 40) == x.cas_lookup_offset && le64(&out, 48) == x.cas_lookup_num_entry, "layout: cas_lookup_offset@40 cas_lookup_num_entry@48");
    assert!(le64(&out, 56) == x.chunk_lookup_offset && le64(&out, 64) == x.chunk_lookup_num_entry, "layout: chunk_lookup_offset@56 chunk_lookup_num_entry@64");
    let j: usize = kani::any();
    kani::assume(j < 32);
    assert!(out[72 + j] == x.chunk_hash_hmac_key.as_bytes()[j], "layout: chunk_hash_hmac_key bytes @72..104");
    assert!(le64(&out, 104) == x.shard_creation_timestamp && le64(&out, 112) == x.shard_key_expiry, "layout: shard_creation_timestamp@104 shard_key_expiry@112");
    let k: usize = kani::any();
    kani::assume(k < 6);
    assert!(le64(&out, 120 + 8 * k) == x._buffer[k], "layout: _buffer[k]@120+8k");
    assert!(le64(&out, 168) == x.stored_bytes_on_disk && le64(&out, 176) == x.materialized_bytes, "layout: stored_bytes_on_disk@168 materialized_bytes@176");
    assert!(le64(&out, 184) == x.stored_bytes && le64(&out, 192) == x.footer_offset, "layout: stored_bytes@184 footer_offset@192 (last)");

    let mut rd = Cursor::new(&out[..]);
    match MDBShardFileFooter::deserialize(&mut rd) {
        Ok(y) => assert!(y == x, "deserialize(serialize(x)) == x"),
        Err(_) => assert!(false, "deserialize rejects serialize's output"),
    }
    assert!(rd.position() == FOOTER_SIZE as u64, "deserialize consumes exactly 200 bytes");
    let d = MDBShardFileFooter::default();
    assert!(d.version == FOOTER_VERSION && d.shard_key_expiry == u64::MAX && d.shard_creation_timestamp == 0 && d.footer_offset == 0, "Default: version 1, no expiry, no timestamp");
    kani::cover!(x.file_info_offset == 1 && x.cas_info_offset == 2 && x.file_lookup_offset == 3 && x.stored_bytes == 4 && x.materialized_bytes == 5 && x.stored_bytes_on_disk == 6,
                 "distinct values in fields that are easy to swap");
}

#[kani::proof]
#[kani::stub(std::fmt::format, no_format)]
fn footer_deserialize_any_bytes() {
    let b: [u8; FOOTER_SIZE] = kani::any();
    let version = le64(&b, 0);
    match MDBShardFileFooter::deserialize(&mut &b[..]) {
        Ok(x) => {
            assert!(version == FOOTER_VERSION, "Ok ==> version word is 1");
            assert!(x.version == FOOTER_VERSION, "Ok ==> footer.version == 1");
            let mut o: Vec<u8> = Vec::new();
            let j: usize = kani::any();
            kani::assume(j < FOOTER_SIZE);
            assert!(x.serialize(&mut o).is_ok() && o.len() == FOOTER_SIZE && o[j] == b[j], "serialize(deserialize(b)) == b");
        },
        Err(e) => {
            assert!(version != FOOTER_VERSION, "a 200-byte input with version 1 is accepted whatever the other bytes are");
            assert!(matches!(e, MDBShardError::ShardVersionError(_)), "rejection is ShardVersionError");
        },
    }
    kani::cover!(version == FOOTER_VERSION && b[199] == 0xEE, "accepted input");
    kani::cover!(version == 2, "rejected version");
}

#[kani::proof]
#[kani::stub(std::fmt::format, no_format)]
fn footer_truncated_input() {
    let b: [u8; FOOTER_SIZE] = kani::any();
    let version = le64(&b, 0);
    // truncated input with the right version: an error, not a panic
    let n: usize = kani::any();
    kani::assume(n < FOOTER_SIZE);
    let r = MDBShardFileFooter::deserialize(&mut &b[..n]);
    assert!(r.is_err(), "fewer than 200 bytes ==> Err");
    if n >= 8 && version == FOOTER_VERSION {
        assert!(matches!(r, Err(MDBShardError::IOError(_))), "truncated after a good version word ==> IOError");
    }
    kani::cover!(n == 199 && version == FOOTER_VERSION, "one byte short");
    kani::cover!(n == 0, "empty input");
}

#[kani::proof]
fn header_roundtrip_and_layout() {
    let x = MDBShardFileHeader { tag: kani::any(), version: kani::any(), footer_size: kani::any() };
    let mut out: Vec<u8> = Vec::new();
    let n = x.serialize(&mut out);
    assert!(matches!(n, Ok(48)), "serialize returns Ok(48)");
    assert!(out.len() == 48 && size_of::<MDBShardFileHeader>() == 48, "48 bytes written, size_of is 48");
    let j: usize = kani::any();
    kani::assume(j < 32);
    assert!(out[j] == TAG[j], "bytes 0..32 are the constant tag (not x.tag)");
    assert!(le64(&out, 32) == x.version && le64(&out, 40) == x.footer_size, "layout: version@32 footer_size@40");
    match MDBShardFileHeader::deserialize(&mut Cursor::new(&out[..])) {
        Ok(y) => {
            assert!(y.tag == TAG && y.version == x.version && y.footer_size == x.footer_size, "deserialize(serialize(x)) has the constant tag and x's version / footer_size");
            assert!((y == x) == (x.tag == TAG), "deserialize(serialize(x)) == x exactly when x.tag is the constant tag");
        },
        Err(_) => assert!(false, "deserialize rejects serialize's output"),
    }
    let d = MDBShardFileHeader::default();
    assert!(d.tag == TAG && d.version == HEADER_VERSION && d.footer_size == FOOTER_SIZE as u64, "Default: the tag, version 2, footer_size 200");
    kani::cover!(x.tag != TAG && x.version == 7, "a header value with a foreign tag");
    kani::cover!(x.tag == TAG, "a header value with the right tag");
}

#[kani::proof]
fn header_deserialize_any_bytes() {
    let b: [u8; 48] = kani::any();
    let mut tag_ok = true;
    let mut i = 0;
    while i < 32 {
        if b[i] != TAG[i] {
            tag_ok = false;
        }
        i += 1;
    }
    match MDBShardFileHeader::deserialize(&mut &b[..]) {
        Ok(h) => {
            assert!(tag_ok, "Ok ==> bytes 0..32 are the tag");
            assert!(h.version == le64(&b, 32) && h.footer_size == le64(&b, 40), "Ok ==> version / footer_size are the words at 32 / 40, unchecked");
        },
        Err(e) => {
            assert!(!tag_ok, "a 48-byte input with the right tag is accepted whatever version / footer_size say");
            assert!(matches!(e, MDBShardError::ShardVersionError(_)), "rejection is ShardVersionError");
        },
    }
    kani::cover!(tag_ok && le64(&b, 32) == 99 && le64(&b, 40) == 0, "accepted: right tag, unknown version 99, footer_size 0");
    kani::cover!(!tag_ok && b[0] == b'H', "rejected: tag differs after the first byte");
}

#[kani::proof]
fn header_truncated_input() {
    let b: [u8; 48] = kani::any();
    let n: usize = kani::any();
    kani::assume(n < 48);
    assert!(MDBShardFileHeader::deserialize(&mut &b[..n]).is_err(), "fewer than 48 bytes ==> Err, not a panic");
    kani::cover!(n == 47 && b[0] == b'H' && b[31] == 169, "one byte short");
    kani::cover!(n == 0, "empty");
}

#[kani::proof]
#[kani::stub(std::fmt::format, no_format)]
fn footer_truncated_input_boundaries() {
    let b: [u8; FOOTER_SIZE] = kani::any();
    kani::assume(le64(&b, 0) == FOOTER_VERSION);
    // cut inside the version word, right after it, inside _buffer, one byte before the end
    assert!(MDBShardFileFooter::deserialize(&mut &b[..7]).is_err(), "7 bytes ==> Err");
    assert!(matches!(MDBShardFileFooter::deserialize(&mut &b[..8]), Err(MDBShardError::IOError(_))), "8 bytes ==> IOError");
    assert!(matches!(MDBShardFileFooter::deserialize(&mut &b[..150]), Err(MDBShardError::IOError(_))), "150 bytes (inside _buffer) ==> IOError");
    assert!(matches!(MDBShardFileFooter::deserialize(&mut &b[..199]), Err(MDBShardError::IOError(_))), "199 bytes ==> IOError");
    kani::cover!(b[198] == 0xEE, "reached with arbitrary content");
}

/// is_bookend (cas_structs.rs / file_structs.rs): the section end marker is recognised exactly for the all-ones hash.
/// This is the fact the Verus preludes assume about `is_bookend` (`r == (hash == bookend_hash())`, shscan_io.rs, setopstream_io.rs).
#[kani::proof]
fn bookend_iff_all_ones() {
    use mdb_shard::cas_structs::CASChunkSequenceHeader;
    use mdb_shard::file_structs::FileDataSequenceHeader;
    let w: [u64; 4] = kani::any();
    let all_ones = w[0] == !0u64 && w[1] == !0u64 && w[2] == !0u64 && w[3] == !0u64;
    let c = CASChunkSequenceHeader { cas_hash: MerkleHash::from(w), cas_flags: kani::any(), num_entries: kani::any(), num_bytes_in_cas: kani::any(), num_bytes_on_disk: kani::any() };
    assert!(c.is_bookend() == all_ones, "CASChunkSequenceHeader::is_bookend <=> all four hash words are all-ones");
    let f = FileDataSequenceHeader { file_hash: MerkleHash::from(w), file_flags: kani::any(), num_entries: kani::any(), _unused: kani::any() };
    assert!(f.is_bookend() == all_ones, "FileDataSequenceHeader::is_bookend <=> all four hash words are all-ones");
    assert!(CASChunkSequenceHeader::bookend().is_bookend(), "CAS bookend() is a bookend");
    assert!(FileDataSequenceHeader::bookend().is_bookend(), "file bookend() is a bookend");
    kani::cover!(all_ones, "the all-ones hash is reachable");
    kani::cover!(!all_ones && w[2] == !0u64, "a hash with one all-ones word is reachable");
}
