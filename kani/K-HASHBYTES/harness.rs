// K-HASHBYTES harnesses: facts about merklehash::DataHash (= MerkleHash) that the Verus preludes assume.
use std::cmp::Ordering;
use std::hash::{Hash, Hasher};

use merklehash::{DataHash, MerkleHash};

fn le_word(b: &[u8; 32], k: usize) -> u64 {
    u64::from_le_bytes([b[8 * k], b[8 * k + 1], b[8 * k + 2], b[8 * k + 3], b[8 * k + 4], b[8 * k + 5], b[8 * k + 6], b[8 * k + 7]])
}

#[kani::proof]
fn bytes_words_roundtrip() {
    let b: [u8; 32] = kani::any();
    let h = DataHash::from(b);
    let hr = DataHash::from(&b);
    assert!(h[0] == le_word(&b, 0) && h[1] == le_word(&b, 1) && h[2] == le_word(&b, 2) && h[3] == le_word(&b, 3),
            "From<[u8;32]>: word k is the little-endian u64 of bytes 8k..8k+8");
    assert!(hr[0] == h[0] && hr[1] == h[1] && hr[2] == h[2] && hr[3] == h[3], "From<&[u8;32]> agrees with From<[u8;32]>");

    let j: usize = kani::any();
    kani::assume(j < 32);
    assert!(h.as_bytes().len() == 32, "as_bytes() has 32 bytes");
    assert!(h.as_bytes()[j] == b[j], "as_bytes()[j] == b[j]");
    let r: &[u8] = h.as_ref();
    assert!(r.len() == 32 && r[j] == b[j], "AsRef<[u8]> gives the same 32 bytes");
    let back: [u8; 32] = h.into();
    assert!(back[j] == b[j], "Into<[u8;32]>(From<[u8;32]>(b)) == b");

    match DataHash::from_slice(&b[..]) {
        Ok(h2) => assert!(h2[0] == h[0] && h2[1] == h[1] && h2[2] == h[2] && h2[3] == h[3], "from_slice(b) == from(b)"),
        Err(_) => assert!(false, "from_slice rejects a 32-byte slice"),
    }

    let w: [u64; 4] = kani::any();
    let hw = MerkleHash::from(w);
    assert!(hw[0] == w[0] && hw[1] == w[1] && hw[2] == w[2] && hw[3] == w[3], "Deref(From<[u64;4]>(w)) == w");
    let wb = hw.as_bytes();
    let k: usize = kani::any();
    kani::assume(k < 4);
    assert!(wb[8 * k] == w[k].to_le_bytes()[0] && wb[8 * k + 7] == w[k].to_le_bytes()[7], "as_bytes: word k occupies bytes 8k..8k+8, little-endian");
    let d = DataHash::default();
    assert!(d[0] == 0 && d[1] == 0 && d[2] == 0 && d[3] == 0, "Default is all zero");

    kani::cover!(j == 31 && b[31] == 0xA5 && b[0] == 0x5A, "distinct first/last byte");
    kani::cover!(h[3] == 0x0102030405060708, "asymmetric word 3");
}

#[kani::proof]
fn from_slice_length() {
    let buf: [u8; 40] = kani::any();
    let n: usize = kani::any();
    kani::assume(n <= 40);
    let s = &buf[..n];
    let r = DataHash::from_slice(s);
    let t = DataHash::try_from(s);
    assert!(r.is_ok() == (n == 32), "from_slice is Ok exactly for length 32");
    assert!(t.is_ok() == (n == 32), "TryFrom<&[u8]> is Ok exactly for length 32");
    if let (Ok(h), Ok(h2)) = (r, t) {
        let j: usize = kani::any();
        kani::assume(j < 32);
        assert!(h.as_bytes()[j] == buf[j], "from_slice copies the 32 bytes");
        assert!(h2.as_bytes()[j] == buf[j], "try_from copies the 32 bytes");
    }
    kani::cover!(n == 32, "accepted length");
    kani::cover!(n == 31, "one short");
    kani::cover!(n == 33, "one long");
    kani::cover!(n == 0, "empty");
}

fn lex(a: &[u64; 4], b: &[u64; 4]) -> Ordering {
    if a[0] != b[0] { return if a[0] < b[0] { Ordering::Less } else { Ordering::Greater }; }
    if a[1] != b[1] { return if a[1] < b[1] { Ordering::Less } else { Ordering::Greater }; }
    if a[2] != b[2] { return if a[2] < b[2] { Ordering::Less } else { Ordering::Greater }; }
    if a[3] != b[3] { return if a[3] < b[3] { Ordering::Less } else { Ordering::Greater }; }
    Ordering::Equal
}

#[kani::proof]
fn eq_and_ord_lexicographic_on_words() {
    let a: [u64; 4] = kani::any();
    let b: [u64; 4] = kani::any();
    let ha = DataHash::from(a);
    let hb = DataHash::from(b);
    let all_eq = a[0] == b[0] && a[1] == b[1] && a[2] == b[2] && a[3] == b[3];
    assert!((ha == hb) == all_eq, "== iff all four words are equal");
    let c = ha.cmp(&hb);
    assert!(c == lex(&a, &b), "Ord::cmp is lexicographic on the u64 words, word 0 first");
    assert!(ha.partial_cmp(&hb) == Some(c), "partial_cmp == Some(cmp)");
    assert!((c == Ordering::Equal) == (ha == hb), "cmp == Equal iff ==");
    assert!((ha < hb) == (c == Ordering::Less), "< agrees with cmp");
    kani::cover!(a[0] == b[0] && a[1] == b[1] && a[2] == b[2] && a[3] < b[3], "decided by word 3");
    kani::cover!(a[0] > b[0] && a[3] < b[3], "word 0 dominates word 3");
    kani::cover!(all_eq, "equal hashes");
}

#[kani::proof]
fn rem_uses_word_3() {
    let w: [u64; 4] = kani::any();
    let m: u64 = kani::any();
    kani::assume(m != 0);
    let h = DataHash::from(w);
    assert!(h % m == w[3] % m, "h % m == word 3 % m");
    kani::cover!(w[0] % m != w[3] % m && w[1] % m != w[3] % m && w[2] % m != w[3] % m, "the other words would give a different answer");
}

struct Recorder {
    u64_calls: u32,
    last_u64: u64,
    other_calls: u32,
}

impl Hasher for Recorder {
    fn finish(&self) -> u64 {
        self.last_u64
    }
    fn write(&mut self, _bytes: &[u8]) {
        self.other_calls += 1;
    }
    fn write_u64(&mut self, v: u64) {
        self.u64_calls += 1;
        self.last_u64 = v;
    }
}

#[kani::proof]
fn std_hash_feeds_word_0_only() {
    let w: [u64; 4] = kani::any();
    let h = DataHash::from(w);
    let mut rec = Recorder { u64_calls: 0, last_u64: 0, other_calls: 0 };
    h.hash(&mut rec);
    assert!(rec.u64_calls == 1, "Hash::hash calls write_u64 exactly once");
    assert!(rec.other_calls == 0, "Hash::hash makes no other Hasher call");
    assert!(rec.last_u64 == w[0], "the value hashed is word 0");
    kani::cover!(w[0] != w[3] && w[0] != w[1] && w[0] != w[2], "word 0 differs from the others");
}
