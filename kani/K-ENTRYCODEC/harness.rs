// K-ENTRYCODEC harnesses.  Pasted into `mod kani_harness` inside the generated `file_structs` module.

fn any_hash() -> MerkleHash {
    let w: [u64; 4] = kani::any();
    MerkleHash::from(w)
}

fn le32(b: &[u8], at: usize) -> u32 {
    u32::from_le_bytes([b[at], b[at + 1], b[at + 2], b[at + 3]])
}

fn le64(b: &[u8], at: usize) -> u64 {
    u64::from_le_bytes([b[at], b[at + 1], b[at + 2], b[at + 3], b[at + 4], b[at + 5], b[at + 6], b[at + 7]])
}

/// bytes 0..32 of the record are the hash's bytes (checked at one nondeterministic position)
fn hash_prefix_ok(out: &[u8], h: &MerkleHash) -> bool {
    let j: usize = kani::any();
    kani::assume(j < 32);
    out[j] == h.as_bytes()[j]
}

#[kani::proof]
fn cas_header_roundtrip() {
    let x = CASChunkSequenceHeader { cas_hash: any_hash(), cas_flags: kani::any(), num_entries: kani::any(), num_bytes_in_cas: kani::any(), num_bytes_on_disk: kani::any() };
    let mut out: Vec<u8> = Vec::new();
    let n = x.serialize(&mut out);
    assert!(matches!(n, Ok(48)), "serialize returns Ok(48)");
    assert!(out.len() == 48 && size_of::<CASChunkSequenceHeader>() == 48 && MDB_CAS_INFO_ENTRY_SIZE == 48, "record, struct and declared entry size are all 48 bytes");
    assert!(hash_prefix_ok(&out, &x.cas_hash), "bytes 0..32 are cas_hash");
    assert!(le32(&out, 32) == x.cas_flags && le32(&out, 36) == x.num_entries && le32(&out, 40) == x.num_bytes_in_cas && le32(&out, 44) == x.num_bytes_on_disk,
            "layout: cas_flags@32 num_entries@36 num_bytes_in_cas@40 num_bytes_on_disk@44, u32 little-endian");
    let mut rd = Cursor::new(&out[..]);
    match CASChunkSequenceHeader::deserialize(&mut rd) {
        Ok(y) => assert!(y == x, "deserialize(serialize(x)) == x"),
        Err(_) => assert!(false, "deserialize rejects serialize's output"),
    }
    assert!(rd.position() == 48, "deserialize consumes exactly 48 bytes");
    kani::cover!(x.cas_flags == 1 && x.num_entries == 2 && x.num_bytes_in_cas == 3 && x.num_bytes_on_disk == 4, "all u32 fields distinct");
}

#[kani::proof]
fn cas_entry_roundtrip() {
    let x = CASChunkSequenceEntry { chunk_hash: any_hash(), unpacked_segment_bytes: kani::any(), chunk_byte_range_start: kani::any(), _unused: kani::any() };
    let mut out: Vec<u8> = Vec::new();
    let n = x.serialize(&mut out);
    assert!(matches!(n, Ok(48)), "serialize returns Ok(48)");
    assert!(out.len() == 48 && size_of::<CASChunkSequenceEntry>() == 48, "record and struct are 48 bytes");
    assert!(hash_prefix_ok(&out, &x.chunk_hash), "bytes 0..32 are chunk_hash");
    assert!(le32(&out, 32) == x.chunk_byte_range_start && le32(&out, 36) == x.unpacked_segment_bytes && le64(&out, 40) == x._unused,
            "layout: chunk_byte_range_start@32 unpacked_segment_bytes@36 _unused@40");
    let mut rd = Cursor::new(&out[..]);
    match CASChunkSequenceEntry::deserialize(&mut rd) {
        Ok(y) => assert!(y == x, "deserialize(serialize(x)) == x"),
        Err(_) => assert!(false, "deserialize rejects serialize's output"),
    }
    kani::cover!(x.unpacked_segment_bytes == 7 && x.chunk_byte_range_start == 9 && x._unused == 11, "all fields distinct");
}

#[kani::proof]
fn file_header_roundtrip() {
    let x = FileDataSequenceHeader { file_hash: any_hash(), file_flags: kani::any(), num_entries: kani::any(), _unused: kani::any() };
    let mut out: Vec<u8> = Vec::new();
    let n = x.serialize(&mut out);
    assert!(matches!(n, Ok(48)), "serialize returns Ok(48)");
    assert!(out.len() == 48 && size_of::<FileDataSequenceHeader>() == 48 && MDB_FILE_INFO_ENTRY_SIZE == 48, "record, struct and declared entry size are all 48 bytes");
    assert!(hash_prefix_ok(&out, &x.file_hash), "bytes 0..32 are file_hash");
    assert!(le32(&out, 32) == x.file_flags && le32(&out, 36) == x.num_entries && le64(&out, 40) == x._unused, "layout: file_flags@32 num_entries@36 _unused@40");
    let mut rd = Cursor::new(&out[..]);
    match FileDataSequenceHeader::deserialize(&mut rd) {
        Ok(y) => {
            assert!(y == x, "deserialize(serialize(x)) == x");
            assert!(y.is_bookend() == x.is_bookend(), "bookend marker survives");
            assert!(y.contains_verification() == ((x.file_flags >> 31) & 1 == 1) && y.contains_metadata_ext() == ((x.file_flags >> 30) & 1 == 1), "flag bits 31 / 30 survive");
        },
        Err(_) => assert!(false, "deserialize rejects serialize's output"),
    }
    kani::cover!(x.is_bookend(), "bookend header");
    kani::cover!(x.file_flags == 0xC000_0000 && x.num_entries == 5, "both flags set");
}

#[kani::proof]
fn file_entry_roundtrip() {
    let x = FileDataSequenceEntry { cas_hash: any_hash(), cas_flags: kani::any(), unpacked_segment_bytes: kani::any(), chunk_index_start: kani::any(), chunk_index_end: kani::any() };
    let mut out: Vec<u8> = Vec::new();
    let n = x.serialize(&mut out);
    assert!(matches!(n, Ok(48)), "serialize returns Ok(48)");
    assert!(out.len() == 48 && size_of::<FileDataSequenceEntry>() == 48, "record and struct are 48 bytes");
    assert!(hash_prefix_ok(&out, &x.cas_hash), "bytes 0..32 are cas_hash");
    assert!(le32(&out, 32) == x.cas_flags && le32(&out, 36) == x.unpacked_segment_bytes && le32(&out, 40) == x.chunk_index_start && le32(&out, 44) == x.chunk_index_end,
            "layout: cas_flags@32 unpacked_segment_bytes@36 chunk_index_start@40 chunk_index_end@44");
    let mut rd = Cursor::new(&out[..]);
    match FileDataSequenceEntry::deserialize(&mut rd) {
        Ok(y) => assert!(y == x, "deserialize(serialize(x)) == x"),
        Err(_) => assert!(false, "deserialize rejects serialize's output"),
    }
    kani::cover!(x.cas_flags == 1 && x.unpacked_segment_bytes == 2 && x.chunk_index_start == 3 && x.chunk_index_end == 4, "all u32 fields distinct");
}

#[kani::proof]
fn verification_and_metadata_roundtrip() {
    let v = FileVerificationEntry { range_hash: any_hash(), _unused: kani::any() };
    let mut out: Vec<u8> = Vec::new();
    assert!(matches!(v.serialize(&mut out), Ok(48)) && out.len() == 48 && size_of::<FileVerificationEntry>() == 48, "FileVerificationEntry is 48 bytes");
    assert!(hash_prefix_ok(&out, &v.range_hash), "bytes 0..32 are range_hash");
    assert!(le64(&out, 32) == v._unused[0] && le64(&out, 40) == v._unused[1], "layout: _unused[0]@32 _unused[1]@40");
    match FileVerificationEntry::deserialize(&mut Cursor::new(&out[..])) {
        Ok(y) => {
            assert!(y.range_hash == v.range_hash, "range_hash round-trips");
            assert!(y._unused == [0, 0], "deserialize resets _unused (what the code does)");
            assert!((y == v) == (v._unused == [0, 0]), "deserialize(serialize(v)) == v exactly when v._unused == [0,0]");
        },
        Err(_) => assert!(false, "deserialize rejects serialize's output"),
    }
    let nv = FileVerificationEntry::new(v.range_hash);
    assert!(nv._unused == [0, 0], "new() leaves _unused zero, so every constructed value round-trips");

    let m = FileMetadataExt { sha256: any_hash(), _unused: kani::any() };
    let mut out2: Vec<u8> = Vec::new();
    assert!(matches!(m.serialize(&mut out2), Ok(48)) && out2.len() == 48 && size_of::<FileMetadataExt>() == 48, "FileMetadataExt is 48 bytes");
    assert!(hash_prefix_ok(&out2, &m.sha256), "bytes 0..32 are sha256");
    assert!(le64(&out2, 32) == m._unused[0] && le64(&out2, 40) == m._unused[1], "layout: _unused[0]@32 _unused[1]@40");
    match FileMetadataExt::deserialize(&mut Cursor::new(&out2[..])) {
        Ok(y) => {
            assert!(y.sha256 == m.sha256, "sha256 round-trips");
            assert!((y == m) == (m._unused == [0, 0]), "deserialize(serialize(m)) == m exactly when m._unused == [0,0]");
        },
        Err(_) => assert!(false, "deserialize rejects serialize's output"),
    }
    assert!(FileMetadataExt::new(m.sha256)._unused == [0, 0], "new() leaves _unused zero");
    kani::cover!(v._unused[0] != 0, "non-zero _unused word reached");
    kani::cover!(v._unused == [0, 0] && m._unused == [0, 0], "constructed-value case reached");
}

#[kani::proof]
fn deserialize_any_bytes_cas_records() {
    let b: [u8; 48] = kani::any();
    let j: usize = kani::any();
    kani::assume(j < 48);
    match CASChunkSequenceHeader::deserialize(&mut &b[..]) {
        Ok(x) => {
            let mut o: Vec<u8> = Vec::new();
            assert!(x.serialize(&mut o).is_ok() && o.len() == 48 && o[j] == b[j], "CASChunkSequenceHeader: serialize(deserialize(b)) == b");
        },
        Err(_) => assert!(false, "CASChunkSequenceHeader::deserialize fails on 48 bytes"),
    }
    match CASChunkSequenceEntry::deserialize(&mut &b[..]) {
        Ok(x) => {
            let mut o: Vec<u8> = Vec::new();
            assert!(x.serialize(&mut o).is_ok() && o.len() == 48 && o[j] == b[j], "CASChunkSequenceEntry: serialize(deserialize(b)) == b");
        },
        Err(_) => assert!(false, "CASChunkSequenceEntry::deserialize fails on 48 bytes"),
    }
    // short input: an error, not a panic
    let n: usize = kani::any();
    kani::assume(n < 48);
    assert!(CASChunkSequenceEntry::deserialize(&mut &b[..n]).is_err(), "CASChunkSequenceEntry::deserialize on < 48 bytes is Err");
    assert!(CASChunkSequenceHeader::deserialize(&mut &b[..n]).is_err(), "CASChunkSequenceHeader::deserialize on < 48 bytes is Err");
    kani::cover!(j == 47 && b[47] == 0xEE && n == 47, "last byte, one-short input");
}

#[kani::proof]
fn deserialize_any_bytes_file_records() {
    let b: [u8; 48] = kani::any();
    let j: usize = kani::any();
    kani::assume(j < 48);
    match FileDataSequenceHeader::deserialize(&mut &b[..]) {
        Ok(x) => {
            let mut o: Vec<u8> = Vec::new();
            assert!(x.serialize(&mut o).is_ok() && o.len() == 48 && o[j] == b[j], "FileDataSequenceHeader: serialize(deserialize(b)) == b");
        },
        Err(_) => assert!(false, "FileDataSequenceHeader::deserialize fails on 48 bytes"),
    }
    match FileDataSequenceEntry::deserialize(&mut &b[..]) {
        Ok(x) => {
            let mut o: Vec<u8> = Vec::new();
            assert!(x.serialize(&mut o).is_ok() && o.len() == 48 && o[j] == b[j], "FileDataSequenceEntry: serialize(deserialize(b)) == b");
        },
        Err(_) => assert!(false, "FileDataSequenceEntry::deserialize fails on 48 bytes"),
    }
    let n: usize = kani::any();
    kani::assume(n < 48);
    assert!(FileDataSequenceEntry::deserialize(&mut &b[..n]).is_err(), "FileDataSequenceEntry::deserialize on < 48 bytes is Err");
    assert!(FileVerificationEntry::deserialize(&mut &b[..n]).is_err(), "FileVerificationEntry::deserialize on < 48 bytes is Err");
    kani::cover!(j == 47 && b[47] == 0xEE && n == 0, "last byte, empty short input");
}
