#[kani::proof]
fn vacuous_cover() {
    let x: u8 = kani::any();
    kani::assume(x > 200 && x < 100);
    assert!(x == 0);
    kani::cover!(true, "unreachable by construction");
}

#[kani::proof]
fn unwind_too_small() {
    let mut s = 0u32;
    for i in 0..10u32 {
        s += i;
    }
    assert!(s == 45);
    kani::cover!(s == 45, "sum reached");
}

#[kani::proof]
fn plain_failure() {
    let x: u32 = kani::any();
    assert!(x != 77, "x is never 77");
    kani::cover!(x == 1, "reached");
}

#[kani::proof]
fn times_out() {
    let a: u64 = kani::any();
    let b: u64 = kani::any();
    kani::assume(b != 0);
    assert!(a % b == a - (a / b) * b, "division identity");
    kani::cover!(a == 7 && b == 3, "reached");
}
