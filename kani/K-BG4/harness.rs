// K-BG4 harnesses (BOUNDED: lengths are enumerated, byte values are symbolic).
// Pasted into `mod kani_harness` inside the generated `bg4` module.

/// offset of group k inside the "together" layout for total length n
fn group_off(n: usize, k: usize) -> usize {
    let split = n / 4;
    let rem = n % 4;
    let mut off = 0;
    if k > 0 { off += split + if rem > 0 { 1 } else { 0 }; }
    if k > 1 { off += split + if rem > 1 { 1 } else { 0 }; }
    if k > 2 { off += split + if rem > 2 { 1 } else { 0 }; }
    off
}

/// all byte strings of length N: split / regroup round trip, lengths, layout
fn roundtrip<const N: usize>() {
    let buf: [u8; N] = kani::any();
    let x = &buf[..];

    let s = bg4_split_together(x);
    assert!(s.len() == N, "|split(x)| == |x|");
    let s2 = bg4_split(x);
    assert!(s2.len() == N, "|bg4_split(x)| == |x|");

    let r = bg4_regroup_together(&s);
    assert!(r.len() == N, "|regroup(split(x))| == |x|");
    let r2 = bg4_regroup(&s2);
    assert!(r2.len() == N, "|bg4_regroup(bg4_split(x))| == |x|");

    if N > 0 {
        // one nondeterministic position stands for all positions
        let j: usize = kani::any();
        kani::assume(j < N);
        assert!(r[j] == x[j], "regroup(split(x))[j] == x[j]");
        assert!(r2[j] == x[j], "bg4_regroup(bg4_split(x))[j] == x[j]");
        assert!(s[group_off(N, j % 4) + j / 4] == x[j], "split layout: byte j of x is byte j/4 of group j%4");
        assert!(s2[j] == s[j], "bg4_split is bg4_split_together");
    }
}

/// all byte strings g of length N as *decoder input*
fn regroup_any<const N: usize>() {
    let buf: [u8; N] = kani::any();
    let g = &buf[..];
    let d = bg4_regroup_together(g);
    assert!(d.len() == N, "|regroup(g)| == |g|");
    let back = bg4_split_together(&d);
    assert!(back.len() == N, "|split(regroup(g))| == |g|");
    if N > 0 {
        let j: usize = kani::any();
        kani::assume(j < N);
        assert!(d[j] == g[group_off(N, j % 4) + j / 4], "regroup layout: output byte j is byte j/4 of group j%4");
        assert!(back[j] == g[j], "split(regroup(g))[j] == g[j]");
    }
}

fn variants<const N: usize>() {
    let buf: [u8; N] = kani::any();
    let x = &buf[..];
    let s = bg4_split_together(x);
    let a = bg4_regroup_together(&s);
    let b = bg4_regroup_together_combined_write_4(&s);
    let c = bg4_regroup_together_combined_write_8(&s);
    let sep = bg4_split_separate(x);
    let d = bg4_regroup_separate(&sep);
    assert!(b.len() == N && c.len() == N && d.len() == N, "variants return |x| bytes");
    assert!(sep[0].len() + sep[1].len() + sep[2].len() + sep[3].len() == N, "separate groups have |x| bytes in total");
    if N > 0 {
        let j: usize = kani::any();
        kani::assume(j < N);
        assert!(a[j] == b[j], "combined_write_4 agrees with regroup_together");
        assert!(a[j] == c[j], "combined_write_8 agrees with regroup_together");
        assert!(a[j] == d[j], "regroup_separate(split_separate(x)) agrees");
        assert!(sep[j % 4][j / 4] == x[j], "split_separate layout");
    }
}

#[kani::proof]
fn bg4_roundtrip_len_00_07() {
    roundtrip::<0>();
    roundtrip::<1>();
    roundtrip::<2>();
    roundtrip::<3>();
    roundtrip::<4>();
    roundtrip::<5>();
    roundtrip::<6>();
    roundtrip::<7>();
    kani::cover!(true, "end of harness reached after length 7");
}

#[kani::proof]
fn bg4_roundtrip_len_08_15() {
    roundtrip::<8>();
    roundtrip::<9>();
    roundtrip::<10>();
    roundtrip::<11>();
    roundtrip::<12>();
    roundtrip::<13>();
    roundtrip::<14>();
    roundtrip::<15>();
    kani::cover!(true, "end of harness reached after length 15");
}

#[kani::proof]
fn bg4_roundtrip_len_16_23() {
    roundtrip::<16>();
    roundtrip::<17>();
    roundtrip::<18>();
    roundtrip::<19>();
    roundtrip::<20>();
    roundtrip::<21>();
    roundtrip::<22>();
    roundtrip::<23>();
    kani::cover!(true, "end of harness reached after length 23");
}

#[kani::proof]
fn bg4_regroup_any_len_00_07() {
    regroup_any::<0>();
    regroup_any::<1>();
    regroup_any::<2>();
    regroup_any::<3>();
    regroup_any::<4>();
    regroup_any::<5>();
    regroup_any::<6>();
    regroup_any::<7>();
    kani::cover!(true, "end of harness reached after length 7");
}

#[kani::proof]
fn bg4_regroup_any_len_08_15() {
    regroup_any::<8>();
    regroup_any::<9>();
    regroup_any::<10>();
    regroup_any::<11>();
    regroup_any::<12>();
    regroup_any::<13>();
    regroup_any::<14>();
    regroup_any::<15>();
    kani::cover!(true, "end of harness reached after length 15");
}

#[kani::proof]
fn bg4_regroup_any_len_16_23() {
    regroup_any::<16>();
    regroup_any::<17>();
    regroup_any::<18>();
    regroup_any::<19>();
    regroup_any::<20>();
    regroup_any::<21>();
    regroup_any::<22>();
    regroup_any::<23>();
    kani::cover!(true, "end of harness reached after length 23");
}

// ---- thorough tier ----

#[kani::proof]
fn bg4_roundtrip_len_24_29() {
    roundtrip::<24>();
    roundtrip::<25>();
    roundtrip::<26>();
    roundtrip::<27>();
    roundtrip::<28>();
    roundtrip::<29>();
    kani::cover!(true, "end of harness reached after length 29");
}

#[kani::proof]
fn bg4_roundtrip_len_30_35() {
    roundtrip::<30>();
    roundtrip::<31>();
    roundtrip::<32>();
    roundtrip::<33>();
    roundtrip::<34>();
    roundtrip::<35>();
    kani::cover!(true, "end of harness reached after length 35");
}

#[kani::proof]
fn bg4_roundtrip_len_36_41() {
    roundtrip::<36>();
    roundtrip::<37>();
    roundtrip::<38>();
    roundtrip::<39>();
    roundtrip::<40>();
    roundtrip::<41>();
    kani::cover!(true, "end of harness reached after length 41");
}

#[kani::proof]
fn bg4_roundtrip_len_42_47() {
    roundtrip::<42>();
    roundtrip::<43>();
    roundtrip::<44>();
    roundtrip::<45>();
    roundtrip::<46>();
    roundtrip::<47>();
    kani::cover!(true, "end of harness reached after length 47");
}

#[kani::proof]
fn bg4_variants_agree_len_16_23() {
    variants::<16>();
    variants::<17>();
    variants::<18>();
    variants::<19>();
    variants::<20>();
    variants::<21>();
    variants::<22>();
    variants::<23>();
    kani::cover!(true, "end of harness reached after length 23");
}
