// K-BG4 harnesses (BOUNDED).  Pasted into `mod kani_harness` inside the generated `bg4` module.

/// offset of group k inside the "together" layout for total length n
fn group_off(n: usize, k: usize) -> usize {
    let split = n / 4;
    let rem = n % 4;
    let mut off = 0;
    if k > 0 { off += split + if rem > 0 { 1 } else { 0 }; }
    if k > 1 { off += split + if rem > 1 { 1 } else { 0 }; }
    if k > 2 { off += split + if rem > 2 { 1 } else { 0 }; }
    off
}

fn roundtrip<const N: usize>() {
    let buf: [u8; N] = kani::any();
    let n: usize = kani::any();
    kani::assume(n <= N);
    let x = &buf[..n];

    let s = bg4_split_together(x);
    assert!(s.len() == n, "|split(x)| == |x|");
    let same_entry = bg4_split(x);
    assert!(same_entry.len() == n, "|bg4_split(x)| == |x|");

    let r = bg4_regroup_together(&s);
    assert!(r.len() == n, "|regroup(split(x))| == |x|");
    let r2 = bg4_regroup(&s);
    assert!(r2.len() == n, "|bg4_regroup(split(x))| == |x|");

    // one nondeterministic position stands for all positions
    let j: usize = kani::any();
    kani::assume(j < n);
    assert!(r[j] == x[j], "regroup(split(x))[j] == x[j]");
    assert!(r2[j] == x[j], "bg4_regroup(bg4_split(x))[j] == x[j]");
    assert!(s[group_off(n, j % 4) + j / 4] == x[j], "split layout: byte j of x is byte j/4 of group j%4");
    assert!(same_entry[j] == s[j], "bg4_split is bg4_split_together");

    kani::cover!(n == N && j == N - 1, "longest input, last byte");
    kani::cover!(n % 4 == 1 && n > 4, "residue 1 with at least one full group");
    kani::cover!(n % 4 == 2 && n > 4, "residue 2");
    kani::cover!(n % 4 == 3 && n > 4, "residue 3");
    kani::cover!(n % 4 == 0 && n > 4, "residue 0");
    kani::cover!(n == 0, "empty input");
}

#[kani::proof]
fn bg4_roundtrip_le23() {
    roundtrip::<23>();
}

#[kani::proof]
fn bg4_roundtrip_le47() {
    roundtrip::<47>();
}

#[kani::proof]
fn bg4_regroup_any_input_le23() {
    const N: usize = 23;
    let buf: [u8; N] = kani::any();
    let n: usize = kani::any();
    kani::assume(n <= N);
    let g = &buf[..n];
    let d = bg4_regroup_together(g);
    assert!(d.len() == n, "|regroup(g)| == |g|");
    let back = bg4_split_together(&d);
    assert!(back.len() == n, "|split(regroup(g))| == |g|");
    let j: usize = kani::any();
    kani::assume(j < n);
    assert!(d[j] == g[group_off(n, j % 4) + j / 4], "regroup layout: output byte j comes from byte j/4 of group j%4");
    assert!(back[j] == g[j], "split(regroup(g))[j] == g[j]");
    kani::cover!(n == N && j == N - 1, "longest input, last byte");
    kani::cover!(n % 4 == 2 && n > 8, "residue 2, two full rounds");
    kani::cover!(n == 1, "single byte");
}

#[kani::proof]
fn bg4_variants_agree_le23() {
    const N: usize = 23;
    let buf: [u8; N] = kani::any();
    let n: usize = kani::any();
    kani::assume(n <= N);
    let x = &buf[..n];
    let s = bg4_split_together(x);
    let a = bg4_regroup_together(&s);
    let b = bg4_regroup_together_combined_write_4(&s);
    let c = bg4_regroup_together_combined_write_8(&s);
    assert!(b.len() == n && c.len() == n, "variants return |x| bytes");
    let j: usize = kani::any();
    kani::assume(j < n);
    assert!(a[j] == b[j], "combined_write_4 agrees with regroup_together");
    assert!(a[j] == c[j], "combined_write_8 agrees with regroup_together");
    assert!(a[j] == x[j], "and both equal x");
    kani::cover!(n == N, "longest input");
    kani::cover!(n / 4 % 2 == 1 && n > 8, "odd number of full groups (tail branch of the 8-byte variant)");
}
