// Stand-in for the `anyhow` crate: an opaque error value.  `anyhow!(fmt, args..)` evaluates its arguments by reference
// (as `format_args!` does) but DROPS the construction of the message string.
#[derive(Debug)]
pub struct Error;
macro_rules! anyhow {
    ($fmt:literal $(, $arg:expr)* $(,)?) => {{ $( let _ = &$arg; )* $crate::anyhow::Error }};
}
pub(crate) use anyhow;
