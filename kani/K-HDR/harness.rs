// K-HDR harnesses.  This text is pasted into `mod kani_harness` inside the generated `cas_chunk_format` module, so the
// private functions / fields of the extracted code are reachable exactly as written in the repository.

// Limits as documented (DESIGN.md section 4, K-HDR; cas_object/src/cas_chunk_format.rs:73,80; merkledb/src/constants.rs:5,11,14).
const DOC_MAX_UNCOMPRESSED: u32 = 128 * 1024; // MAXIMUM_CHUNK_SIZE
const DOC_MAX_COMPRESSED: u32 = 256 * 1024; // 2 * MAXIMUM_CHUNK_SIZE
const DOC_VERSION: u8 = 0;

#[kani::proof]
fn three_byte_roundtrip() {
    let n: u32 = kani::any();
    kani::assume(n < (1u32 << 24));
    let mut buf = [0xAAu8; 3];
    copy_three_byte_num(&mut buf, n);
    let le = n.to_le_bytes();
    assert!(buf[0] == le[0] && buf[1] == le[1] && buf[2] == le[2], "copy_three_byte_num writes the low three little-endian bytes");
    assert!(convert_three_byte_num(&buf) == n, "convert_three_byte_num(copy_three_byte_num(n)) == n");
    kani::cover!(n == (1u32 << 24) - 1, "largest 3-byte value reached");
    kani::cover!(n == 0x010203, "asymmetric value reached");
}

#[kani::proof]
fn three_byte_bound_covers_serializer() {
    assert!(2 * MAXIMUM_CHUNK_SIZE < (1usize << 24), "2*MAXIMUM_CHUNK_SIZE fits in three bytes");
    assert!(MAXIMUM_CHUNK_SIZE as u64 == DOC_MAX_UNCOMPRESSED as u64, "MAXIMUM_CHUNK_SIZE is the documented 128 KiB");
    let c: u32 = kani::any();
    let u: u32 = kani::any();
    kani::assume(c as usize <= 2 * MAXIMUM_CHUNK_SIZE);
    kani::assume(u as usize <= MAXIMUM_CHUNK_SIZE);
    // debug_assert!(num < 16_777_216) inside copy_three_byte_num is a checked obligation here
    let h = CASChunkHeader::new(CompressionScheme::LZ4, c, u);
    assert!(h.get_compressed_length() == c, "compressed length survives the 3-byte field");
    assert!(h.get_uncompressed_length() == u, "uncompressed length survives the 3-byte field");
    kani::cover!(c as usize == 2 * MAXIMUM_CHUNK_SIZE && u as usize == MAXIMUM_CHUNK_SIZE, "both lengths at their limit");
}

fn le3(a: u8, b: u8, c: u8) -> u32 {
    (a as u32) | ((b as u32) << 8) | ((c as u32) << 16)
}

#[kani::proof]
fn parse_chunk_header_total() {
    let b: [u8; 8] = kani::any();
    assert!(CAS_CHUNK_HEADER_LENGTH == 8, "header is 8 bytes");
    assert!(CURRENT_VERSION == DOC_VERSION, "current version is the documented 0");
    let comp = le3(b[1], b[2], b[3]);
    let uncomp = le3(b[5], b[6], b[7]);
    let valid = b[0] == DOC_VERSION && b[4] <= 2 && comp <= DOC_MAX_COMPRESSED && uncomp <= DOC_MAX_UNCOMPRESSED;
    match parse_chunk_header(b) {
        Ok(h) => {
            let version = h.version;
            assert!(version == DOC_VERSION, "Ok(h) ==> version == 0");
            assert!(h.compression_scheme <= 2, "Ok(h) ==> scheme byte in {0,1,2}");
            assert!(h.get_compression_scheme().is_ok(), "Ok(h) ==> scheme decodes");
            assert!(h.get_compressed_length() <= DOC_MAX_COMPRESSED, "Ok(h) ==> compressed length <= 256 KiB");
            assert!(h.get_compressed_length() as usize <= 2 * MAXIMUM_CHUNK_SIZE, "Ok(h) ==> compressed length <= 2*MAXIMUM_CHUNK_SIZE");
            assert!(h.get_uncompressed_length() <= DOC_MAX_UNCOMPRESSED, "Ok(h) ==> uncompressed length <= 128 KiB");
            assert!(h.get_uncompressed_length() as usize <= MAXIMUM_CHUNK_SIZE, "Ok(h) ==> uncompressed length <= MAXIMUM_CHUNK_SIZE");
            assert!(version == b[0] && h.compression_scheme == b[4], "Ok(h) ==> version / scheme are input bytes 0 / 4");
            assert!(h.get_compressed_length() == comp, "Ok(h) ==> compressed length is input bytes 1..4 little-endian");
            assert!(h.get_uncompressed_length() == uncomp, "Ok(h) ==> uncompressed length is input bytes 5..8 little-endian");
            assert!(valid, "Ok(h) ==> the input satisfies the documented validity predicate");
        },
        Err(e) => {
            assert!(!valid, "a header inside all documented limits is accepted");
            assert!(matches!(e, CasObjectError::FormatError(_)), "rejection is a FormatError");
        },
    }
    kani::cover!(valid, "some input is accepted");
    kani::cover!(!valid, "some input is rejected");
    kani::cover!(valid && comp == DOC_MAX_COMPRESSED && uncomp == DOC_MAX_UNCOMPRESSED && b[4] == 2, "accepted input at every limit");
    kani::cover!(b[0] == 0 && b[4] <= 2 && comp == DOC_MAX_COMPRESSED + 1, "input one past the compressed limit");
}

fn any_scheme() -> CompressionScheme {
    let v: u8 = kani::any();
    match CompressionScheme::try_from(v) {
        Ok(s) => s,
        Err(_) => {
            kani::assume(false);
            unreachable!()
        },
    }
}

#[kani::proof]
fn new_then_getters() {
    let s = any_scheme();
    let c: u32 = kani::any();
    let u: u32 = kani::any();
    kani::assume(c < (1u32 << 24) && u < (1u32 << 24));
    let h = CASChunkHeader::new(s, c, u);
    let version = h.version;
    assert!(version == DOC_VERSION, "new sets version 0");
    assert!(h.get_compressed_length() == c, "get_compressed_length returns what new was given");
    assert!(h.get_uncompressed_length() == u, "get_uncompressed_length returns what new was given");
    match h.get_compression_scheme() {
        Ok(s2) => assert!(s2 == s, "get_compression_scheme returns what new was given"),
        Err(_) => assert!(false, "get_compression_scheme fails on a header built by new"),
    }
    kani::cover!(s == CompressionScheme::ByteGrouping4LZ4 && c == 0xABCDEF && u == 0x123456, "distinct values in all fields");
    kani::cover!(s == CompressionScheme::None, "scheme None reached");
}

#[kani::proof]
fn write_then_parse() {
    let s = any_scheme();
    let c: u32 = kani::any();
    let u: u32 = kani::any();
    kani::assume(c as usize <= 2 * MAXIMUM_CHUNK_SIZE && u as usize <= MAXIMUM_CHUNK_SIZE);
    let h = CASChunkHeader::new(s, c, u);
    let mut out = [0u8; 8];
    {
        let mut w: &mut [u8] = &mut out[..];
        let r = write_chunk_header(&mut w, &h);
        assert!(r.is_ok(), "8 bytes are enough for a header");
        assert!(w.is_empty(), "write_chunk_header emits exactly 8 bytes");
    }
    assert!(size_of::<CASChunkHeader>() == 8, "size_of::<CASChunkHeader>() == 8");
    match parse_chunk_header(out) {
        Ok(h2) => assert!(h2 == h, "parse_chunk_header(write_chunk_header(h)) == h"),
        Err(_) => assert!(false, "a header built by new within the limits is rejected by parse_chunk_header"),
    }
    kani::cover!(s == CompressionScheme::LZ4 && c == 66051 && u == 131072, "the repository's own test vector");
}

#[kani::proof]
fn compression_scheme_try_from() {
    let v: u8 = kani::any();
    match CompressionScheme::try_from(v) {
        Ok(s) => {
            assert!(v <= 2, "only 0,1,2 decode");
            assert!(s as u8 == v, "decode then `as u8` is the identity");
        },
        Err(e) => {
            assert!(v > 2, "0,1,2 always decode");
            assert!(matches!(e, CasObjectError::FormatError(_)), "rejection is a FormatError");
        },
    }
    kani::cover!(v == 2, "largest valid scheme");
    kani::cover!(v == 3, "smallest invalid scheme");
    kani::cover!(v == 65, "ASCII capital letter is rejected");
}
