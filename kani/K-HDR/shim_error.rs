// Stand-in for cas_object/src/error.rs: the variants the extracted code constructs, without `thiserror` Display text
// and without the lz4 / Infallible variants (not constructed by the extracted code).
#[derive(Debug)]
pub enum CasObjectError {
    InvalidRange,
    InvalidArguments,
    FormatError(crate::anyhow::Error),
    HashMismatch,
    InternalIOError(std::io::Error),
    InternalError(crate::anyhow::Error),
}
pub type Result<T> = std::result::Result<T, CasObjectError>;
