// K-FILEFLAGS: flag-word facts of FileDataSequenceHeader on the REAL mdb_shard crate.
use mdb_shard::file_structs::{
    FileDataSequenceHeader, SupersetResult, MDB_DEFAULT_FILE_FLAG, MDB_FILE_FLAG_METADATA_EXT_MASK, MDB_FILE_FLAG_VERIFICATION_MASK,
    MDB_FILE_FLAG_WITH_METADATA_EXT, MDB_FILE_FLAG_WITH_VERIFICATION,
};
use merklehash::MerkleHash;

fn any_hash() -> MerkleHash {
    let w: [u64; 4] = kani::any();
    MerkleHash::from(w)
}

fn header_with_flags(f: u32, n: u32) -> FileDataSequenceHeader {
    FileDataSequenceHeader { file_hash: any_hash(), file_flags: f, num_entries: n, _unused: kani::any() }
}

#[kani::proof]
fn new_sets_exactly_the_flags() {
    let h = any_hash();
    let n: u32 = kani::any();
    let v: bool = kani::any();
    let m: bool = kani::any();
    let x = FileDataSequenceHeader::new(h, n, v, m);
    assert!(x.file_hash == h, "new stores the hash");
    assert!(x.num_entries == n, "new stores num_entries");
    assert!(x.contains_verification() == v, "new(.., v, m).contains_verification() == v");
    assert!(x.contains_metadata_ext() == m, "new(.., v, m).contains_metadata_ext() == m");
    let want = (if v { 1u32 << 31 } else { 0 }) | (if m { 1u32 << 30 } else { 0 });
    assert!(x.file_flags == want, "file_flags is exactly bit 31 for verification and bit 30 for metadata_ext");
    assert!(x._unused == 0, "_unused is 0 outside cfg(test)");
    assert!(!x.is_bookend() || h == MerkleHash::from([!0u64; 4]), "only the all-ones hash is a bookend");

    // usize instantiation, inside the domain where try_into() succeeds
    let k: usize = kani::any();
    kani::assume(k <= u32::MAX as usize);
    let y = FileDataSequenceHeader::new(h, k, v, m);
    assert!(y.num_entries as usize == k && y.file_flags == want, "new::<usize> agrees for k <= u32::MAX");

    kani::cover!(v && m && n == 7, "both flags");
    kani::cover!(!v && !m, "no flag");
    kani::cover!(k == u32::MAX as usize, "largest usize argument");
}

#[kani::proof]
fn flag_predicates_all_words() {
    assert!(MDB_DEFAULT_FILE_FLAG == 0, "default flag word is 0");
    assert!(MDB_FILE_FLAG_WITH_VERIFICATION == 1u32 << 31 && MDB_FILE_FLAG_VERIFICATION_MASK == 1u32 << 31, "verification flag and mask are bit 31");
    assert!(MDB_FILE_FLAG_WITH_METADATA_EXT == 1u32 << 30 && MDB_FILE_FLAG_METADATA_EXT_MASK == 1u32 << 30, "metadata_ext flag and mask are bit 30");
    let f: u32 = kani::any();
    let x = header_with_flags(f, kani::any());
    assert!(x.contains_verification() == ((f >> 31) & 1 == 1), "contains_verification is bit 31");
    assert!(x.contains_metadata_ext() == ((f >> 30) & 1 == 1), "contains_metadata_ext is bit 30");
    kani::cover!(f == 0x4000_0001, "metadata bit with an unrelated low bit");
    kani::cover!(f == 0xBFFF_FFFF, "everything but the metadata bit");
}

#[kani::proof]
fn num_info_entry_following_formula() {
    let f: u32 = kani::any();
    let n: u32 = kani::any();
    let ver = (f >> 31) & 1 == 1;
    let ext = (f >> 30) & 1 == 1;
    let exact: u64 = (n as u64) * (if ver { 2 } else { 1 }) + (if ext { 1 } else { 0 });
    // the domain on which the code's u32 arithmetic is defined
    kani::assume(exact <= u32::MAX as u64);
    let x = header_with_flags(f, n);
    assert!(x.num_info_entry_following() as u64 == exact, "num_info_entry_following == n * (2 if verification else 1) + (1 if metadata_ext else 0)");
    // every n <= (u32::MAX - 1) / 2 is inside the domain whatever the flags
    assert!((n as u64) > ((u32::MAX as u64 - 1) / 2) || (n as u64) * 2 + 1 <= u32::MAX as u64, "n <= 2147483647 never overflows");
    kani::cover!(ver && ext && n == (u32::MAX - 1) / 2, "largest n with both flags");
    kani::cover!(!ver && !ext && n == u32::MAX, "largest n without flags");
    kani::cover!(ver && !ext && n == 5, "verification only");
}

#[kani::proof]
fn compare_flag_superset_table() {
    let a: u32 = kani::any();
    let b: u32 = kani::any();
    let ha = header_with_flags(a, kani::any());
    let hb = header_with_flags(b, kani::any());
    let r = FileDataSequenceHeader::compare_flag_superset(&ha, &hb);
    let want = if a == b {
        SupersetResult::Equal
    } else if a & b == b {
        SupersetResult::SuperA
    } else if a & b == a {
        SupersetResult::SuperB
    } else {
        SupersetResult::Neither
    };
    assert!(r == want, "compare_flag_superset follows the subset table on all 32 bits");
    let rev = FileDataSequenceHeader::compare_flag_superset(&hb, &ha);
    let want_rev = match want {
        SupersetResult::SuperA => SupersetResult::SuperB,
        SupersetResult::SuperB => SupersetResult::SuperA,
        o => o,
    };
    assert!(rev == want_rev, "swapping the arguments swaps SuperA and SuperB");
    kani::cover!(a == 0xC000_0000 && b == 0x8000_0000, "both flags vs verification only: SuperA");
    kani::cover!(a == 0x8000_0000 && b == 0x4000_0000, "disjoint flags: Neither");
    kani::cover!(a == 1 && b == 3, "low bits decide too: SuperB");
}
