// Stand-in for chunk_cache/src/error.rs: same variants; `parse` / `general` DROP the message text (`value.to_string()` runs
// core::fmt, which does not terminate under CBMC).  The From impls mirror `impl_parse_error_from_error!`.
#[derive(Debug)]
pub enum ChunkCacheError {
    General(String),
    IO(std::io::Error),
    Parse(String),
    BadRange,
    CacheEmpty,
    Infallible,
    LockPoison,
    InvalidArguments,
}

impl ChunkCacheError {
    pub fn parse<T>(_value: T) -> ChunkCacheError {
        ChunkCacheError::Parse(String::new())
    }

    pub fn general<T>(_value: T) -> ChunkCacheError {
        ChunkCacheError::General(String::new())
    }
}

impl From<std::io::Error> for ChunkCacheError {
    fn from(value: std::io::Error) -> Self {
        ChunkCacheError::IO(value)
    }
}

macro_rules! impl_parse_error_from_error {
    ($error_type:ty) => {
        impl From<$error_type> for ChunkCacheError {
            fn from(value: $error_type) -> Self {
                ChunkCacheError::parse(value)
            }
        }
    };
}

impl_parse_error_from_error!(std::array::TryFromSliceError);
impl_parse_error_from_error!(base64::DecodeError);
impl_parse_error_from_error!(merklehash::DataHashBytesParseError);
impl_parse_error_from_error!(std::str::Utf8Error);
