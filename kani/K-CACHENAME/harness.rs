// K-CACHENAME harnesses.  Pasted into `mod kani_harness` inside the generated `disk` module (so the private
// `try_parse_key` / `key_dir` and the pub(crate) CacheItem are reachable as in chunk_cache).
// base64 is the REAL crate (0.22.1, URL_SAFE engine with padding), not a model.

/// Stand-in for `String::from_utf8` inside `base64::Engine::encode`: skips the UTF-8 validation loop (its symbolic execution
/// does not finish).  Justified inside the harnesses: every byte of every produced name is asserted to be ASCII.
fn from_utf8_no_validation(v: Vec<u8>) -> Result<String, std::string::FromUtf8Error> {
    Ok(unsafe { String::from_utf8_unchecked(v) })
}

/// Stand-in for `std::str::from_utf8` in `try_parse_key` (key harnesses only): accepts exactly the ASCII strings.  core's
/// validator is not executable here because the decoded Vec's length is symbolic for CBMC (240+ nested unwindings, no result
/// in 300 s).  Consequence: the key facts below are proved for ASCII prefixes; a non-ASCII prefix is treated as rejected.
fn from_utf8_ascii_model(v: &[u8]) -> Result<&str, std::str::Utf8Error> {
    let mut i = 0;
    while i < v.len() {
        if v[i] >= 128 {
            let mut bad = [0xffu8];
            return match std::str::from_utf8_mut(&mut bad) {
                Err(e) => Err(e),
                Ok(_) => unreachable!(),
            };
        }
        i += 1;
    }
    Ok(unsafe { std::str::from_utf8_unchecked(v) })
}

fn le32(b: &[u8], at: usize) -> u32 {
    u32::from_le_bytes([b[at], b[at + 1], b[at + 2], b[at + 3]])
}

fn le64(b: &[u8], at: usize) -> u64 {
    u64::from_le_bytes([b[at], b[at + 1], b[at + 2], b[at + 3], b[at + 4], b[at + 5], b[at + 6], b[at + 7]])
}

fn url_safe_char(c: u8) -> bool {
    (c >= b'A' && c <= b'Z') || (c >= b'a' && c <= b'z') || (c >= b'0' && c <= b'9') || c == b'-' || c == b'_' || c == b'='
}

#[kani::proof]
#[kani::stub(std::string::String::from_utf8, from_utf8_no_validation)]
fn file_name_then_parse() {
    let x = CacheItem { range: ChunkRange { start: kani::any(), end: kani::any() }, len: kani::any(), checksum: kani::any() };
    match x.file_name() {
        Ok(name) => {
            assert!(name.len() == 28, "file name is 28 characters (20 bytes, padded base64)");
            let j: usize = kani::any();
            kani::assume(j < 28);
            assert!(url_safe_char(name.as_bytes()[j]), "every character is in the URL-safe alphabet or '=' (ASCII, no '/' or '+')");
            assert!(name.as_bytes()[27] == b'=' && name.as_bytes()[26] != b'=', "exactly one padding character");
            match CacheItem::parse(name.as_bytes()) {
                Ok(y) => {
                    assert!(y == x, "parse(file_name(x)) == x");
                    assert!(x.range.start < x.range.end, "parse accepts only start < end");
                },
                Err(e) => {
                    assert!(x.range.start >= x.range.end, "parse rejects file_name's output although start < end");
                    assert!(matches!(e, ChunkCacheError::BadRange), "an empty / inverted range is rejected as BadRange");
                },
            }
        },
        Err(_) => assert!(false, "file_name fails"),
    }
    kani::cover!(x.range.start == 1 && x.range.end == 2 && x.len == 3 && x.checksum == 4, "distinct values in all fields");
    kani::cover!(x.range.start == x.range.end, "empty range");
}

#[kani::proof]
fn parse_any_28_bytes() {
    let s: [u8; 28] = kani::any();
    let decoded = BASE64_ENGINE.decode(&s[..]);
    match CacheItem::parse(&s[..]) {
        Ok(item) => match decoded {
            Ok(buf) => {
                assert!(buf.len() == 20, "Ok ==> the name decodes to exactly 20 bytes");
                assert!(item.range.start == le32(&buf, 0) && item.range.end == le32(&buf, 4), "layout: start = u32 LE @0, end = u32 LE @4");
                assert!(item.len == le64(&buf, 8) && item.checksum == le32(&buf, 16), "layout: len = u64 LE @8, checksum = u32 LE @16");
                assert!(item.range.start < item.range.end, "Ok ==> start < end");
            },
            Err(_) => assert!(false, "parse accepted a name that does not decode"),
        },
        Err(_) => {
            if let Ok(buf) = decoded {
                assert!(buf.len() != 20 || le32(&buf, 0) >= le32(&buf, 4), "a 20-byte name with start < end is accepted");
            }
        },
    }
    kani::cover!(CacheItem::parse(&s[..]).is_ok(), "some 28-character name is accepted");
    kani::cover!(s[27] == b'=' && s[26] == b'=' && BASE64_ENGINE.decode(&s[..]).is_ok(), "a 28-character name decoding to 19 bytes");
    kani::cover!(s[0] == b'/', "a character outside the URL-safe alphabet");
}

/// names that decode to exactly N bytes (N is enumerated by the callers)
fn parse_decoded_len<const N: usize>() {
    let b: [u8; N] = kani::any();
    let name = BASE64_ENGINE.encode(&b[..]);
    let r = CacheItem::parse(name.as_bytes());
    if N != 20 {
        assert!(matches!(r, Err(ChunkCacheError::Parse(_))), "decoded length != 20 ==> Err(Parse), no panic");
    } else {
        assert!(r.is_ok() == (le32(&b, 0) < le32(&b, 4)), "decoded length 20 ==> Ok iff start < end");
    }
}

#[kani::proof]
#[kani::stub(std::string::String::from_utf8, from_utf8_no_validation)]
fn parse_decoded_len_19() {
    parse_decoded_len::<19>();
    kani::cover!(true, "end reached");
}

#[kani::proof]
#[kani::stub(std::string::String::from_utf8, from_utf8_no_validation)]
fn parse_decoded_len_20() {
    parse_decoded_len::<20>();
    kani::cover!(true, "end reached");
}

#[kani::proof]
#[kani::stub(std::string::String::from_utf8, from_utf8_no_validation)]
fn parse_decoded_len_21() {
    parse_decoded_len::<21>();
    kani::cover!(true, "end reached");
}

#[kani::proof]
#[kani::stub(std::string::String::from_utf8, from_utf8_no_validation)]
fn parse_decoded_len_0_to_8() {
    parse_decoded_len::<0>();
    parse_decoded_len::<1>();
    parse_decoded_len::<2>();
    parse_decoded_len::<3>();
    parse_decoded_len::<4>();
    parse_decoded_len::<5>();
    parse_decoded_len::<6>();
    parse_decoded_len::<7>();
    parse_decoded_len::<8>();
    kani::cover!(true, "end reached");
}

#[kani::proof]
#[kani::stub(std::string::String::from_utf8, from_utf8_no_validation)]
fn parse_decoded_len_9_to_18() {
    parse_decoded_len::<9>();
    parse_decoded_len::<10>();
    parse_decoded_len::<11>();
    parse_decoded_len::<12>();
    parse_decoded_len::<13>();
    parse_decoded_len::<14>();
    parse_decoded_len::<15>();
    parse_decoded_len::<16>();
    parse_decoded_len::<17>();
    parse_decoded_len::<18>();
    kani::cover!(true, "end reached");
}

#[kani::proof]
#[kani::stub(std::string::String::from_utf8, from_utf8_no_validation)]
fn parse_decoded_len_22_23_24() {
    parse_decoded_len::<22>();
    parse_decoded_len::<23>();
    parse_decoded_len::<24>();
    kani::cover!(true, "end reached");
}

/// key with an ASCII prefix of exactly P bytes: key_dir then try_parse_key
fn key_roundtrip<const P: usize, const E: usize>() {
    assert!(E == (32 + P + 2) / 3 * 4, "E is the padded base64 length of 32 + P bytes");
    let w: [u64; 4] = kani::any();
    let hash = MerkleHash::from(w);
    let pb: [u8; P] = kani::any();
    let mut i = 0;
    while i < P {
        kani::assume(pb[i] < 128);
        i += 1;
    }
    let prefix = unsafe { String::from_utf8_unchecked(pb.to_vec()) };
    let key = Key { prefix, hash };
    let dir = key_dir(&key);
    // raw bytes of the path (no UTF-8 validation in the harness itself)
    let s = Some(dir.as_os_str().as_encoded_bytes());
    match s {
        Some(p) => {
            let enc_len = (32 + P + 2) / 3 * 4;
            assert!(p.len() == 2 + 1 + enc_len, "key_dir is <2 chars>/<padded base64 of hash ++ prefix>");
            assert!(p[2] == b'/' && p[0] == p[3] && p[1] == p[4], "the prefix directory is the first two characters of the encoded name");
            let j: usize = kani::any();
            kani::assume(j < enc_len);
            assert!(url_safe_char(p[3 + j]), "the encoded name contains only URL-safe characters and '=' (in particular no '/')");
            // hand the name to try_parse_key as a fixed-size array: a slice of the String has a symbolic length for CBMC
            let mut name = [0u8; E];
            name.copy_from_slice(&p[3..]);
            match try_parse_key(&name[..]) {
                Ok(k2) => {
                    assert!(k2.hash == key.hash, "try_parse_key(name part of key_dir(key)).hash == key.hash");
                    assert!(k2.prefix.len() == P, "prefix length survives");
                    if P > 0 {
                        let t: usize = kani::any();
                        kani::assume(t < P);
                        assert!(k2.prefix.as_bytes()[t] == key.prefix.as_bytes()[t], "try_parse_key(name part of key_dir(key)).prefix == key.prefix");
                    }
                },
                Err(_) => assert!(false, "try_parse_key rejects key_dir's output"),
            }
        },
        None => assert!(false, "unreachable"),
    }
}

#[kani::proof]
#[kani::stub(std::string::String::from_utf8, from_utf8_no_validation)]
#[kani::stub(std::str::from_utf8, from_utf8_ascii_model)]
fn key_dir_then_try_parse_key_prefix_7() {
    key_roundtrip::<7, 52>();
    kani::cover!(true, "end reached");
}

#[kani::proof]
#[kani::stub(std::string::String::from_utf8, from_utf8_no_validation)]
#[kani::stub(std::str::from_utf8, from_utf8_ascii_model)]
fn key_dir_then_try_parse_key_prefix_0_to_4() {
    key_roundtrip::<0, 44>();
    key_roundtrip::<1, 44>();
    key_roundtrip::<2, 48>();
    key_roundtrip::<3, 48>();
    key_roundtrip::<4, 48>();
    kani::cover!(true, "end reached");
}

/// directory names that decode to exactly N bytes
fn try_parse_key_decoded_len<const N: usize>() {
    let b: [u8; N] = kani::any();
    let name = BASE64_ENGINE.encode(&b[..]);
    let r = try_parse_key(name.as_bytes());
    if N < 32 {
        assert!(matches!(r, Err(ChunkCacheError::Parse(_))), "fewer than 32 decoded bytes ==> Err(Parse), no panic (fix 26fcecb)");
    } else {
        match r {
            Ok(k) => {
                let j: usize = kani::any();
                kani::assume(j < 32);
                assert!(k.hash.as_bytes()[j] == b[j], "hash = decoded bytes 0..32");
                assert!(k.prefix.len() == N - 32, "prefix = the remaining decoded bytes");
                if N > 32 {
                    let t: usize = kani::any();
                    kani::assume(t < N - 32);
                    assert!(k.prefix.as_bytes()[t] == b[32 + t], "prefix bytes are decoded bytes 32..");
                }
            },
            Err(e) => {
                assert!(N > 32, "a name decoding to exactly 32 bytes is accepted");
                assert!(matches!(e, ChunkCacheError::Parse(_)), "non-UTF-8 prefix bytes ==> Err(Parse)");
                let mut hi = false;
                let mut t = 32;
                while t < N {
                    if b[t] >= 128 {
                        hi = true;
                    }
                    t += 1;
                }
                assert!(hi, "an all-ASCII prefix is accepted");
            },
        }
    }
}

#[kani::proof]
#[kani::stub(std::string::String::from_utf8, from_utf8_no_validation)]
#[kani::stub(std::str::from_utf8, from_utf8_ascii_model)]
fn try_parse_key_decoded_len_31_32() {
    try_parse_key_decoded_len::<31>();
    try_parse_key_decoded_len::<32>();
    kani::cover!(true, "end reached");
}

#[kani::proof]
#[kani::stub(std::string::String::from_utf8, from_utf8_no_validation)]
#[kani::stub(std::str::from_utf8, from_utf8_ascii_model)]
fn try_parse_key_decoded_len_33() {
    try_parse_key_decoded_len::<33>();
    kani::cover!(true, "end reached");
}

#[kani::proof]
#[kani::stub(std::string::String::from_utf8, from_utf8_no_validation)]
#[kani::stub(std::str::from_utf8, from_utf8_ascii_model)]
fn try_parse_key_decoded_len_0_and_40() {
    try_parse_key_decoded_len::<0>();
    try_parse_key_decoded_len::<40>();
    kani::cover!(true, "end reached");
}
