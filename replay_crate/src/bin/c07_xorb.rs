//! Witness search for C07 / C06 / C08: the REAL cas_object chunk codec, xorb serializer and both xorb validators against an
//! independent reference (own chunk-section walker with own LZ4-frame / byte-grouping decoder, own level-wise merkle root built from
//! the published construction), on chunk lists mixing compressible (repetitive, float-like), incompressible and tiny chunks -
//! including chunks whose LZ4 / BG4-LZ4 frame is EXACTLY as long as the chunk (found by a deterministic search) - under the schemes
//! None / LZ4 / ByteGrouping4LZ4 / automatic selection.
//!   (a) serialize_chunk, then the sync, async, stream and single-chunk decoders: same bytes, same boundaries, same reported lengths;
//!   (b) CasObject::serialize: footer fields, get_all_bytes, every chunk range through the range readers, lengths / offsets;
//!   (c) both validators accept the xorb for its own hash (= cas_node_hash = the independent root) and, for every mutation
//!       (other hash, altered payload chunk, swapped chunks under a coherently rewritten footer that keeps cashash, boundaries-section
//!       version 0 with garbage unpacked offsets, byte flips over headers and footer, truncations, random strings), never panic and
//!       accept only if the decoded chunks really hash to the requested hash and the returned footer matches the chunk data.
//!   (d) C06 on synthetic (hash, length) lists: cas_node_hash / file_node_hash == the independent construction for lengths up to
//!       2^62 (in particular 11 and more decimal digits) at every position of lists of 1..9 entries and for long lists whose
//!       interior nodes cover more than 10^10 bytes; lists differing only by 10^10 in one length hash differently;
//!   (e) decoding is a pure function of the bytes: BG4-LZ4 chunks whose data block is intact but whose LZ4 end mark is damaged are
//!       given to every decoder and validator, and after each of these - and after every validator run on a mutated object - a
//!       known-good BG4-LZ4 chunk must decode to its exact bytes on the same thread (sync / async single-chunk decoder, range reader).
//!   (f) every `*_to_writer` entry point (sync / async single chunk, sync / async / stream multi-chunk) with a writer that fails or
//!       answers Ok(0) at its first / a middle / its last write call: Err, never Ok, never a panic; with a good writer the returned
//!       (stored bytes consumed, boundaries) are right;
//!   (g) `parse_chunk_header` / sync + async `deserialize_chunk_header` on version x scheme byte 0..=255 x stored / unpacked lengths at
//!       and around the limits: accepted exactly within the format limits; hand-made LZ4 frames of one-byte stored blocks whose stored
//!       form is longer than the chunk (within / beyond 2 x maximum chunk size), unpacked length maximum / maximum + 1;
//!   (h) invalid chunk ranges (start == end, start > end, end > n, u32::MAX) through every range accessor: Err, no panic;
//!   (i) `generate_chunk_range_hash` / `range_hash_from_chunks` == blake3 keyed with the published verification key over the
//!       concatenated chunk hashes, for every range checked in (b);
//!   (k) `serialize_given_info` footers with offsets at the u32 boundaries (byte layout == own layout writer, accessors do not
//!       overflow), incomplete info structs (every accessor answers Err);
//!   (l) the same chunk section under a V0 footer through both validators (seekable: footer without unpacked offsets; streaming:
//!       builds a new footer, go_back_bytes = 8), with footers contradicting the chunk data; bytes after the xorb, a second
//!       footer, bytes between chunk section and footer;
//!   (m) C06 text forms: hex / base64 / Display / serde forms against own encoders, round trips, refusal of every malformed
//!       string class (an accepted string must re-encode to itself), `from_slice`, `hmac`, the two keyed hash functions against
//!       blake3 with the published keys;
//!   (n) every public byte-grouping split / regroup variant against the definition (lengths 0..=70 and larger), the slice / reader
//!       API of every scheme;
//!   (p) `LocalClient::put` / `get` / `exists`: the stored file decodes by the format rules, both validators accept it.
//! Prints `WITNESS ...` and exits 1 on the first violation.
use std::io::{Cursor, Read};
use std::panic::{catch_unwind, AssertUnwindSafe};

use cas_object::deserialize_async::{deserialize_chunk as deserialize_chunk_async, deserialize_chunks_from_async_read, deserialize_chunks_from_stream};
use cas_object::{deserialize_chunk, deserialize_chunks, serialize_chunk, validate_cas_object_from_async_read, CasObject, CompressionScheme};
use merklehash::{compute_data_hash, compute_internal_node_hash, MerkleHash};
use rand::rngs::StdRng;
use rand::{Rng, SeedableRng};

type Scheme = Option<CompressionScheme>;
const SCHEMES: [(&str, Scheme); 4] =
    [("None", Some(CompressionScheme::None)), ("LZ4", Some(CompressionScheme::LZ4)), ("ByteGrouping4LZ4", Some(CompressionScheme::ByteGrouping4LZ4)), ("auto", None)];

fn witness(msg: String) -> ! {
    println!("WITNESS {msg}");
    std::process::exit(1);
}

fn guarded<T>(what: &str, f: impl FnOnce() -> T) -> T {
    match catch_unwind(AssertUnwindSafe(f)) {
        Ok(v) => v,
        Err(e) => {
            let msg = e.downcast_ref::<String>().cloned().or_else(|| e.downcast_ref::<&str>().map(|s| s.to_string())).unwrap_or_default();
            witness(format!("{what}: the code under test panicked: {msg}"))
        },
    }
}

// ---------------------------------------------------------------------------------------------------------------------------------
// independent reference
// ---------------------------------------------------------------------------------------------------------------------------------

fn lz4_frame_decode(p: &[u8]) -> Option<Vec<u8>> {
    let mut out = vec![];
    lz4_flex::frame::FrameDecoder::new(p).read_to_end(&mut out).ok()?;
    Some(out)
}

/// inverse of "byte k of every 4-byte group goes to plane k, planes concatenated, leftover bytes go to planes 0,1,2"
fn bg4_regroup(g: &[u8]) -> Vec<u8> {
    let n = g.len();
    let (split, rem) = (n / 4, n % 4);
    let sizes = [split + (rem >= 1) as usize, split + (rem >= 2) as usize, split + (rem >= 3) as usize, split];
    let starts = [0, sizes[0], sizes[0] + sizes[1], sizes[0] + sizes[1] + sizes[2]];
    (0..n).map(|i| g[starts[i % 4] + i / 4]).collect()
}

fn decode_payload(scheme: u8, p: &[u8]) -> Option<Vec<u8>> {
    match scheme {
        0 => Some(p.to_vec()),
        1 => lz4_frame_decode(p),
        2 => lz4_frame_decode(p).map(|g| bg4_regroup(&g)),
        _ => None,
    }
}

struct Walk {
    chunks: Vec<Vec<u8>>,
    schemes: Vec<u8>,
    boundaries: Vec<u32>, // end offset of every stored chunk (header included)
    footer_at: Option<usize>,
}

/// Walks a chunk section: 8-byte headers (version, 3-byte LE stored length, scheme, 3-byte LE unpacked length) each followed by the
/// stored payload, up to the end of input or an 8-byte group that starts with the footer ident.
fn walk(b: &[u8]) -> Result<Walk, String> {
    let mut w = Walk { chunks: vec![], schemes: vec![], boundaries: vec![], footer_at: None };
    let mut pos = 0;
    while pos < b.len() {
        if b.len() - pos < 8 {
            return Err(format!("{} stray bytes at offset {pos}", b.len() - pos));
        }
        let h = &b[pos..pos + 8];
        if &h[..7] == b"XETBLOB" {
            w.footer_at = Some(pos);
            break;
        }
        let clen = h[1] as usize | (h[2] as usize) << 8 | (h[3] as usize) << 16;
        let ulen = h[5] as usize | (h[6] as usize) << 8 | (h[7] as usize) << 16;
        if h[0] != 0 || h[4] > 2 || pos + 8 + clen > b.len() {
            return Err(format!("bad chunk header at offset {pos}"));
        }
        let Some(d) = decode_payload(h[4], &b[pos + 8..pos + 8 + clen]) else {
            return Err(format!("chunk #{} at offset {pos}: header says scheme byte {}, stored length {clen}, unpacked length {ulen}, but the {clen} payload bytes do not decode under that scheme", w.chunks.len(), h[4]));
        };
        if d.len() != ulen {
            return Err(format!("chunk at offset {pos} decodes to {} bytes, header says {ulen}", d.len()));
        }
        pos += 8 + clen;
        w.chunks.push(d);
        w.schemes.push(h[4]);
        w.boundaries.push(pos as u32);
    }
    Ok(w)
}

/// The published aggregate-hash construction: level by level, cut a group after child i when it is the last child, or the group
/// already has >= 2 earlier children and word 3 of child i's hash is 0 mod 4, or it has 8 earlier children; a group's hash is the
/// keyed interior hash of the lines "<hex hash> : <len>\n", its length the sum.  A single entry is its own root; empty -> zero hash.
fn reference_root(list: &[(MerkleHash, usize)]) -> MerkleHash {
    if list.is_empty() {
        return MerkleHash::default();
    }
    let mut level: Vec<(MerkleHash, usize)> = list.to_vec();
    while level.len() > 1 {
        let mut next = vec![];
        let mut start = 0;
        for i in 0..level.len() {
            let earlier = i - start;
            if (earlier >= 2 && level[i].0[3] % 4 == 0) || earlier >= 8 || i + 1 == level.len() {
                let mut text = String::new();
                let mut total = 0;
                for (h, n) in &level[start..=i] {
                    // 64 hex digits = the four 64-bit words, each as 16 lower-case hex digits; the length in plain decimal
                    text.push_str(&format!("{:016x}{:016x}{:016x}{:016x} : {}\n", h[0], h[1], h[2], h[3], n));
                    total += n;
                }
                next.push((compute_internal_node_hash(text.as_bytes()), total));
                start = i + 1;
            }
        }
        level = next;
    }
    level[0].0
}

/// C06 on SYNTHETIC (hash, length) lists (no data needed): cas_node_hash and file_node_hash against the independent construction
/// for extreme lengths - in particular lengths of 11 and more decimal digits - at every position of lists of 1..9 entries, and
/// for long lists whose interior nodes cover more than 10^10 bytes; lists differing by 10^10 in one length must hash differently.
fn check_synthetic_lengths() {
    use merkledb::aggregate_hashes::{cas_node_hash, file_node_hash};
    let lens: [usize; 11] = [0, 1, 9, 10, 1_000_000_000, 9_999_999_999, 10_000_000_000, 10_000_000_001, 13_107_200_000, 1 << 40, usize::MAX / 4];
    let salt = [0x5au8; 32];
    let salted = |root: &MerkleHash| MerkleHash::from(*blake3::keyed_hash(&salt, root.as_bytes()).as_bytes());
    let show = |l: &[(MerkleHash, usize)]| format!("{:?}", l.iter().map(|x| x.1).collect::<Vec<_>>());
    let check = |what: &str, list: &[(MerkleHash, usize)]| -> MerkleHash {
        let want = reference_root(list);
        let got = guarded(what, || cas_node_hash(list));
        if got != want {
            witness(format!("{what}: cas_node_hash over synthetic entries with lengths {} gives {} but the published construction (lines \"<64 hex digits> : <decimal length>\") gives {}", show(list), got.hex(), want.hex()));
        }
        match guarded(what, || file_node_hash(list, &salt)) {
            Ok(f) if f == salted(&want) => {},
            other => witness(format!("{what}: file_node_hash over synthetic entries with lengths {} gives {:?} but the published construction gives {}", show(list), other.map(|h| h.hex()), salted(&want).hex())),
        }
        got
    };
    for variant in 0..3u64 {
        for n in 1..=9usize {
            let base: Vec<(MerkleHash, usize)> = (0..n).map(|k| (compute_data_hash(format!("synthetic entry {variant}/{n}/{k}").as_bytes()), 1000 * (k + 1) + variant as usize)).collect();
            for pos in 0..n {
                let mut roots: Vec<(usize, MerkleHash)> = vec![];
                for &len in &lens {
                    let mut list = base.clone();
                    list[pos].1 = len;
                    let r = check(&format!("list of {n} entries (hash pattern {variant}), entry {pos} of length {len}"), &list);
                    roots.push((len, r));
                }
                if n >= 2 {
                    for (i, a) in roots.iter().enumerate() {
                        if let Some(b) = roots[i + 1..].iter().find(|b| b.1 == a.1) {
                            witness(format!("two lists of {n} entries (hash pattern {variant}) that differ only in the length of entry {pos} ({} vs {}) get the SAME aggregate hash {}", a.0, b.0, a.1.hex()));
                        }
                    }
                }
            }
        }
    }
    // interior nodes covering >= 10^10 bytes although every entry is small
    for (n, each) in [(40usize, 1_000_000_000usize), (40, 3_000_000_001), (200, 64 << 20), (1000, 123_456_789)] {
        let list: Vec<(MerkleHash, usize)> = (0..n).map(|k| (compute_data_hash(format!("long list {n}/{each}/{k}").as_bytes()), each + k)).collect();
        check(&format!("list of {n} entries of about {each} bytes each"), &list);
    }
}

struct Truth {
    list: Vec<(MerkleHash, usize)>,
    unpacked: Vec<u32>,
    root: MerkleHash,
}
fn truth_of(chunks: &[Vec<u8>]) -> Truth {
    let list: Vec<_> = chunks.iter().map(|c| (compute_data_hash(c), c.len())).collect();
    let mut acc = 0u32;
    let unpacked = chunks.iter().map(|c| { acc += c.len() as u32; acc }).collect();
    let root = reference_root(&list);
    Truth { list, unpacked, root }
}

// ---------------------------------------------------------------------------------------------------------------------------------
// inputs
// ---------------------------------------------------------------------------------------------------------------------------------

fn random(rng: &mut StdRng, n: usize) -> Vec<u8> {
    let mut v = vec![0u8; n];
    rng.fill(&mut v[..]);
    v
}
/// little-endian f32 samples of a smooth noisy curve, cut to n bytes (any residue mod 4)
fn floats(rng: &mut StdRng, n: usize) -> Vec<u8> {
    let mut v = Vec::with_capacity(n + 4);
    let mut i = 0u32;
    while v.len() < n {
        let x = 1000.0 + (i as f32 * 0.001).sin() * 3.0 + rng.random_range(0.0..0.01f32);
        v.extend_from_slice(&x.to_le_bytes());
        i += 1;
    }
    v.truncate(n);
    v
}
fn text(n: usize) -> Vec<u8> {
    b"the quick brown fox jumps over the lazy dog; ".iter().cycle().take(n).copied().collect()
}

/// Deterministic search for a chunk whose compressed frame under `pick(chunk)` has exactly the chunk's length: an incompressible
/// prefix followed by a zero run that is grown byte by byte (the saving grows by about one byte per step and crosses the frame overhead).
fn equal_length_chunk(rng: &mut StdRng, pick: impl Fn(&[u8]) -> CompressionScheme) -> Option<Vec<u8>> {
    for n in [3000usize, 1000, 5003, 257] {
        let mut c = random(rng, n);
        for _ in 0..700 {
            let s = pick(&c);
            if s.compress_from_slice(&c).map(|z| z.len()).ok() == Some(c.len()) {
                return Some(c);
            }
            c.push(0);
        }
    }
    None
}

// ---------------------------------------------------------------------------------------------------------------------------------
// (a) chunk codec
// ---------------------------------------------------------------------------------------------------------------------------------

fn describe(chunks: &[Vec<u8>]) -> String {
    let lens: Vec<usize> = chunks.iter().map(|c| c.len()).collect();
    if lens.len() <= 20 { format!("{} chunks of lengths {:?}", lens.len(), lens) } else { format!("{} chunks of lengths {:?}...", lens.len(), &lens[..20]) }
}

fn check_codec(rt: &tokio::runtime::Runtime, list_name: &str, chunks: &[Vec<u8>], sname: &str, scheme: Scheme) -> Vec<u8> {
    let ctx = format!("chunk list '{list_name}' ({}) serialized with scheme {sname}", describe(chunks));
    let mut buf: Vec<u8> = vec![];
    let mut stored = vec![];
    for (i, c) in chunks.iter().enumerate() {
        let before = buf.len();
        let n = guarded(&ctx, || serialize_chunk(c, &mut buf, scheme));
        let n = n.unwrap_or_else(|e| witness(format!("{ctx}: serialize_chunk failed on chunk {i}: {e}")));
        if buf.len() - before != n {
            witness(format!("{ctx}: serialize_chunk reports {n} bytes for chunk {i} but wrote {}", buf.len() - before));
        }
        stored.push(n);
    }
    // the stored form, read with the independent walker
    let w = walk(&buf).unwrap_or_else(|e| witness(format!("{ctx}: the serialized chunk section is not decodable by the format rules: {e}")));
    if w.chunks.len() != chunks.len() || w.chunks.iter().zip(chunks).any(|(a, b)| a != b) {
        let i = w.chunks.iter().zip(chunks).position(|(a, b)| a != b).unwrap_or(w.chunks.len().min(chunks.len()));
        witness(format!("{ctx}: decoding the stored bytes by the format rules gives {} chunks, first difference from the input at chunk {i}", w.chunks.len()));
    }
    if let Some(CompressionScheme::None) = scheme {
        if w.schemes.iter().any(|s| *s != 0) {
            witness(format!("{ctx}: a chunk is stored under scheme byte != 0 although scheme None was requested"));
        }
    }
    let want_data: Vec<u8> = chunks.concat();
    let mut want_idx = vec![0u32];
    for c in chunks {
        want_idx.push(want_idx.last().unwrap() + c.len() as u32);
    }
    let cmp = |which: &str, got: Result<(Vec<u8>, Vec<u32>), String>| {
        match got {
            Err(e) => witness(format!("{ctx}: {which} fails: {e}")),
            Ok((d, idx)) => {
                if idx != want_idx {
                    let i = idx.iter().zip(&want_idx).position(|(a, b)| a != b).unwrap_or(idx.len().min(want_idx.len()));
                    witness(format!(
                        "{ctx}: {which} returns chunk boundaries that differ from the input at entry {i}: got {:?}, input {:?} ({} vs {} entries; chunk {} is stored under scheme byte {} in {} bytes)",
                        idx.get(i), want_idx.get(i), idx.len(), want_idx.len(), i.saturating_sub(1), w.schemes.get(i.saturating_sub(1)).copied().unwrap_or(9), stored.get(i.saturating_sub(1)).copied().unwrap_or(0)
                    ));
                }
                if d != want_data {
                    let i = d.iter().zip(&want_data).position(|(a, b)| a != b).unwrap_or(d.len().min(want_data.len()));
                    witness(format!("{ctx}: {which} returns {} bytes, input has {}; first differing byte at offset {i}", d.len(), want_data.len()));
                }
            },
        }
    };
    cmp("sync deserialize_chunks", guarded(&ctx, || deserialize_chunks(&mut Cursor::new(&buf[..])).map_err(|e| e.to_string())));
    cmp("async deserialize_chunks_from_async_read", guarded(&ctx, || {
        rt.block_on(async { let mut r: &[u8] = &buf; deserialize_chunks_from_async_read(&mut r).await.map_err(|e| e.to_string()) })
    }));
    for piece in [1usize, 7, 4096, usize::MAX] {
        if piece == 1 && buf.len() > 200_000 {
            continue;
        }
        let pieces: Vec<Result<bytes::Bytes, std::io::Error>> = buf.chunks(piece.min(buf.len().max(1))).map(|p| Ok(bytes::Bytes::copy_from_slice(p))).collect();
        cmp(
            &format!("stream deserialize_chunks_from_stream (stream items of {piece} bytes)"),
            guarded(&ctx, || rt.block_on(async { deserialize_chunks_from_stream(futures::stream::iter(pieces)).await.map_err(|e| e.to_string()) })),
        );
    }
    // truncated chunk sections: a decoder returns an error, or - when the cut falls exactly on a chunk boundary - the chunks before
    // the cut; never data that its own boundaries do not cover
    if buf.len() < 400_000 {
        let mut cuts: Vec<usize> = w.boundaries.iter().flat_map(|b| { let b = *b as usize; [b.saturating_sub(1), b, b + 1, b + 4, b + 9] }).filter(|c| *c < buf.len()).collect();
        cuts.extend([1usize, 7, 8, 9, buf.len() / 2, buf.len() - 1]);
        cuts.sort(); cuts.dedup();
        for cut in cuts.into_iter().filter(|c| *c < buf.len()).take(60) {
            let t = &buf[..cut];
            let s_ = guarded(&ctx, || deserialize_chunks(&mut Cursor::new(t)).map_err(|e| e.to_string()));
            let a_ = guarded(&ctx, || rt.block_on(async { let mut r: &[u8] = t; deserialize_chunks_from_async_read(&mut r).await.map_err(|e| e.to_string()) }));
            for (which, r) in [("sync deserialize_chunks", &s_), ("async deserialize_chunks_from_async_read", &a_)] {
                if let Ok((d, idx)) = r {
                    let covered = idx.last().copied().unwrap_or(0) as usize;
                    let k = idx.len().saturating_sub(1);
                    if d.len() != covered || k > chunks.len() || idx[..] != want_idx[..k + 1] || d[..] != want_data[..covered.min(want_data.len())] {
                        witness(format!("{ctx}, chunk section truncated to {cut} of {} bytes: {which} returns Ok with {} bytes but its chunk boundaries {:?} cover {covered} bytes (the input's boundaries are {:?})", buf.len(), d.len(), &idx[idx.len().saturating_sub(3)..], &want_idx[..want_idx.len().min(4)]));
                    }
                }
            }
            // (whether a cut INSIDE a chunk is an error or the clean end of the list differs between the sync and the async decoder on
            // the unchanged tree - the async one treats every UnexpectedEof as the end; that is outside C07, which speaks about
            // serialized chunk lists, so only each decoder's own consistency is required here)
        }
    }
    // single-chunk decoders, chunk after chunk
    let mut sync_r = Cursor::new(&buf[..]);
    let mut async_r: &[u8] = &buf;
    for (i, c) in chunks.iter().enumerate() {
        let s = guarded(&ctx, || deserialize_chunk(&mut sync_r).map_err(|e| e.to_string()));
        let a = guarded(&ctx, || rt.block_on(deserialize_chunk_async(&mut async_r)).map_err(|e| e.to_string()));
        for (which, r) in [("sync deserialize_chunk", s), ("async deserialize_chunk", a)] {
            match r {
                Err(e) => witness(format!("{ctx}: {which} fails on chunk {i}: {e}")),
                Ok((d, clen, ulen)) => {
                    if &d != c || ulen as usize != c.len() || clen != stored[i] {
                        witness(format!(
                            "{ctx}: {which} on chunk {i} (stored under scheme byte {} in {} bytes incl. header) returns {} bytes {}, reported (stored, unpacked) lengths ({clen}, {ulen}); the input chunk has {} bytes",
                            w.schemes[i], stored[i], d.len(), if &d == c { "equal to the input" } else { "DIFFERENT from the input" }, c.len()
                        ));
                    }
                },
            }
        }
    }
    if chunks.len() <= 20 && buf.len() < 400_000 {
        check_writer_variants(rt, &ctx, chunks, &buf, &stored);
    }
    buf
}

// ---------------------------------------------------------------------------------------------------------------------------------
// (b) full xorb
// ---------------------------------------------------------------------------------------------------------------------------------

fn build_xorb(ctx: &str, chunks: &[Vec<u8>], t: &Truth, cashash: &MerkleHash, scheme: Scheme) -> (CasObject, Vec<u8>) {
    let data = chunks.concat();
    let cb: Vec<(MerkleHash, u32)> = t.list.iter().zip(&t.unpacked).map(|((h, _), o)| (*h, *o)).collect();
    let mut cur = Cursor::new(vec![]);
    let r = guarded(ctx, || CasObject::serialize(&mut cur, cashash, &data, &cb, scheme));
    let (cas, n) = r.unwrap_or_else(|e| witness(format!("{ctx}: CasObject::serialize failed: {e}")));
    let bytes = cur.into_inner();
    if n != bytes.len() {
        witness(format!("{ctx}: CasObject::serialize reports {n} bytes, wrote {}", bytes.len()));
    }
    (cas, bytes)
}

/// CasObject::serialize into a writer whose position is NOT 0: a xorb after N leading bytes, and several xorbs back to back in one
/// Cursor.  The bytes serialize reports for a xorb, taken from its own first byte, must be a complete xorb: returned footer ==
/// what the chunk section dictates (offsets relative to the xorb's start), deserialize, get_all_bytes, chunk ranges, both validators.
fn check_nonzero_start(rt: &tokio::runtime::Runtime, lists: &[(&str, Vec<Vec<u8>>)]) {
    for (sname, scheme) in SCHEMES {
        for lead in [1usize, 13, 4096] {
            let mut cur = Cursor::new(vec![0xA5u8; lead]);
            cur.set_position(lead as u64);
            let mut placed: Vec<(usize, usize, usize)> = vec![]; // (list index, start, length)
            for (k, (_, chunks)) in lists.iter().enumerate() {
                let t = truth_of(chunks);
                let data = chunks.concat();
                let cb: Vec<(MerkleHash, u32)> = t.list.iter().zip(&t.unpacked).map(|((h, _), o)| (*h, *o)).collect();
                let start = cur.position() as usize;
                let ctx = format!("CasObject::serialize of chunk list '{}' ({}) with scheme {sname} into a Cursor positioned at byte {start} ({lead} leading bytes, {k} xorbs written before it)", lists[k].0, describe(chunks));
                let (cas, n) = guarded(&ctx, || CasObject::serialize(&mut cur, &t.root, &data, &cb, scheme)).unwrap_or_else(|e| witness(format!("{ctx}: fails: {e}")));
                if cur.position() as usize != start + n || cur.get_ref().len() != start + n {
                    witness(format!("{ctx}: reports {n} bytes written, the writer moved from {start} to {} (buffer length {})", cur.position(), cur.get_ref().len()));
                }
                placed.push((k, start, n));
                let own = cur.get_ref()[start..start + n].to_vec();
                let w = walk(&own).unwrap_or_else(|e| witness(format!("{ctx}: the {n} bytes written for this xorb, read from its own first byte, have an undecodable chunk section: {e}")));
                if w.chunks != *chunks {
                    witness(format!("{ctx}: the chunk section of the written xorb does not decode to the input chunks"));
                }
                if let Some(m) = info_mismatch(&cas, &t, &w.boundaries, &t.root) {
                    witness(format!("{ctx}: the returned footer does not describe the xorb relative to its own first byte: {m}"));
                }
                match guarded(&ctx, || CasObject::deserialize(&mut Cursor::new(&own[..]))) {
                    Ok(parsed) if parsed == cas => {
                        let r = &mut Cursor::new(&own[..]);
                        match guarded(&ctx, || parsed.get_all_bytes(r)) {
                            Ok(d) if d == data => {},
                            other => witness(format!("{ctx}: get_all_bytes on the xorb's own bytes gives {:?}, the input has {} bytes", other.map(|d| d.len()).map_err(|e| e.to_string()), data.len())),
                        }
                        let nn = chunks.len();
                        for (i, j) in [(0usize, 1usize), (0, nn), (nn - 1, nn), (nn / 2, nn)] {
                            if i >= j { continue; }
                            let off = |x: usize| if x == 0 { 0usize } else { t.unpacked[x - 1] as usize };
                            match guarded(&ctx, || parsed.get_bytes_by_chunk_range(r, i as u32, j as u32)) {
                                Ok(d) if d == data[off(i)..off(j)] => {},
                                other => witness(format!("{ctx}: get_bytes_by_chunk_range({i}, {j}) on the xorb's own bytes gives {:?}, the input range has {} bytes", other.map(|d| d.len()).map_err(|e| e.to_string()), off(j) - off(i))),
                            }
                        }
                    },
                    Ok(_) => witness(format!("{ctx}: CasObject::deserialize of the xorb's own bytes returns a footer different from the one serialize returned")),
                    Err(e) => witness(format!("{ctx}: CasObject::deserialize of the xorb's own bytes fails: {e}")),
                }
                validate_both(rt, &format!("{ctx}; the xorb's own bytes"), &own, &t.root, Expect::Accept, Expect::Accept);
            }
            // and every xorb still reads back after the later ones were appended
            for (k, start, n) in placed {
                let t = truth_of(&lists[k].1);
                validate_both(rt, &format!("xorb #{k} ('{}', scheme {sname}) of {} written back to back into one Cursor after {lead} leading bytes, taken as bytes [{start}, {})", lists[k].0, lists.len(), start + n), &cur.get_ref()[start..start + n], &t.root, Expect::Accept, Expect::Accept);
            }
        }
    }
}

fn info_mismatch(cas: &CasObject, t: &Truth, boundaries: &[u32], h: &MerkleHash) -> Option<String> {
    let i = &cas.info;
    if i.cashash != *h {
        return Some(format!("footer cashash {} != requested hash {}", i.cashash.hex(), h.hex()));
    }
    if i.num_chunks as usize != t.list.len() {
        return Some(format!("num_chunks {} but the chunk section holds {}", i.num_chunks, t.list.len()));
    }
    if i.chunk_hashes != t.list.iter().map(|x| x.0).collect::<Vec<_>>() {
        return Some("footer chunk_hashes differ from the hashes of the decoded chunks".into());
    }
    if i.chunk_boundary_offsets != boundaries {
        return Some(format!("footer chunk_boundary_offsets {:?} differ from the stored chunk ends {:?}", &i.chunk_boundary_offsets[..i.chunk_boundary_offsets.len().min(8)], &boundaries[..boundaries.len().min(8)]));
    }
    if i.unpacked_chunk_offsets != t.unpacked {
        return Some(format!("footer unpacked_chunk_offsets {:?} differ from the decoded chunk lengths' prefix sums {:?}", &i.unpacked_chunk_offsets[..i.unpacked_chunk_offsets.len().min(8)], &t.unpacked[..t.unpacked.len().min(8)]));
    }
    None
}

fn check_xorb(rng: &mut StdRng, list_name: &str, chunks: &[Vec<u8>], sname: &str, scheme: Scheme) -> (Vec<u8>, Truth) {
    let ctx = format!("xorb of chunk list '{list_name}' ({}) serialized with scheme {sname}", describe(chunks));
    let t = truth_of(chunks);
    let api: Vec<(MerkleHash, usize)> = t.list.clone();
    let api_hash = guarded(&ctx, || merkledb::aggregate_hashes::cas_node_hash(&api));
    if api_hash != t.root {
        witness(format!("{ctx}: cas_node_hash gives {} but the published construction gives {}", api_hash.hex(), t.root.hex()));
    }
    let (cas, bytes) = build_xorb(&ctx, chunks, &t, &t.root, scheme);
    let w = walk(&bytes).unwrap_or_else(|e| witness(format!("{ctx}: the chunk section is not decodable by the format rules: {e}")));
    if w.chunks.len() != chunks.len() || w.chunks.iter().zip(chunks).any(|(a, b)| a != b) {
        witness(format!("{ctx}: decoding the chunk section by the format rules does not give back the input chunks"));
    }
    let Some(footer_at) = w.footer_at else { witness(format!("{ctx}: no footer after the chunk section")) };
    if let Some(m) = info_mismatch(&cas, &t, &w.boundaries, &t.root) {
        witness(format!("{ctx}: the CasObject returned by serialize is wrong: {m}"));
    }
    let parsed = guarded(&ctx, || CasObject::deserialize(&mut Cursor::new(&bytes[..])));
    let parsed = parsed.unwrap_or_else(|e| witness(format!("{ctx}: CasObject::deserialize fails on the freshly serialized xorb: {e}")));
    if parsed != cas {
        witness(format!("{ctx}: CasObject::deserialize returns a footer different from the one serialize returned"));
    }
    if bytes.len() != footer_at + cas.info_length as usize + 4 {
        witness(format!("{ctx}: info_length {} does not match the footer size {}", cas.info_length, bytes.len() - footer_at - 4));
    }
    let r = &mut Cursor::new(&bytes[..]);
    let all = guarded(&ctx, || parsed.get_all_bytes(r)).unwrap_or_else(|e| witness(format!("{ctx}: get_all_bytes fails: {e}")));
    let data = chunks.concat();
    if all != data {
        witness(format!("{ctx}: get_all_bytes returns {} bytes that differ from the {} input bytes", all.len(), data.len()));
    }
    match guarded(&ctx, || parsed.get_contents_length()) {
        Ok(n) if n as usize == footer_at => {},
        other => witness(format!("{ctx}: get_contents_length gives {other:?}, the chunk section ends at {footer_at}")),
    }
    let n = chunks.len();
    let mut ranges: Vec<(usize, usize)> = vec![];
    if n <= 16 {
        for i in 0..n { for j in i + 1..=n { ranges.push((i, j)); } }
    } else {
        for i in 0..n { ranges.push((i, i + 1)); }
        ranges.push((0, n));
        for _ in 0..60 { let i = rng.random_range(0..n); let j = rng.random_range(i + 1..=n); ranges.push((i, j)); }
    }
    let off = |k: usize| if k == 0 { 0usize } else { t.unpacked[k - 1] as usize };
    let phys = |k: usize| if k == 0 { 0u32 } else { w.boundaries[k - 1] };
    check_range_api(&ctx, &parsed, &bytes, &t, &ranges);
    for (i, j) in ranges {
        let got = guarded(&ctx, || parsed.get_bytes_by_chunk_range(r, i as u32, j as u32));
        match got {
            Ok(d) if d == data[off(i)..off(j)] => {},
            Ok(d) => witness(format!("{ctx}: get_bytes_by_chunk_range({i}, {j}) returns {} bytes, the input range has {} bytes{}", d.len(), off(j) - off(i), if d.len() == off(j) - off(i) { " with different content" } else { "" })),
            Err(e) => witness(format!("{ctx}: get_bytes_by_chunk_range({i}, {j}) fails: {e}")),
        }
        match guarded(&ctx, || parsed.get_byte_offset(i as u32, j as u32)) {
            Ok(p) if p == (phys(i), phys(j)) => {},
            other => witness(format!("{ctx}: get_byte_offset({i}, {j}) gives {other:?}, the stored chunks occupy [{}, {})", phys(i), phys(j))),
        }
        match guarded(&ctx, || parsed.uncompressed_range_length(i as u32, j as u32)) {
            Ok(l) if l as usize == off(j) - off(i) => {},
            other => witness(format!("{ctx}: uncompressed_range_length({i}, {j}) gives {other:?}, the input range has {} bytes", off(j) - off(i))),
        }
    }
    for i in 0..n {
        match guarded(&ctx, || parsed.uncompressed_chunk_length(i as u32)) {
            Ok(l) if l as usize == chunks[i].len() => {},
            other => witness(format!("{ctx}: uncompressed_chunk_length({i}) gives {other:?}, the chunk has {} bytes", chunks[i].len())),
        }
    }
    (bytes, t)
}

// ---------------------------------------------------------------------------------------------------------------------------------
// (c) validators
// ---------------------------------------------------------------------------------------------------------------------------------

#[derive(Clone, Copy, PartialEq)]
enum Expect {
    Accept,
    Reject,
    /// accepted or rejected, but an acceptance must be justified by the bytes
    Sound,
}

// ---------------------------------------------------------------------------------------------------------------------------------
// decoding is a pure function of the serialized bytes: after ANY decode attempt that may have failed on this thread, a known-good
// ByteGrouping4LZ4 chunk must still decode to its exact bytes through every decoder
// ---------------------------------------------------------------------------------------------------------------------------------

/// f32 values in [1, 2): constant sign / exponent byte, so byte grouping pays off and the chunk is really stored as BG4-LZ4
fn unit_floats(seed: u64, n_floats: usize, tail: usize) -> Vec<u8> {
    let mut x = seed.wrapping_mul(0x9E37_79B9_7F4A_7C15) | 1;
    let mut out = Vec::with_capacity(4 * n_floats + tail);
    for _ in 0..n_floats {
        x ^= x << 13; x ^= x >> 7; x ^= x << 17;
        let v = 1.0f32 + ((x >> 40) as f32 / (1u64 << 24) as f32) * 0.999;
        out.extend_from_slice(&v.to_le_bytes());
    }
    out.extend((0..tail).map(|i| i as u8));
    out
}

struct Probe {
    chunk: Vec<u8>,
    stored: Vec<u8>,
    xorb_tail: Vec<u8>,
    xorb: Vec<u8>,
    cas: CasObject,
}
static PROBE: std::sync::OnceLock<Probe> = std::sync::OnceLock::new();
static N_PROBES: std::sync::atomic::AtomicUsize = std::sync::atomic::AtomicUsize::new(0);

fn probe() -> &'static Probe {
    PROBE.get_or_init(|| {
        let chunk = unit_floats(1, 120, 1);
        let mut stored = vec![];
        serialize_chunk(&chunk, &mut stored, Some(CompressionScheme::ByteGrouping4LZ4)).unwrap();
        let xorb_chunks: Vec<Vec<u8>> = (0..3).map(|k| unit_floats(10 + k, 90 + 7 * k as usize, k as usize)).collect();
        let t = truth_of(&xorb_chunks);
        let data = xorb_chunks.concat();
        let cb: Vec<(MerkleHash, u32)> = t.list.iter().zip(&t.unpacked).map(|((h, _), o)| (*h, *o)).collect();
        let mut cur = Cursor::new(vec![]);
        let (cas, _) = CasObject::serialize(&mut cur, &t.root, &data, &cb, Some(CompressionScheme::ByteGrouping4LZ4)).unwrap();
        let xorb = cur.into_inner();
        if stored[4] != 2 || xorb[4] != 2 {
            println!("infrastructure: the probe chunks are not stored as ByteGrouping4LZ4");
            std::process::exit(2);
        }
        let xorb_tail = xorb_chunks[1..].concat();
        Probe { chunk, stored, xorb_tail, xorb, cas }
    })
}

/// Decodes the known-good BG4-LZ4 data on this thread through the sync and async single-chunk decoders and the xorb range reader.
fn decode_probe(rt: &tokio::runtime::Runtime, after: impl Fn() -> String) {
    decode_probe_impl(rt, after, true)
}
/// `full` = all three decoders; otherwise only the sync single-chunk decoder (any decoder would trip over left-over state, and the
/// tripping decode also clears it, so one decode per possibly failed attempt is enough; every 16th call is a full one anyway)
fn decode_probe_impl(rt: &tokio::runtime::Runtime, after: impl Fn() -> String, full: bool) {
    let p = probe();
    let n = N_PROBES.fetch_add(1, std::sync::atomic::Ordering::Relaxed);
    let full = full || n % 16 == 0;
    let ctx = || format!("decoding a valid ByteGrouping4LZ4 chunk of {} bytes (f32 data) on the same thread right after {}", p.chunk.len(), after());
    let judge = |which: &str, r: Result<(Vec<u8>, usize, u32), String>| match r {
        Ok((d, c, u)) if d == p.chunk && c == p.stored.len() && u as usize == p.chunk.len() => {},
        Ok((d, c, u)) => witness(format!("{}: {which} returns {} bytes {}(reported stored / unpacked lengths {c} / {u}; the chunk has {} bytes stored in {})", ctx(), d.len(), if d == p.chunk { "" } else { "that differ from the chunk " }, p.chunk.len(), p.stored.len())),
        Err(e) => witness(format!("{}: {which} fails: {e}", ctx())),
    };
    let quiet = |f: &mut dyn FnMut() -> Result<(Vec<u8>, usize, u32), String>| -> Result<(Vec<u8>, usize, u32), String> {
        catch_unwind(AssertUnwindSafe(f)).unwrap_or_else(|_| Err("panic".into()))
    };
    judge("sync deserialize_chunk", quiet(&mut || deserialize_chunk(&mut Cursor::new(&p.stored[..])).map_err(|e| e.to_string())));
    if !full {
        return;
    }
    judge("async deserialize_chunk", quiet(&mut || rt.block_on(async { let mut r: &[u8] = &p.stored; deserialize_chunk_async(&mut r).await }).map_err(|e| e.to_string())));
    match catch_unwind(AssertUnwindSafe(|| p.cas.get_bytes_by_chunk_range(&mut Cursor::new(&p.xorb[..]), 1, 3).map_err(|e| e.to_string()))).unwrap_or_else(|_| Err("panic".into())) {
        Ok(d) if d == p.xorb_tail => {},
        Ok(d) => witness(format!("{}: get_bytes_by_chunk_range(1, 3) on a valid 3-chunk BG4-LZ4 xorb returns {} bytes that differ from the {} stored ones", ctx(), d.len(), p.xorb_tail.len())),
        Err(e) => witness(format!("{}: get_bytes_by_chunk_range(1, 3) on a valid 3-chunk BG4-LZ4 xorb fails: {e}", ctx())),
    }
}

/// BG4-LZ4 chunks whose single data block is intact but whose trailing 4-byte LZ4 end mark is damaged (it then reads as the header
/// of a further block): every decoder must fail on them, and must leave no trace for the next decode.
fn check_damaged_end_mark(rt: &tokio::runtime::Runtime) {
    for (k, (n_floats, tail)) in [(3000usize, 3usize), (17, 0), (4097, 2), (1, 1), (800, 1)].into_iter().enumerate() {
        let victim = unit_floats(100 + k as u64, n_floats, tail);
        let mut good = vec![];
        serialize_chunk(&victim, &mut good, Some(CompressionScheme::ByteGrouping4LZ4)).unwrap();
        if good[4] != 2 || good[good.len() - 4..] != [0, 0, 0, 0] {
            continue; // stored raw (tiny chunk) or unexpected frame layout: nothing to damage here
        }
        let n = good.len();
        for (at, val) in [(n - 4, 0x10u8), (n - 4, 0x01), (n - 3, 0x01), (n - 1, 0x80), (n - 2, 0x7f)] {
            let mut bad = good.clone();
            bad[at] = val;
            let what = format!("a ByteGrouping4LZ4 chunk of {} bytes ({n} stored) whose LZ4 end mark is damaged (stored byte {at} set to {val:#04x})", victim.len());
            let h = compute_data_hash(&victim);
            let still_decodes = walk(&bad).map(|w| w.chunks.len() == 1 && w.chunks[0] == victim).unwrap_or(false);
            let attempts: Vec<(&str, Box<dyn Fn() -> bool + '_>)> = vec![
                ("sync deserialize_chunk", Box::new(|| deserialize_chunk(&mut Cursor::new(&bad[..])).map(|r| r.0 == victim).unwrap_or(true))),
                ("async deserialize_chunk", Box::new(|| rt.block_on(async { let mut r: &[u8] = &bad; deserialize_chunk_async(&mut r).await }).map(|r| r.0 == victim).unwrap_or(true))),
                // (the multi-chunk decoders take an unexpected end of input inside a chunk as the end of the chunk list: "no chunk,
                // no bytes" is a consistent answer for them)
                ("sync deserialize_chunks", Box::new(|| deserialize_chunks(&mut Cursor::new(&bad[..])).map(|r| r.0 == victim || (r.0.is_empty() && r.1 == [0])).unwrap_or(true))),
                ("async deserialize_chunks_from_async_read", Box::new(|| rt.block_on(async { let mut r: &[u8] = &bad; deserialize_chunks_from_async_read(&mut r).await }).map(|r| r.0 == victim || (r.0.is_empty() && r.1 == [0])).unwrap_or(true))),
                // (an acceptance is sound only if the damaged bytes still decode, by the format rules, to the chunk - e.g. an end mark
                // turned into an empty stored block)
                ("the seekable validator", Box::new(|| !matches!(CasObject::validate_cas_object(&mut Cursor::new(&bad[..]), &h), Ok(Some(_))) || still_decodes)),
                ("the streaming validator", Box::new(|| !matches!(rt.block_on(async { let mut r: &[u8] = &bad; validate_cas_object_from_async_read(&mut r, &h).await }), Ok(Some(_))) || still_decodes)),
            ];
            for (which, attempt) in attempts {
                // a decoder may fail (expected) or, if the damage happens to be harmless, return the right bytes - never wrong ones
                if !guarded(&format!("{which} on {what}"), || attempt()) {
                    witness(format!("{which} on {what} returns bytes that are not the chunk's / accepts the object"));
                }
                decode_probe(rt, || format!("{which} was given {what}"));
            }
        }
    }
}

/// Runs both validators on `bytes` for hash `h`.  Soundness oracle for an acceptance: the chunk section decodes by the format rules,
/// the decoded chunks' independent root equals `h`, and the returned footer equals what the chunk data dictates.
fn validate_both(rt: &tokio::runtime::Runtime, ctx: &str, bytes: &[u8], h: &MerkleHash, expect_seek: Expect, expect_stream: Expect) {
    let judge = |which: &str, accepted: Option<CasObject>, expect: Expect, errored: Option<String>| {
        match accepted {
            Some(cas) => {
                if expect == Expect::Reject {
                    // still explain with the soundness oracle where possible
                    let why = match walk(bytes) {
                        Err(e) => format!("the chunk section does not decode ({e})"),
                        Ok(w) => {
                            let t = truth_of(&w.chunks);
                            if t.root != *h { format!("the decoded chunks hash to {} and not to the requested {}", t.root.hex(), h.hex()) } else { info_mismatch(&cas, &t, &w.boundaries, h).unwrap_or_else(|| "it is not a well-formed xorb".into()) }
                        },
                    };
                    witness(format!("{ctx}: {which} ACCEPTS the object for hash {} although {why}", h.hex()));
                }
                let w = walk(bytes).unwrap_or_else(|e| witness(format!("{ctx}: {which} ACCEPTS the object although its chunk section does not decode: {e}")));
                let t = truth_of(&w.chunks);
                if t.root != *h {
                    witness(format!("{ctx}: {which} ACCEPTS the object for hash {} but its decoded chunks hash to {}", h.hex(), t.root.hex()));
                }
                if let Some(m) = info_mismatch(&cas, &t, &w.boundaries, h) {
                    witness(format!("{ctx}: {which} ACCEPTS the object for hash {} and returns a footer that does not match the chunk data: {m}", h.hex()));
                }
                // the accepted object must be usable
                for k in 0..cas.info.num_chunks {
                    match guarded(&format!("{ctx}: uncompressed_chunk_length({k}) on the footer accepted by {which}"), || cas.uncompressed_chunk_length(k)) {
                        Ok(l) if l as usize == t.list[k as usize].1 => {},
                        other => witness(format!("{ctx}: {which} accepted the object, but uncompressed_chunk_length({k}) on the returned footer gives {other:?}, the chunk has {} bytes", t.list[k as usize].1)),
                    }
                }
            },
            None => {
                if expect == Expect::Accept {
                    witness(format!("{ctx}: {which} REJECTS a well-formed xorb for its own hash {}{}", h.hex(), errored.map(|e| format!(" (error: {e})")).unwrap_or_default()));
                }
            },
        }
    };
    let seek = guarded(&format!("{ctx}: CasObject::validate_cas_object"), || CasObject::validate_cas_object(&mut Cursor::new(bytes), h));
    match seek {
        Ok(Some(cas)) => judge("the seekable validator CasObject::validate_cas_object", Some(cas), expect_seek, None),
        Ok(None) => judge("the seekable validator CasObject::validate_cas_object", None, expect_seek, None),
        Err(e) => judge("the seekable validator CasObject::validate_cas_object", None, expect_seek, Some(e.to_string())),
    }
    let stream = guarded(&format!("{ctx}: validate_cas_object_from_async_read"), || {
        rt.block_on(async { let mut r: &[u8] = bytes; validate_cas_object_from_async_read(&mut r, h).await })
    });
    match stream {
        Ok(Some((cas, go_back))) => {
            // documented: footer present -> (footer as parsed, None); footer-less -> (generated footer with info_length 0, Some(0))
            // (ident followed by version byte 0 = V0: the validator stops there, builds a footer and asks to go back those 8 bytes)
            let want = match walk(bytes).ok().and_then(|w| w.footer_at) {
                Some(f) if bytes[f + 7] == 0 => (Some(8usize), 0u32),
                Some(f) => (None, (bytes.len() - f).saturating_sub(4) as u32),
                None => (Some(0usize), 0u32),
            };
            if (go_back, cas.info_length) != want && expect_stream != Expect::Reject {
                witness(format!("{ctx}: the streaming validator accepts the object with go_back_bytes {go_back:?} and info_length {}, documented are {:?} and {}", cas.info_length, want.0, want.1));
            }
            judge("the streaming validator validate_cas_object_from_async_read", Some(cas), expect_stream, None)
        },
        Ok(None) => judge("the streaming validator validate_cas_object_from_async_read", None, expect_stream, None),
        Err(e) => judge("the streaming validator validate_cas_object_from_async_read", None, expect_stream, Some(e.to_string())),
    }
    decode_probe_impl(rt, || format!("both validators were run on: {ctx}"), false);
}

fn check_validators(rt: &tokio::runtime::Runtime, rng: &mut StdRng, list_name: &str, chunks: &[Vec<u8>], sname: &str, scheme: Scheme, bytes: &[u8], t: &Truth, exhaustive: bool) {
    use Expect::*;
    let base = format!("xorb of chunk list '{list_name}' ({}) serialized with scheme {sname}", describe(chunks));
    let w = walk(bytes).unwrap();
    let footer_at = w.footer_at.unwrap();
    let n = chunks.len();
    // 1. own hash
    validate_both(rt, &base, bytes, &t.root, Accept, Accept);
    validate_both(rt, &format!("{base}, sent without footer"), &bytes[..footer_at], &t.root, Reject, Accept);
    // 2. another hash
    let mut other = t.root;
    other[1] ^= 1 << 17;
    validate_both(rt, &format!("{base}, validated for a hash with one bit changed"), bytes, &other, Reject, Reject);
    validate_both(rt, &format!("{base}, sent without footer, validated for a hash with one bit changed"), &bytes[..footer_at], &other, Reject, Reject);
    let shorter = truth_of(&chunks[..n - 1]);
    if n > 1 {
        validate_both(rt, &format!("{base}, validated for the hash of the list without its last chunk"), bytes, &shorter.root, Reject, Reject);
    }
    // 3. a payload chunk altered (well-formed replacement chunk of the same length), footer kept / no footer
    for k in [0, n / 2, n - 1] {
        let mut alt = chunks.to_vec();
        let m = alt[k].len();
        alt[k][m / 2] ^= 0x40;
        let mut body = vec![];
        for c in &alt {
            serialize_chunk(c, &mut body, scheme).unwrap();
        }
        let mut with_footer = body.clone();
        with_footer.extend_from_slice(&bytes[footer_at..]);
        validate_both(rt, &format!("{base}, chunk {k} replaced by a chunk differing in one byte, original footer kept"), &with_footer, &t.root, Reject, Reject);
        validate_both(rt, &format!("{base}, chunk {k} replaced by a chunk differing in one byte, sent without footer"), &body, &t.root, Reject, Reject);
    }
    // raw flips inside stored payloads
    for _ in 0..6 {
        let k = rng.random_range(0..n);
        let (a, b) = (if k == 0 { 0 } else { w.boundaries[k - 1] as usize } + 8, w.boundaries[k] as usize);
        if a >= b {
            continue;
        }
        let p = rng.random_range(a..b);
        let mut m = bytes.to_vec();
        m[p] ^= 1 << rng.random_range(0..8);
        let what = format!("{base}, bit flipped in the stored payload of chunk {k} at offset {p}");
        // a flipped bit in a COMPRESSED payload may decode to the same bytes (an LZ4 match offset into a run of equal bytes, an unused
        // frame bit): an acceptance is then sound, so the oracle is soundness, not rejection
        validate_both(rt, &what, &m, &t.root, Sound, Sound);
        validate_both(rt, &format!("{what}, sent without footer"), &m[..footer_at], &t.root, Sound, Sound);
    }
    // 4. two different chunks swapped, footer rewritten coherently for the swapped data (serialize_given_info) but cashash kept
    if let Some((i, j)) = (0..n).flat_map(|i| (i + 1..n).map(move |j| (i, j))).find(|(i, j)| chunks[*i] != chunks[*j]) {
        let mut sw = chunks.to_vec();
        sw.swap(i, j);
        let ts = truth_of(&sw);
        if ts.root != t.root {
            let (cas_sw, bytes_sw) = build_xorb(&base, &sw, &ts, &ts.root, scheme);
            let body_len = walk(&bytes_sw).unwrap().footer_at.unwrap();
            let mut info = cas_sw.info.clone();
            info.cashash = t.root;
            let mut cur = Cursor::new(bytes_sw[..body_len].to_vec());
            cur.set_position(body_len as u64);
            CasObject::serialize_given_info(&mut cur, info).unwrap();
            let forged = cur.into_inner();
            validate_both(rt, &format!("{base}, chunks {i} and {j} swapped and the footer's chunk_hashes / offsets rewritten for the swapped data while cashash keeps the original hash"), &forged, &t.root, Reject, Reject);
            // same with one chunk dropped
            if n > 2 {
                let (cas_d, bytes_d) = build_xorb(&base, &chunks[..n - 1], &shorter, &shorter.root, scheme);
                let bl = walk(&bytes_d).unwrap().footer_at.unwrap();
                let mut info = cas_d.info.clone();
                info.cashash = t.root;
                let mut cur = Cursor::new(bytes_d[..bl].to_vec());
                cur.set_position(bl as u64);
                CasObject::serialize_given_info(&mut cur, info).unwrap();
                validate_both(rt, &format!("{base}, last chunk dropped and the footer rewritten for the shorter data while cashash keeps the original hash"), &cur.into_inner(), &t.root, Reject, Reject);
            }
        }
    }
    // 5. boundaries-section version byte set to 0 and garbage unpacked offsets
    let bsec = footer_at + 40 + 12 + 32 * n;
    if &bytes[bsec..bsec + 7] == b"XBLBBND" && bytes[bsec + 7] == 1 {
        let mut m = bytes.to_vec();
        m[bsec + 7] = 0;
        validate_both(rt, &format!("{base}, boundaries-section version byte (footer offset {}) set to 0", bsec - footer_at), &m, &t.root, Sound, Sound);
        let up = bsec + 12 + 4 * n;
        for k in 0..n {
            let g = (0x7000_0000u32 - 977 * k as u32).to_le_bytes(); // descending garbage
            m[up + 4 * k..up + 4 * k + 4].copy_from_slice(&g);
        }
        validate_both(rt, &format!("{base}, boundaries-section version byte (footer offset {}) set to 0 and the {n} unpacked_chunk_offsets overwritten with descending garbage", bsec - footer_at), &m, &t.root, Reject, Reject);
        let mut m2 = bytes.to_vec();
        for k in 0..n {
            let g = (0x7000_0000u32 - 977 * k as u32).to_le_bytes();
            m2[up + 4 * k..up + 4 * k + 4].copy_from_slice(&g);
        }
        validate_both(rt, &format!("{base}, the {n} unpacked_chunk_offsets overwritten with garbage (version byte kept)"), &m2, &t.root, Reject, Reject);
    } else {
        witness(format!("{base}: footer layout unexpected: no boundaries section ident at footer offset {}", bsec - footer_at));
    }
    // 6. truncations
    let mut cuts = vec![0usize, 1, 3, 7, 8, 9, footer_at - 1, footer_at + 1, footer_at + 8, footer_at + 40, bytes.len() - 5, bytes.len() - 4, bytes.len() - 1];
    cuts.extend(w.boundaries[..n - 1].iter().take(3).map(|b| *b as usize));
    cuts.push(w.boundaries[0] as usize / 2 + 4);
    for c in cuts {
        if c >= bytes.len() || c == footer_at {
            continue; // (the cut at the end of the chunk section is the footer-less form checked above)
        }
        validate_both(rt, &format!("{base}, truncated to its first {c} of {} bytes", bytes.len()), &bytes[..c], &t.root, Reject, Reject);
    }
    // 8. bytes after the end of the xorb, a second footer, bytes between the chunk section and the footer
    for extra in [vec![0u8], vec![0u8; 4], vec![0u8; 8], bytes[bytes.len() - 4..].to_vec(), bytes[footer_at..].to_vec()] {
        let mut m = bytes.to_vec();
        m.extend_from_slice(&extra);
        validate_both(rt, &format!("{base}, followed by {} further bytes ({})", extra.len(), if extra.len() > 8 { "a second copy of its footer and length field".to_string() } else { format!("{extra:02x?}") }), &m, &t.root, Reject, Reject);
    }
    {
        // 8 zero bytes form a well-formed EMPTY stored chunk: one chunk more than the footer lists
        let mut m = bytes[..footer_at].to_vec();
        m.extend_from_slice(&[0u8; 8]);
        m.extend_from_slice(&bytes[footer_at..]);
        validate_both(rt, &format!("{base}, with 8 zero bytes (an empty stored chunk) inserted between the chunk section and the footer"), &m, &t.root, Reject, Reject);
        let mut m = bytes[..footer_at].to_vec();
        m.extend_from_slice(&[0x11u8; 3]);
        m.extend_from_slice(&bytes[footer_at..]);
        validate_both(rt, &format!("{base}, with 3 stray bytes inserted between the chunk section and the footer"), &m, &t.root, Reject, Reject);
        for g in [1usize, 4, 7] {
            let mut m = bytes[..footer_at].to_vec();
            m.extend(std::iter::repeat(0u8).take(g));
            validate_both(rt, &format!("{base}, sent without footer but followed by {g} zero bytes"), &m, &t.root, Reject, Reject);
        }
    }
    // 9. the same chunk section under a V0 footer
    check_v0_xorb(rt, &base, bytes, footer_at, &w, t, n <= 16);
    // 7. byte flips over every chunk header and the whole footer (soundness oracle decides)
    if exhaustive {
        let mut positions: Vec<usize> = (footer_at..bytes.len()).collect();
        for k in 0..n {
            let s = if k == 0 { 0 } else { w.boundaries[k - 1] as usize };
            positions.extend(s..s + 8);
        }
        for p in positions {
            for x in [0x01u8, 0x80, 0xFF] {
                let mut m = bytes.to_vec();
                m[p] ^= x;
                validate_both(rt, &format!("{base}, byte at offset {p} (footer starts at {footer_at}) xored with {x:#04x}"), &m, &t.root, Sound, Sound);
            }
        }
    }
}

fn main() {
    let seed = std::env::var("VERIF_SEED").ok().and_then(|s| s.parse().ok()).unwrap_or(0u64);
    let mut rng = StdRng::seed_from_u64(seed);
    let rt = tokio::runtime::Builder::new_current_thread().build().unwrap();
    std::panic::set_hook(Box::new(|_| {}));
    let maxc = merkledb::constants::MAXIMUM_CHUNK_SIZE;

    let eq_lz4 = equal_length_chunk(&mut rng, |_| CompressionScheme::LZ4);
    let eq_bg4 = equal_length_chunk(&mut rng, |_| CompressionScheme::ByteGrouping4LZ4);
    let eq_auto = equal_length_chunk(&mut rng, CompressionScheme::choose_from_data);
    let eqs: Vec<Vec<u8>> = [eq_lz4, eq_bg4, eq_auto].into_iter().flatten().collect();
    if eqs.len() < 3 {
        eprintln!("note: only {} of 3 equal-length chunks found", eqs.len());
    }

    let t0 = std::time::Instant::now();
    let lap = |what: &str| eprintln!("[{:6.2} s] {what}", t0.elapsed().as_secs_f64());
    check_synthetic_lengths();
    lap("synthetic lengths");
    check_text_forms(&mut rng, seed);
    lap("text forms");
    check_header_classes(&rt);
    lap("header classes");
    check_bg4_and_codec_api(&mut rng);
    lap("bg4 / codec api");
    check_synthetic_footers();
    check_long_frames(&rt);
    lap("synthetic footers, long frames");
    decode_probe(&rt, || "program start".to_string());
    check_damaged_end_mark(&rt);

    let mut lists: Vec<(String, Vec<Vec<u8>>, bool)> = vec![];
    // small list for the exhaustive flips: compressible, incompressible, tiny, equal-length
    let mut small = vec![text(700), random(&mut rng, 300), vec![0x5a], floats(&mut rng, 1027)];
    small.extend(eqs.iter().take(1).cloned());
    lists.push(("small mixed".into(), small, true));
    let mut mixed = vec![
        random(&mut rng, 1), random(&mut rng, 5), vec![0u8; 70_000], floats(&mut rng, 4 * 4096 + 1), random(&mut rng, 3000), text(1000),
        random(&mut rng, 2), floats(&mut rng, 1003), floats(&mut rng, 1002), random(&mut rng, maxc), vec![0u8; maxc], vec![0u8], text(1000),
    ];
    for (k, e) in eqs.iter().enumerate() {
        mixed.insert(3 + 2 * k, e.clone());
    }
    lists.push(("mixed with equal-length, maximum-size and duplicate chunks".into(), mixed, false));
    for (k, e) in eqs.iter().enumerate() {
        lists.push((format!("single chunk whose {} frame is exactly as long as the chunk", ["LZ4", "BG4-LZ4", "auto-selected"][k]), vec![e.clone()], false));
    }
    lists.push(("single 1-byte chunk".into(), vec![vec![7u8]], false));
    lists.push(("single float chunk".into(), vec![floats(&mut rng, 30_001)], false));
    let tiny: Vec<Vec<u8>> = (0..300).map(|i| match i % 3 { 0 => random(&mut rng, 1 + i % 17), 1 => vec![i as u8; 1 + i % 23], _ => floats(&mut rng, 4 + i % 9) }).collect();
    lists.push(("300 tiny chunks".into(), tiny, false));
    // every small chunk count, several hash patterns each: the level-wise tree construction cuts on hash values, so short lists
    // (in particular 2..8 entries) take different shapes depending on the chunk hashes
    for n in 1..=12usize {
        for v in 0..8usize {
            let few: Vec<Vec<u8>> = (0..n).map(|i| random(&mut rng, 3 + (i * 7 + v) % 11)).collect();
            lists.push((format!("{n} tiny random chunks (variant {v})"), few, false));
        }
    }
    // more chunks than the footer parsers' pre-allocation cap (AVERAGE_NUM_CHUNKS_PER_XORB * 9 / 8 = 1152), up to the format's usual maximum
    for n in [1152usize, 1153, 3000, 8192, 8193] {
        let many: Vec<Vec<u8>> = (0..n).map(|i| vec![(i % 251) as u8; 1 + i % 5]).collect();
        lists.push((format!("{n} chunks of 1..5 bytes"), many, false));
    }
    // empty chunks are outside the quantification of C07 (lengths 1..max) but are representable: the stack must stay consistent
    lists.push(("with two empty chunks".into(), vec![text(50), vec![], random(&mut rng, 20), random(&mut rng, 7), vec![], text(9), random(&mut rng, 3)], false));
    let residues: Vec<Vec<u8>> = (1..=11usize).chain(20_000..20_004).map(|n| floats(&mut rng, n)).collect();
    lists.push(("float data of every length residue mod 4".into(), residues, false));

    {
        // writers that do not start at position 0: three different xorbs back to back after 1 / 13 / 4096 leading bytes
        let pick: Vec<(&str, Vec<Vec<u8>>)> = vec![
            ("small mixed", lists[0].1.clone()),
            ("single 1-byte chunk", vec![vec![7u8]]),
            ("floats and text", vec![floats(&mut rng, 2001), text(300), floats(&mut rng, 12), random(&mut rng, 64)]),
        ];
        check_nonzero_start(&rt, &pick);
    }
    for (name, chunks, exhaustive) in &lists {
        for (sname, scheme) in SCHEMES {
            check_codec(&rt, name, chunks, sname, scheme);
            let (bytes, t) = check_xorb(&mut rng, name, chunks, sname, scheme);
            check_validators(&rt, &mut rng, name, chunks, sname, scheme, &bytes, &t, *exhaustive);
        }
        if chunks.len() > 1000 || *exhaustive {
            lap(&format!("list '{name}'"));
        }
    }
    lap("lists");
    check_local_client(&rt, &lists);
    lap("local client");
    // hand-built chunk sections whose headers are individually within the limits but do not describe their payload: a STORED chunk
    // (scheme 0) whose stored length differs from its unpacked length (padding between chunks / a chunk overlapping its successor),
    // as first, middle and last chunk, with a footer that is consistent with the headers and a root over what a reader trusting the
    // unpacked length would take.  The oracle is soundness: an acceptance needs a chunk section that decodes by the format rules.
    {
        use cas_object::CasObjectInfoV1;
        let hdr = |c: usize, scheme: u8, u: usize| -> [u8; 8] { [0, c as u8, (c >> 8) as u8, (c >> 16) as u8, scheme, u as u8, (u >> 8) as u8, (u >> 16) as u8] };
        for bad_at in 0..3usize {
            for (clen, ulen) in [(116usize, 100usize), (40, 100), (100, 99), (99, 100)] {
                let mut body: Vec<u8> = vec![];
                let mut bounds: Vec<u32> = vec![];
                let mut starts: Vec<usize> = vec![];
                let mut ulens: Vec<usize> = vec![];
                for k in 0..3usize {
                    let (c, u) = if k == bad_at { (clen, ulen) } else { (80, 80) };
                    body.extend_from_slice(&hdr(c, 0, u));
                    starts.push(body.len());
                    body.extend((0..c).map(|i| (i as u8).wrapping_mul(31).wrapping_add(k as u8 * 17 + 3)));
                    bounds.push(body.len() as u32);
                    ulens.push(u);
                }
                body.extend_from_slice(&[0xEE; 64]); // so that an over-long read of the last chunk stays inside the buffer
                let body_len = *bounds.last().unwrap() as usize;
                let taken: Vec<Vec<u8>> = (0..3).map(|k| body[starts[k]..starts[k] + ulens[k]].to_vec()).collect();
                body.truncate(body_len);
                let t = truth_of(&taken);
                let mut info = CasObjectInfoV1::default();
                info.cashash = t.root;
                info.num_chunks = 3;
                info.chunk_hashes = t.list.iter().map(|x| x.0).collect();
                info.chunk_boundary_offsets = bounds.clone();
                let mut tot = 0u32;
                info.unpacked_chunk_offsets = ulens.iter().map(|u| { tot += *u as u32; tot }).collect();
                info.fill_in_boundary_offsets();
                let mut cur = Cursor::new(body.clone());
                cur.set_position(body_len as u64);
                CasObject::serialize_given_info(&mut cur, info).unwrap();
                let forged = cur.into_inner();
                let ctx = format!("hand-built xorb of 3 stored chunks, chunk #{bad_at} has stored length {clen} but unpacked length {ulen} (footer consistent with the headers)");
                validate_both(&rt, &ctx, &forged, &t.root, Expect::Sound, Expect::Sound);
                validate_both(&rt, &format!("{ctx}, sent without footer"), &forged[..body_len], &t.root, Expect::Sound, Expect::Sound);
                // the decoders on the same chunk section: the section does not decode by the format rules (a stored chunk's two
                // lengths differ), so none may answer Ok for the whole section, and a single-chunk decoder must fail on the bad chunk
                let sec = &forged[..body_len];
                if walk(sec).is_ok() {
                    println!("infrastructure: the walker decodes {ctx}");
                    std::process::exit(2);
                }
                let start = if bad_at == 0 { 0 } else { bounds[bad_at - 1] as usize };
                let multi = [
                    ("sync deserialize_chunks", guarded(&ctx, || deserialize_chunks(&mut Cursor::new(sec))).map_err(|e| e.to_string())),
                    ("async deserialize_chunks_from_async_read", guarded(&ctx, || rt.block_on(async { let mut r: &[u8] = sec; deserialize_chunks_from_async_read(&mut r).await })).map_err(|e| e.to_string())),
                ];
                for (name, r) in multi {
                    // ("no further chunk" after the chunks before the bad one is the known answer for a frame that ends early)
                    if let Ok((d, idx)) = r {
                        if idx.len() > bad_at + 1 || d.len() != *idx.last().unwrap() as usize {
                            witness(format!("{ctx}: {name} returns Ok with boundaries {idx:?} and {} bytes", d.len()));
                        }
                    }
                }
                let single = [
                    ("sync deserialize_chunk", guarded(&ctx, || deserialize_chunk(&mut Cursor::new(&sec[start..]))).map(|r| (r.0.len(), r.1, r.2)).map_err(|e| e.to_string())),
                    ("async deserialize_chunk", guarded(&ctx, || rt.block_on(async { let mut r: &[u8] = &sec[start..]; deserialize_chunk_async(&mut r).await })).map(|r| (r.0.len(), r.1, r.2)).map_err(|e| e.to_string())),
                ];
                for (name, r) in single {
                    if let Ok(x) = r {
                        witness(format!("{ctx}: {name} positioned at the bad chunk returns Ok({x:?})"));
                    }
                }
            }
        }
    }
    // random strings and random strings with a plausible info_length: never a panic, never an acceptance
    for i in 0..300 {
        let n = rng.random_range(0..400);
        let mut s = random(&mut rng, n);
        if i % 2 == 0 && n >= 4 {
            let l = (rng.random_range(0..n) as u32).to_le_bytes();
            s[n - 4..].copy_from_slice(&l);
        }
        if i % 3 == 0 && n >= 8 {
            s[0] = 0; s[4] = (i % 4) as u8; s[2] = 0; s[3] = 0; s[6] = 0; s[7] = 0;
        }
        let h = compute_data_hash(&s);
        validate_both(&rt, &format!("random byte string #{i} of {n} bytes (VERIF_SEED={seed})"), &s, &h, Expect::Sound, Expect::Sound);
    }
    eprintln!("{} decode probes", N_PROBES.load(std::sync::atomic::Ordering::Relaxed));
    println!("no violation found");
}

// =================================================================================================================================
// Coverage extensions (round 7): `*_to_writer` entry points with failing writers, chunk-header classes at and beyond the limits,
// invalid chunk ranges, range-verification hashes, footers at the u32 boundaries, V0-footered xorbs, the text forms of hashes,
// every byte-grouping variant, hand-made LZ4 frames longer than a chunk, LocalClient put / get.
// =================================================================================================================================

/// the published keys (merklehash::data_hash, mdb_shard::chunk_verification)
const DATA_KEY: [u8; 32] = [102, 151, 245, 119, 91, 149, 80, 222, 49, 53, 203, 172, 165, 151, 24, 28, 157, 228, 33, 16, 155, 235, 43, 88, 180, 208, 176, 75, 147, 173, 242, 41];
const INTERNAL_NODE_KEY: [u8; 32] = [1, 126, 197, 199, 165, 71, 41, 150, 253, 148, 102, 102, 180, 138, 2, 230, 93, 221, 83, 111, 55, 199, 109, 210, 248, 99, 82, 230, 74, 83, 113, 63];
const VERIFICATION_KEY: [u8; 32] = [127, 24, 87, 214, 206, 86, 237, 102, 18, 127, 249, 19, 231, 165, 195, 243, 164, 205, 38, 213, 181, 219, 73, 230, 65, 36, 152, 127, 40, 251, 148, 195];

/// the 32 bytes of a hash: its four words, little-endian, in order
fn hash_bytes(h: &MerkleHash) -> [u8; 32] {
    let mut o = [0u8; 32];
    for w in 0..4 {
        o[8 * w..8 * w + 8].copy_from_slice(&h[w].to_le_bytes());
    }
    o
}
fn hash_from_bytes(b: &[u8; 32]) -> MerkleHash {
    MerkleHash::from([0, 1, 2, 3].map(|w| u64::from_le_bytes(b[8 * w..8 * w + 8].try_into().unwrap())))
}

// ---------------------------------------------------------------------------------------------------------------------------------
// (f) *_to_writer
// ---------------------------------------------------------------------------------------------------------------------------------

struct ScriptedWriter {
    out: Vec<u8>,
    calls: usize,
    fail_at: Option<usize>,
    /// fail by answering Ok(0) instead of Err
    zero: bool,
}
impl std::io::Write for ScriptedWriter {
    fn write(&mut self, buf: &[u8]) -> std::io::Result<usize> {
        let k = self.calls;
        self.calls += 1;
        if Some(k) == self.fail_at && !buf.is_empty() {
            return if self.zero { Ok(0) } else { Err(std::io::Error::new(std::io::ErrorKind::Other, "scripted write failure")) };
        }
        self.out.extend_from_slice(buf);
        Ok(buf.len())
    }
    fn flush(&mut self) -> std::io::Result<()> {
        Ok(())
    }
}

fn check_writer_variants(rt: &tokio::runtime::Runtime, ctx: &str, chunks: &[Vec<u8>], buf: &[u8], stored: &[usize]) {
    use cas_object::deserialize_async::{deserialize_chunk_to_writer as chunk_to_writer_async, deserialize_chunks_to_writer_from_async_read, deserialize_chunks_to_writer_from_stream};
    use cas_object::{deserialize_chunk_to_writer, deserialize_chunks_to_writer};
    let data = chunks.concat();
    let mut want_idx = vec![0u32];
    for c in chunks {
        want_idx.push(want_idx.last().unwrap() + c.len() as u32);
    }
    // every entry point as a closure over the writer: Ok((stored bytes consumed, boundaries or the single unpacked length)) / Err
    type R = Result<(usize, Vec<u32>), String>;
    let entry: Vec<(&str, bool, Box<dyn Fn(&mut ScriptedWriter) -> R + '_>)> = vec![
        ("sync deserialize_chunk_to_writer", true, Box::new(|w| deserialize_chunk_to_writer(&mut Cursor::new(buf), w).map(|(c, u)| (c, vec![u])).map_err(|e| e.to_string()))),
        ("async deserialize_chunk_to_writer", true, Box::new(|w| rt.block_on(async { let mut r: &[u8] = buf; chunk_to_writer_async(&mut r, w).await }).map(|(c, u)| (c, vec![u])).map_err(|e| e.to_string()))),
        ("sync deserialize_chunks_to_writer", false, Box::new(|w| deserialize_chunks_to_writer(&mut Cursor::new(buf), w).map_err(|e| e.to_string()))),
        ("async deserialize_chunks_to_writer_from_async_read", false, Box::new(|w| rt.block_on(async { let mut r: &[u8] = buf; deserialize_chunks_to_writer_from_async_read(&mut r, w).await }).map_err(|e| e.to_string()))),
        ("deserialize_chunks_to_writer_from_stream (items of 11 bytes)", false, Box::new(|w| {
            let pieces: Vec<Result<bytes::Bytes, std::io::Error>> = buf.chunks(11).map(|p| Ok(bytes::Bytes::copy_from_slice(p))).collect();
            rt.block_on(async { deserialize_chunks_to_writer_from_stream(futures::stream::iter(pieces), w).await }).map_err(|e| e.to_string())
        })),
    ];
    // the producer side: serialize_chunk into a writer that fails at its first / a later write call
    for (k, c) in chunks.iter().enumerate().take(3) {
        let mut good = ScriptedWriter { out: vec![], calls: 0, fail_at: None, zero: false };
        let _ = serialize_chunk(c, &mut good, None);
        for at in [0usize, good.calls - 1] {
            for zero in [false, true] {
                let mut w = ScriptedWriter { out: vec![], calls: 0, fail_at: Some(at), zero };
                if let Ok(n) = guarded(&format!("{ctx}: serialize_chunk of chunk {k} into a failing writer"), || serialize_chunk(c, &mut w, None)) {
                    if !c.is_empty() || at < good.calls - 1 {
                        witness(format!("{ctx}: serialize_chunk of chunk {k} returns Ok({n}) although the writer {} at write call #{at} of {} (it holds {} bytes)", if zero { "answers Ok(0)" } else { "fails" }, good.calls, w.out.len()));
                    }
                }
            }
        }
    }
    for (name, single, f) in &entry {
        let (want_data, want_ret): (&[u8], (usize, Vec<u32>)) = if *single { (&chunks[0][..], (stored[0], vec![chunks[0].len() as u32])) } else { (&data[..], (buf.len(), want_idx.clone())) };
        let mut good = ScriptedWriter { out: vec![], calls: 0, fail_at: None, zero: false };
        match guarded(&format!("{ctx}: {name}"), || f(&mut good)) {
            Ok(ret) if ret == want_ret && good.out == want_data => {},
            Ok(ret) => witness(format!("{ctx}: {name} returns (stored bytes consumed, unpacked lengths / boundaries) = ({}, {:?}...) and hands {} bytes to the writer; the input has ({}, {:?}...) and {} bytes{}", ret.0, &ret.1[..ret.1.len().min(4)], good.out.len(), want_ret.0, &want_ret.1[..want_ret.1.len().min(4)], want_data.len(), if good.out == want_data { "" } else { " (content differs)" })),
            Err(e) => witness(format!("{ctx}: {name} fails with a writer that accepts everything: {e}")),
        }
        let total_calls = good.calls;
        if want_data.is_empty() || total_calls == 0 {
            continue;
        }
        let mut points = vec![0usize, total_calls / 2, total_calls - 1];
        points.dedup();
        for at in points {
            for zero in [false, true] {
                let mut w = ScriptedWriter { out: vec![], calls: 0, fail_at: Some(at), zero };
                let how = if zero { "answers Ok(0)" } else { "fails with an I/O error" };
                let r = guarded(&format!("{ctx}: {name} with a writer that {how} at write call #{at} of {total_calls}"), || f(&mut w));
                if let Ok(ret) = r {
                    witness(format!("{ctx}: {name} returns Ok(({}, {:?}...)) although the writer {how} at write call #{at} of {total_calls} (the writer holds {} of {} bytes)", ret.0, &ret.1[..ret.1.len().min(4)], w.out.len(), want_data.len()));
                }
                if w.calls <= at {
                    witness(format!("{ctx}: {name}: the writer saw only {} write calls in the failing run, {total_calls} in the good run", w.calls));
                }
            }
        }
    }
}

// ---------------------------------------------------------------------------------------------------------------------------------
// (g) chunk header classes
// ---------------------------------------------------------------------------------------------------------------------------------

fn header(version: u8, clen: usize, scheme: u8, ulen: usize) -> [u8; 8] {
    [version, clen as u8, (clen >> 8) as u8, (clen >> 16) as u8, scheme, ulen as u8, (ulen >> 8) as u8, (ulen >> 16) as u8]
}

/// parse_chunk_header / sync and async deserialize_chunk_header accept exactly: version 0, scheme 0..=2, stored length <= 2 * maximum
/// chunk size, unpacked length <= maximum chunk size - and then report the fields as written
fn check_header_classes(rt: &tokio::runtime::Runtime) {
    use cas_object::deserialize_async::deserialize_chunk_header as header_async;
    use cas_object::{deserialize_chunk_header, parse_chunk_header};
    let maxc = merkledb::constants::MAXIMUM_CHUNK_SIZE;
    let clens = [0usize, 1, maxc, 2 * maxc - 1, 2 * maxc, 2 * maxc + 1, (1 << 24) - 1];
    let ulens = [0usize, 1, maxc - 1, maxc, maxc + 1, 2 * maxc, (1 << 24) - 1];
    for version in [0u8, 1, 2, 0x58, 255] {
        for scheme in 0..=255u8 {
            for &clen in &clens {
                for &ulen in &ulens {
                    let h = header(version, clen, scheme, ulen);
                    let valid = version == 0 && scheme <= 2 && clen <= 2 * maxc && ulen <= maxc;
                    let what = format!("chunk header {h:02x?} (version {version}, stored length {clen}, scheme byte {scheme}, unpacked length {ulen}; maximum chunk size {maxc})");
                    let fields = |x: &cas_object::CASChunkHeader| (x.version, x.get_compressed_length() as usize, x.get_compression_scheme().map(|s| s as u8).unwrap_or(99), x.get_uncompressed_length() as usize);
                    let mut answers = vec![
                        ("parse_chunk_header", guarded(&what, || parse_chunk_header(h)).map(|x| fields(&x)).map_err(|e| e.to_string())),
                        ("sync deserialize_chunk_header", guarded(&what, || deserialize_chunk_header(&mut Cursor::new(&h[..]))).map(|x| fields(&x)).map_err(|e| e.to_string())),
                    ];
                    // the async twin on a subset (same validation code path): all schemes at two length pairs, all lengths at schemes 0..=3
                    if scheme <= 3 || (clen == 1 && ulen == 1) || (clen == 2 * maxc && ulen == maxc) {
                        answers.push(("async deserialize_chunk_header", guarded(&what, || rt.block_on(async { let mut r: &[u8] = &h; header_async(&mut r).await })).map(|x| fields(&x)).map_err(|e| e.to_string())));
                    }
                    for (name, a) in answers {
                        match a {
                            Ok(f) if valid && f == (version, clen, scheme, ulen) => {},
                            Err(_) if !valid => {},
                            Ok(f) => witness(format!("{name} ACCEPTS {what} and reports {f:?}; {}", if valid { "the fields differ from the bytes" } else { "the header is outside the format limits" })),
                            Err(e) => witness(format!("{name} REJECTS the valid {what}: {e}")),
                        }
                    }
                }
            }
        }
    }
    // truncated headers: 0..7 bytes
    for n in 0..8usize {
        let h = header(0, 5, 0, 5);
        let what = format!("the first {n} bytes of a chunk header");
        if guarded(&what, || deserialize_chunk_header(&mut Cursor::new(&h[..n]))).is_ok() || guarded(&what, || rt.block_on(async { let mut r: &[u8] = &h[..n]; header_async(&mut r).await })).is_ok() {
            witness(format!("a chunk-header reader returns Ok on {what}"));
        }
    }
    // CASChunkHeader::new writes the fields where the format puts them
    for (scheme, clen, ulen) in [(CompressionScheme::None, 5u32, 5u32), (CompressionScheme::LZ4, 66051, 131072), (CompressionScheme::ByteGrouping4LZ4, 0x0A0B0C, 0x010203)] {
        let hdr = cas_object::CASChunkHeader::new(scheme, clen, ulen);
        let bytes: [u8; 8] = unsafe { std::mem::transmute_copy(&hdr) };
        if bytes != header(0, clen as usize, scheme as u8, ulen as usize) {
            witness(format!("CASChunkHeader::new({scheme:?}, {clen}, {ulen}) has the bytes {bytes:02x?}, the format says {:02x?}", header(0, clen as usize, scheme as u8, ulen as usize)));
        }
    }
}

/// Hand-made LZ4 frames made of 1-byte STORED blocks: the stored form is much longer than the chunk.  A stored length within
/// (maximum chunk size, 2 * maximum chunk size] is inside the header limits and must decode everywhere; beyond, and with an unpacked
/// length of maximum + 1, every decoder and validator must refuse.
fn check_long_frames(rt: &tokio::runtime::Runtime) {
    let maxc = merkledb::constants::MAXIMUM_CHUNK_SIZE;
    let sample = lz4_flex::frame::FrameEncoder::new(Vec::new());
    let mut sample = sample;
    std::io::Write::write_all(&mut sample, b"x").unwrap();
    let sample = sample.finish().unwrap();
    let frame_header = &sample[..7]; // magic, FLG, BD, header checksum (no content size, no checksums in this configuration)
    if sample[..4] != [0x04, 0x22, 0x4D, 0x18] || sample[4] & 0b0000_1100 != 0 {
        println!("infrastructure: unexpected LZ4 frame descriptor {:02x?}", &sample[..7]);
        std::process::exit(2);
    }
    let frame_of = |payload: &[u8]| -> Vec<u8> {
        let mut f = frame_header.to_vec();
        for b in payload {
            f.extend_from_slice(&0x8000_0001u32.to_le_bytes());
            f.push(*b);
        }
        f.extend_from_slice(&[0, 0, 0, 0]);
        f
    };
    let cases: Vec<(String, Vec<u8>, Vec<u8>, bool)> = {
        let mut v = vec![];
        for n in [26_300usize, 50_000, (2 * maxc - 11) / 5, (2 * maxc - 11) / 5 + 1, 60_000] {
            let payload: Vec<u8> = (0..n).map(|i| (i * 7 + i / 251) as u8).collect();
            let frame = frame_of(&payload);
            let valid = frame.len() <= 2 * maxc;
            let mut stored = header(0, frame.len(), 1, n).to_vec();
            stored.extend_from_slice(&frame);
            v.push((format!("a chunk of {n} bytes stored as an LZ4 frame of {n} one-byte stored blocks ({} stored bytes; limit {})", frame.len(), 2 * maxc), payload, stored, valid));
        }
        for n in [maxc, maxc + 1] {
            let payload = vec![0u8; n];
            let mut enc = lz4_flex::frame::FrameEncoder::new(Vec::new());
            std::io::Write::write_all(&mut enc, &payload).unwrap();
            let frame = enc.finish().unwrap();
            let mut stored = header(0, frame.len(), 1, n).to_vec();
            stored.extend_from_slice(&frame);
            v.push((format!("a chunk of {n} zero bytes (maximum chunk size {maxc}) stored as a regular LZ4 frame of {} bytes", frame.len()), payload.clone(), stored, n <= maxc));
            let mut stored = header(0, n, 0, n).to_vec();
            stored.extend_from_slice(&payload);
            v.push((format!("a chunk of {n} zero bytes (maximum chunk size {maxc}) stored raw"), payload.clone(), stored, n <= maxc));
        }
        v
    };
    for (what, payload, stored, valid) in &cases {
        match walk(stored) {
            Ok(w) if w.chunks.len() == 1 && &w.chunks[0] == payload => {},
            other => {
                println!("infrastructure: the hand-made stored form of {what} does not decode with lz4_flex: {:?}", other.map(|w| w.chunks.len()));
                std::process::exit(2);
            },
        }
        let h = compute_data_hash(payload);
        let answers: Vec<(&str, Option<bool>)> = vec![
            ("sync deserialize_chunk", guarded(what, || deserialize_chunk(&mut Cursor::new(&stored[..]))).ok().map(|r| &r.0 == payload && r.1 == stored.len() && r.2 as usize == payload.len())),
            ("async deserialize_chunk", guarded(what, || rt.block_on(async { let mut r: &[u8] = stored; deserialize_chunk_async(&mut r).await })).ok().map(|r| &r.0 == payload && r.1 == stored.len() && r.2 as usize == payload.len())),
            ("sync deserialize_chunks", guarded(what, || deserialize_chunks(&mut Cursor::new(&stored[..]))).ok().map(|r| &r.0 == payload && r.1 == [0, payload.len() as u32])),
            ("async deserialize_chunks_from_async_read", guarded(what, || rt.block_on(async { let mut r: &[u8] = stored; deserialize_chunks_from_async_read(&mut r).await })).ok().map(|r| &r.0 == payload && r.1 == [0, payload.len() as u32])),
        ];
        for (name, a) in answers {
            match (a, valid) {
                (Some(true), true) | (None, false) => {},
                (Some(false), _) => witness(format!("{name} on {what} returns Ok with other bytes / lengths than the chunk's")),
                (Some(true), false) => witness(format!("{name} ACCEPTS {what} although its header is outside the format limits")),
                (None, true) => witness(format!("{name} REJECTS {what} although its header is within the format limits and the frame decodes")),
            }
        }
        let e = if *valid { Expect::Accept } else { Expect::Reject };
        // footer-less for the stream validator; with a footer (serialize_given_info) for both
        validate_both(rt, &format!("{what}, sent as a footer-less single-chunk xorb"), stored, &h, Expect::Reject, e);
        let mut info = cas_object::CasObjectInfoV1::default();
        info.cashash = h;
        info.num_chunks = 1;
        info.chunk_hashes = vec![h];
        info.chunk_boundary_offsets = vec![stored.len() as u32];
        info.unpacked_chunk_offsets = vec![payload.len() as u32];
        info.fill_in_boundary_offsets();
        let mut cur = Cursor::new(stored.clone());
        cur.set_position(stored.len() as u64);
        CasObject::serialize_given_info(&mut cur, info).unwrap();
        validate_both(rt, &format!("{what}, sent as a single-chunk xorb with footer"), &cur.into_inner(), &h, e, e);
    }
}

// ---------------------------------------------------------------------------------------------------------------------------------
// (h) invalid ranges, (i) range-verification hash
// ---------------------------------------------------------------------------------------------------------------------------------

fn check_range_api(ctx: &str, parsed: &CasObject, bytes: &[u8], t: &Truth, valid_ranges: &[(usize, usize)]) {
    let n = t.list.len() as u32;
    let own_range_hash = |i: usize, j: usize| -> MerkleHash {
        let mut cat = vec![];
        for (h, _) in &t.list[i..j] {
            cat.extend_from_slice(&hash_bytes(h));
        }
        hash_from_bytes(blake3::keyed_hash(&VERIFICATION_KEY, &cat).as_bytes())
    };
    for &(i, j) in valid_ranges {
        let want = own_range_hash(i, j);
        match guarded(ctx, || parsed.generate_chunk_range_hash(i as u32, j as u32)) {
            Ok(h) if h == want => {},
            other => witness(format!("{ctx}: generate_chunk_range_hash({i}, {j}) gives {:?}, the keyed hash of the {} concatenated chunk hashes is {}", other.map(|h| h.hex()).map_err(|e| e.to_string()), j - i, want.hex())),
        }
        let lib = guarded(ctx, || mdb_shard::chunk_verification::range_hash_from_chunks(&t.list[i..j].iter().map(|x| x.0).collect::<Vec<_>>()));
        if lib != want {
            witness(format!("{ctx}: range_hash_from_chunks over chunks [{i}, {j}) gives {}, the keyed hash of the concatenated chunk hashes is {}", lib.hex(), want.hex()));
        }
    }
    // sensitivity of the range hash: dropping the last chunk / exchanging two different neighbours changes it
    if n >= 2 {
        let a = own_range_hash(0, n as usize);
        if guarded(ctx, || parsed.generate_chunk_range_hash(0, n - 1)).map(|h| h == a).unwrap_or(false) {
            witness(format!("{ctx}: generate_chunk_range_hash(0, {}) equals the hash of the full range", n - 1));
        }
    }
    let invalid: Vec<(u32, u32)> = vec![(0, 0), (n / 2, n / 2), (n, n), (1, 0), (n, 0), (n, n - 1), (0, n + 1), (n - 1, n + 1), (n, n + 1), (n + 1, n + 2), (u32::MAX, 0), (0, u32::MAX), (u32::MAX - 1, u32::MAX), (u32::MAX, u32::MAX)];
    for (a, b) in invalid {
        let what = format!("{ctx}: chunk range ({a}, {b}) of a xorb with {n} chunks");
        if let Ok(d) = guarded(&what, || parsed.get_bytes_by_chunk_range(&mut Cursor::new(bytes), a, b)) {
            witness(format!("{what}: get_bytes_by_chunk_range returns Ok with {} bytes", d.len()));
        }
        if let Ok(p) = guarded(&what, || parsed.get_byte_offset(a, b)) {
            witness(format!("{what}: get_byte_offset returns Ok({p:?})"));
        }
        if let Ok(h) = guarded(&what, || parsed.generate_chunk_range_hash(a, b)) {
            witness(format!("{what}: generate_chunk_range_hash returns Ok({})", h.hex()));
        }
        // (documented: start == end < num_chunks is the empty range of length 0)
        match guarded(&what, || parsed.uncompressed_range_length(a, b)) {
            Ok(0) if a == b && a < n => {},
            Ok(l) => witness(format!("{what}: uncompressed_range_length returns Ok({l})")),
            Err(_) => {},
        }
    }
    for k in [n, n + 1, u32::MAX] {
        if let Ok(l) = guarded(ctx, || parsed.uncompressed_chunk_length(k)) {
            witness(format!("{ctx}: uncompressed_chunk_length({k}) on a xorb with {n} chunks returns Ok({l})"));
        }
    }
}

// ---------------------------------------------------------------------------------------------------------------------------------
// (k) synthetic footers: u32 boundaries, incomplete info structs
// ---------------------------------------------------------------------------------------------------------------------------------

fn v1_layout(cashash: &MerkleHash, hashes: &[MerkleHash], bounds: &[u32], unpacked: &[u32]) -> Vec<u8> {
    let n = hashes.len() as u32;
    let boff = (7 + 1 + 4 + 4 * bounds.len() + 4 * unpacked.len() + 4 + 4 + 4 + 16) as u32;
    let hoff = (7 + 1 + 4 + 32 * hashes.len()) as u32 + boff;
    let mut v = vec![];
    v.extend_from_slice(b"XETBLOB"); v.push(1); v.extend_from_slice(&hash_bytes(cashash));
    v.extend_from_slice(b"XBLBHSH"); v.push(0); v.extend_from_slice(&n.to_le_bytes());
    for h in hashes { v.extend_from_slice(&hash_bytes(h)); }
    v.extend_from_slice(b"XBLBBND"); v.push(1); v.extend_from_slice(&n.to_le_bytes());
    for b in bounds { v.extend_from_slice(&b.to_le_bytes()); }
    for b in unpacked { v.extend_from_slice(&b.to_le_bytes()); }
    v.extend_from_slice(&n.to_le_bytes()); v.extend_from_slice(&hoff.to_le_bytes()); v.extend_from_slice(&boff.to_le_bytes());
    v.extend_from_slice(&[0u8; 16]);
    v
}
fn v0_layout(cashash: &MerkleHash, hashes: &[MerkleHash], bounds: &[u32]) -> Vec<u8> {
    let mut v = vec![];
    v.extend_from_slice(b"XETBLOB"); v.push(0); v.extend_from_slice(&hash_bytes(cashash));
    v.extend_from_slice(&(bounds.len() as u32).to_le_bytes());
    for b in bounds { v.extend_from_slice(&b.to_le_bytes()); }
    for h in hashes { v.extend_from_slice(&hash_bytes(h)); }
    v.extend_from_slice(&[0u8; 16]);
    v
}

fn check_synthetic_footers() {
    use cas_object::CasObjectInfoV1;
    let hs: Vec<MerkleHash> = (0..3).map(|k| compute_data_hash(format!("synthetic footer entry {k}").as_bytes())).collect();
    let cashash = compute_data_hash(b"synthetic footer");
    for (bounds, unpacked) in [
        (vec![9u32, 0x8000_0000, u32::MAX], vec![1u32, 0x7FFF_FFFF, u32::MAX]),
        (vec![u32::MAX - 2, u32::MAX - 1, u32::MAX], vec![u32::MAX - 2, u32::MAX - 1, u32::MAX]),
        (vec![0x7FFF_FFFF, 0x8000_0000, 0x8000_0001], vec![0xFFFF_FFFE, 0xFFFF_FFFF, 0xFFFF_FFFF]),
    ] {
        let ctx = format!("synthetic footer of 3 chunks with chunk_boundary_offsets {bounds:?} and unpacked_chunk_offsets {unpacked:?} written by serialize_given_info");
        let mut info = CasObjectInfoV1::default();
        info.cashash = cashash;
        info.num_chunks = 3;
        info.chunk_hashes = hs.clone();
        info.chunk_boundary_offsets = bounds.clone();
        info.unpacked_chunk_offsets = unpacked.clone();
        info.fill_in_boundary_offsets();
        let mut cur = Cursor::new(vec![]);
        let (cas, n) = guarded(&ctx, || CasObject::serialize_given_info(&mut cur, info)).unwrap_or_else(|e| witness(format!("{ctx}: fails: {e}")));
        let bytes = cur.into_inner();
        let mut want = v1_layout(&cashash, &hs, &bounds, &unpacked);
        let il = want.len() as u32;
        want.extend_from_slice(&il.to_le_bytes());
        if bytes != want || n != bytes.len() || cas.info_length != il {
            witness(format!("{ctx}: wrote {} bytes (reported {n}, info_length {}), the V1 layout has {} bytes{}", bytes.len(), cas.info_length, want.len(), if bytes.len() == want.len() { " with other content" } else { "" }));
        }
        let parsed = guarded(&ctx, || CasObject::deserialize(&mut Cursor::new(&bytes[..]))).unwrap_or_else(|e| witness(format!("{ctx}: CasObject::deserialize fails on it: {e}")));
        if parsed != cas {
            witness(format!("{ctx}: CasObject::deserialize returns another footer than serialize_given_info returned"));
        }
        let ub = |k: usize| if k == 0 { 0u32 } else { unpacked[k - 1] };
        let pb = |k: usize| if k == 0 { 0u32 } else { bounds[k - 1] };
        match guarded(&ctx, || parsed.get_contents_length()) {
            Ok(l) if l == bounds[2] => {},
            other => witness(format!("{ctx}: get_contents_length gives {other:?}")),
        }
        for i in 0..3usize {
            match guarded(&ctx, || parsed.uncompressed_chunk_length(i as u32)) {
                Ok(l) if l == unpacked[i] - ub(i) => {},
                other => witness(format!("{ctx}: uncompressed_chunk_length({i}) gives {other:?}, the offsets say {}", unpacked[i] - ub(i))),
            }
            for j in i + 1..=3usize {
                match guarded(&ctx, || parsed.uncompressed_range_length(i as u32, j as u32)) {
                    Ok(l) if l == ub(j) - ub(i) => {},
                    other => witness(format!("{ctx}: uncompressed_range_length({i}, {j}) gives {other:?}, the offsets say {}", ub(j) - ub(i))),
                }
                match guarded(&ctx, || parsed.get_byte_offset(i as u32, j as u32)) {
                    Ok(p) if p == (pb(i), pb(j)) => {},
                    other => witness(format!("{ctx}: get_byte_offset({i}, {j}) gives {other:?}, the offsets say ({}, {})", pb(i), pb(j))),
                }
            }
        }
    }
    // info structs that are not complete: every accessor must answer Err, none may panic
    let complete = || {
        let mut info = CasObjectInfoV1::default();
        info.cashash = cashash;
        info.num_chunks = 3;
        info.chunk_hashes = hs.clone();
        info.chunk_boundary_offsets = vec![10, 20, 30];
        info.unpacked_chunk_offsets = vec![2, 4, 6];
        info.fill_in_boundary_offsets();
        info
    };
    let mut broken: Vec<(&str, CasObjectInfoV1)> = vec![];
    broken.push(("the default (no chunks)", CasObjectInfoV1::default()));
    let mut i = complete(); i.num_chunks = 0; broken.push(("num_chunks 0 with three table entries", i));
    let mut i = complete(); i.cashash = MerkleHash::default(); broken.push(("the all-zero cashash", i));
    let mut i = complete(); i.num_chunks = 4; broken.push(("num_chunks 4 with three table entries", i));
    let mut i = complete(); i.num_chunks = 2; broken.push(("num_chunks 2 with three table entries", i));
    let mut i = complete(); i.chunk_hashes.pop(); broken.push(("one chunk hash missing", i));
    let mut i = complete(); i.chunk_boundary_offsets.pop(); broken.push(("one boundary offset missing", i));
    let mut i = complete(); i.unpacked_chunk_offsets.pop(); broken.push(("one unpacked offset missing", i));
    let mut i = complete(); i.unpacked_chunk_offsets.clear(); broken.push(("no unpacked offsets under boundaries_version 1", i));
    let some_bytes = vec![0u8; 64];
    for (name, info) in broken {
        let cas = CasObject { info, info_length: 0 };
        let ctx = format!("CasObject whose info has {name}");
        let answers: Vec<(&str, bool)> = vec![
            ("get_contents_length", guarded(&ctx, || cas.get_contents_length()).is_ok()),
            ("get_all_bytes", guarded(&ctx, || cas.get_all_bytes(&mut Cursor::new(&some_bytes[..]))).is_ok()),
            ("get_bytes_by_chunk_range(0, 1)", guarded(&ctx, || cas.get_bytes_by_chunk_range(&mut Cursor::new(&some_bytes[..]), 0, 1)).is_ok()),
            ("get_byte_offset(0, 1)", guarded(&ctx, || cas.get_byte_offset(0, 1)).is_ok()),
            ("generate_chunk_range_hash(0, 1)", guarded(&ctx, || cas.generate_chunk_range_hash(0, 1)).is_ok()),
            ("uncompressed_chunk_length(0)", guarded(&ctx, || cas.uncompressed_chunk_length(0)).is_ok()),
            ("uncompressed_range_length(0, 1)", guarded(&ctx, || cas.uncompressed_range_length(0, 1)).is_ok()),
        ];
        if let Some((f, _)) = answers.iter().find(|a| a.1) {
            witness(format!("{ctx}: {f} returns Ok"));
        }
    }
    // opt-in probes C07_PROBE_UNVALIDATED_FOOTER=1 / =2 (not part of C07 / C08 as stated: these accessors are reached only through a
    // footer that was PARSED but not VALIDATED): footers that CasObject::deserialize accepts and on which the length accessors panic
    let probe = std::env::var("C07_PROBE_UNVALIDATED_FOOTER").unwrap_or_default();
    if probe == "1" {
        // (1) V0 footer (no unpacked offsets): uncompressed_range_length indexes the empty table
        let mut file = v0_layout(&cashash, &hs, &[10, 20, 30]);
        let il = file.len() as u32;
        file.extend_from_slice(&il.to_le_bytes());
        let cas = CasObject::deserialize(&mut Cursor::new(&file[..])).unwrap();
        let ctx = "V0 footer of 3 chunks parsed by CasObject::deserialize (boundaries_version 0, no unpacked offsets)";
        let _ = guarded(&format!("{ctx}: uncompressed_chunk_length(0)"), || cas.uncompressed_chunk_length(0).is_ok());
        let _ = guarded(&format!("{ctx}: uncompressed_range_length(0, 1)"), || cas.uncompressed_range_length(0, 1).is_ok());
    }
    if probe == "2" {
        // (2) V1 footer with descending unpacked offsets: the subtraction overflows
        let mut file = v1_layout(&cashash, &hs, &[10, 20, 30], &[6, 4, 2]);
        let il = file.len() as u32;
        file.extend_from_slice(&il.to_le_bytes());
        let cas = CasObject::deserialize(&mut Cursor::new(&file[..])).unwrap();
        let ctx = "V1 footer of 3 chunks with unpacked_chunk_offsets [6, 4, 2] parsed by CasObject::deserialize";
        let _ = guarded(&format!("{ctx}: uncompressed_chunk_length(1)"), || cas.uncompressed_chunk_length(1).is_ok());
        let _ = guarded(&format!("{ctx}: uncompressed_range_length(0, 2)"), || cas.uncompressed_range_length(0, 2).is_ok());
    }
}

// ---------------------------------------------------------------------------------------------------------------------------------
// (l) V0-footered xorbs
// ---------------------------------------------------------------------------------------------------------------------------------

fn check_v0_xorb(rt: &tokio::runtime::Runtime, base: &str, bytes: &[u8], footer_at: usize, w: &Walk, t: &Truth, full: bool) {
    let hashes: Vec<MerkleHash> = t.list.iter().map(|x| x.0).collect();
    let n = hashes.len();
    let make = |body: &[u8], cashash: &MerkleHash, hs: &[MerkleHash], bounds: &[u32]| -> Vec<u8> {
        let f = v0_layout(cashash, hs, bounds);
        let mut v = body.to_vec();
        v.extend_from_slice(&f);
        v.extend_from_slice(&(f.len() as u32).to_le_bytes());
        v
    };
    // expectation per validator: Some(true) accept, Some(false) reject, None = either (an acceptance must be sound)
    let run = |what: &str, obj: &[u8], h: &MerkleHash, exp_seek: Option<bool>, exp_stream: Option<bool>| {
        let ctx = format!("{base}, {what}");
        // --- seekable validator: relies on the V0 footer, which has no unpacked offsets
        let seek = guarded(&format!("{ctx}: CasObject::validate_cas_object"), || CasObject::validate_cas_object(&mut Cursor::new(obj), h));
        match seek {
            Ok(Some(cas)) => {
                if exp_seek == Some(false) {
                    witness(format!("{ctx}: the seekable validator ACCEPTS the object for hash {}", h.hex()));
                }
                let i = &cas.info;
                let sound = walk(obj).ok().map(|wk| { let tt = truth_of(&wk.chunks); tt.root == *h && i.cashash == *h && i.num_chunks as usize == tt.list.len() && i.chunk_hashes == tt.list.iter().map(|x| x.0).collect::<Vec<_>>() && i.chunk_boundary_offsets == wk.boundaries }).unwrap_or(false);
                if !sound || i.boundaries_version != 0 || !i.unpacked_chunk_offsets.is_empty() {
                    witness(format!("{ctx}: the seekable validator ACCEPTS the object for hash {} and returns a footer (num_chunks {}, boundaries_version {}, {} unpacked offsets) that does not match the chunk data / the V0 form", h.hex(), i.num_chunks, i.boundaries_version, i.unpacked_chunk_offsets.len()));
                }
                if cas.info_length as usize != obj.len() - footer_at.min(obj.len()) - 4 && exp_seek == Some(true) {
                    witness(format!("{ctx}: the seekable validator returns info_length {}, the V0 footer has {} bytes", cas.info_length, obj.len() - footer_at - 4));
                }
                // the accepted object must be usable as far as a V0 footer allows: ranges by stored offsets; no unpacked lengths (Err, not a panic)
                let r = guarded(&format!("{ctx}: get_all_bytes on the accepted V0 object"), || cas.get_all_bytes(&mut Cursor::new(obj)));
                if r.map(|d| d != w.chunks.concat()).unwrap_or(true) && exp_seek == Some(true) {
                    witness(format!("{ctx}: get_all_bytes on the object accepted by the seekable validator does not return the chunk data"));
                }
                if let Ok(l) = guarded(&format!("{ctx}: uncompressed_chunk_length(0) on the accepted V0 object"), || cas.uncompressed_chunk_length(0)) {
                    witness(format!("{ctx}: uncompressed_chunk_length(0) on an accepted V0 footer (no unpacked offsets) returns Ok({l})"));
                }
            },
            Ok(None) | Err(_) => {
                if exp_seek == Some(true) {
                    witness(format!("{ctx}: the seekable validator REJECTS a well-formed V0 xorb for its own hash {}", h.hex()));
                }
            },
        }
        // --- streaming validator: stops at ident + version 0, builds a new footer, go_back_bytes = 8
        let stream = guarded(&format!("{ctx}: validate_cas_object_from_async_read"), || rt.block_on(async { let mut r: &[u8] = obj; validate_cas_object_from_async_read(&mut r, h).await }));
        match stream {
            Ok(Some((cas, gb))) => {
                if exp_stream == Some(false) {
                    witness(format!("{ctx}: the streaming validator ACCEPTS the object for hash {}", h.hex()));
                }
                let why = match walk(obj) {
                    Err(e) => Some(format!("the chunk section does not decode: {e}")),
                    Ok(wk) => { let tt = truth_of(&wk.chunks); if tt.root != *h { Some(format!("the decoded chunks hash to {}", tt.root.hex())) } else { info_mismatch(&cas, &tt, &wk.boundaries, h) } },
                };
                if let Some(why) = why {
                    witness(format!("{ctx}: the streaming validator ACCEPTS the object for hash {} but {why}", h.hex()));
                }
                if gb != Some(8) || cas.info_length != 0 {
                    witness(format!("{ctx}: the streaming validator accepts the V0 object with go_back_bytes {gb:?} and info_length {}; documented: the 8 bytes of ident + version and 0", cas.info_length));
                }
            },
            Ok(None) | Err(_) => {
                if exp_stream == Some(true) {
                    witness(format!("{ctx}: the streaming validator REJECTS a well-formed V0 xorb for its own hash {}", h.hex()));
                }
            },
        }
        decode_probe_impl(rt, || format!("both validators were run on: {ctx}"), false);
    };
    let body = &bytes[..footer_at];
    let good = make(body, &t.root, &hashes, &w.boundaries);
    run("stored under a V0 footer", &good, &t.root, Some(true), Some(true));
    let mut other = t.root;
    other[0] ^= 1 << 5;
    run("stored under a V0 footer, validated for a hash with one bit changed", &good, &other, Some(false), Some(false));
    if !full {
        return;
    }
    run("stored under a V0 footer naming a hash with one bit changed, validated for that hash", &make(body, &other, &hashes, &w.boundaries), &other, Some(false), Some(false));
    // (the streaming validator never reads a V0 footer, so what the footer says cannot make it reject: soundness decides)
    run("stored under a V0 footer naming a hash with one bit changed, validated for the right hash", &make(body, &other, &hashes, &w.boundaries), &t.root, Some(false), None);
    let mut hs = hashes.clone();
    hs[n / 2][1] ^= 2;
    run(&format!("stored under a V0 footer whose chunk hash #{} has one bit changed", n / 2), &make(body, &t.root, &hs, &w.boundaries), &t.root, Some(false), None);
    let mut b = w.boundaries.clone();
    b[n - 1] += 1;
    run("stored under a V0 footer whose last boundary offset is one too large", &make(body, &t.root, &hashes, &b), &t.root, Some(false), None);
    if n > 1 {
        let mut b = w.boundaries.clone();
        b[0] -= 1;
        run("stored under a V0 footer whose first boundary offset is one too small", &make(body, &t.root, &hashes, &b), &t.root, Some(false), None);
        run("stored under a V0 footer that lists one chunk less", &make(body, &t.root, &hashes[..n - 1], &w.boundaries[..n - 1]), &t.root, Some(false), None);
        let cut = w.boundaries[n - 2] as usize;
        run("minus its last chunk, stored under the V0 footer of the full list", &make(&body[..cut], &t.root, &hashes, &w.boundaries), &t.root, Some(false), Some(false));
    }
    let mut hs2 = hashes.clone(); hs2.push(compute_data_hash(b"")); let mut b2 = w.boundaries.clone(); b2.push(b2[n - 1] + 8);
    run("stored under a V0 footer that lists one chunk more", &make(body, &t.root, &hs2, &b2), &t.root, Some(false), None);
    // payload damaged under the V0 footer (soundness decides: a flipped bit in a compressed payload may be harmless)
    let first_payload = 8 + (w.boundaries[0] as usize - 8) / 2;
    if first_payload < w.boundaries[0] as usize {
        let mut m = good.clone();
        m[first_payload] ^= 0x04;
        run(&format!("stored under a V0 footer, stored byte {first_payload} (payload of chunk 0) changed"), &m, &t.root, None, None);
    }
    // V0 footer cut short / followed by a byte
    run("stored under a V0 footer, last byte missing", &good[..good.len() - 1], &t.root, Some(false), None);
    let mut m = good.clone(); m.push(0);
    run("stored under a V0 footer, one byte appended", &m, &t.root, Some(false), None);
}

// ---------------------------------------------------------------------------------------------------------------------------------
// (m) text forms of hashes, hmac, from_slice
// ---------------------------------------------------------------------------------------------------------------------------------

fn b64url_nopad(b: &[u8]) -> String {
    const A: &[u8; 64] = b"ABCDEFGHIJKLMNOPQRSTUVWXYZabcdefghijklmnopqrstuvwxyz0123456789-_";
    let mut s = String::new();
    for g in b.chunks(3) {
        let v = (g[0] as u32) << 16 | (*g.get(1).unwrap_or(&0) as u32) << 8 | *g.get(2).unwrap_or(&0) as u32;
        for k in 0..g.len() + 1 {
            s.push(A[(v >> (18 - 6 * k) & 63) as usize] as char);
        }
    }
    s
}

fn check_text_forms(rng: &mut StdRng, seed: u64) {
    // the two hash functions against blake3 keyed with the published keys
    for n in [0usize, 1, 63, 64, 65, 1023, 1024, 1025, 4096, 70_000] {
        let d = random(rng, n);
        let (lib_d, own_d) = (compute_data_hash(&d), hash_from_bytes(blake3::keyed_hash(&DATA_KEY, &d).as_bytes()));
        let (lib_i, own_i) = (compute_internal_node_hash(&d), hash_from_bytes(blake3::keyed_hash(&INTERNAL_NODE_KEY, &d).as_bytes()));
        if lib_d != own_d || lib_i != own_i {
            witness(format!("on {n} random bytes (VERIF_SEED={seed}) compute_data_hash / compute_internal_node_hash give {} / {}, blake3 keyed with the published keys gives {} / {}", lib_d.hex(), lib_i.hex(), own_d.hex(), own_i.hex()));
        }
    }
    let mut hashes: Vec<MerkleHash> = vec![
        MerkleHash::default(), MerkleHash::from([u64::MAX; 4]), MerkleHash::from([1, 0, 0, 0]), MerkleHash::from([0, 0, 0, 1]), MerkleHash::from([0, 0, 0, 1 << 63]),
        MerkleHash::from([0x0123_4567_89ab_cdef, 0x0000_0000_0000_000f, 0xf000_0000_0000_0000, 0x00ab_0000_0000_cd00]), MerkleHash::from([0xabcdef, 0xABCDEF00, 10, 16]),
    ];
    for k in 0..256u32 {
        let mut w = [0u64; 4];
        w[(k / 64) as usize] = 1 << (k % 64);
        hashes.push(MerkleHash::from(w));
    }
    for _ in 0..300 {
        hashes.push(MerkleHash::from([rng.random(), rng.random(), rng.random(), rng.random()]));
    }
    let key_a = MerkleHash::from([rng.random(), rng.random(), rng.random(), rng.random()]);
    for h in &hashes {
        let own_hex = format!("{:016x}{:016x}{:016x}{:016x}", h[0], h[1], h[2], h[3]);
        let bytes = hash_bytes(h);
        let own_b64 = b64url_nopad(&bytes);
        let what = format!("hash with the words {:#x?}", [h[0], h[1], h[2], h[3]]);
        let (hx, b6) = (guarded(&what, || h.hex()), guarded(&what, || h.base64()));
        if hx != own_hex || format!("{h}") != own_hex || format!("{h:x}") != own_hex || format!("{h:?}") != own_hex {
            witness(format!("{what}: hex() / Display / LowerHex / Debug give {hx} / {h} / {h:x} / {h:?}, four words of 16 lower-case hex digits are {own_hex}"));
        }
        if b6 != own_b64 {
            witness(format!("{what}: base64() gives {b6}, URL-safe unpadded base64 of the 32 little-endian bytes is {own_b64}"));
        }
        match (guarded(&what, || MerkleHash::from_hex(&hx)), guarded(&what, || MerkleHash::from_base64(&b6))) {
            (Ok(a), Ok(b)) if a == *h && b == *h => {},
            (a, b) => witness(format!("{what}: from_hex(hex()) = {:?}, from_base64(base64()) = {:?}: the text forms do not round-trip", a.map(|x| x.hex()).map_err(|e| e.to_string()), b.map(|x| x.hex()).map_err(|e| e.to_string()))),
        }
        // bytes
        if h.as_bytes() != bytes || <[u8; 32]>::from(*h) != bytes || Vec::<u8>::from(*h) != bytes || MerkleHash::from(bytes) != *h || MerkleHash::from(&bytes) != *h {
            witness(format!("{what}: as_bytes / into [u8; 32] / from [u8; 32] disagree with the little-endian bytes of the four words"));
        }
        match (guarded(&what, || MerkleHash::from_slice(&bytes)), MerkleHash::try_from(&bytes[..])) {
            (Ok(a), Ok(b)) if a == *h && b == *h => {},
            _ => witness(format!("{what}: from_slice / try_from of its own 32 bytes does not give the hash back")),
        }
        // serde text form (hex::serde) and the derived serde form through JSON
        match guarded(&what, || merklehash::data_hash::hex::serde::serialize(h, serde_json::value::Serializer)) {
            Ok(serde_json::Value::String(s)) if s == own_hex => {},
            other => witness(format!("{what}: hex::serde::serialize gives {other:?}, expected the string {own_hex}")),
        }
        match guarded(&what, || merklehash::data_hash::hex::serde::deserialize(serde_json::Value::String(own_hex.clone()))) {
            Ok(a) if a == *h => {},
            other => witness(format!("{what}: hex::serde::deserialize of {own_hex} gives {:?}", other.map(|x| x.hex()).map_err(|e| e.to_string()))),
        }
        match serde_json::to_string(h).ok().and_then(|s| serde_json::from_str::<MerkleHash>(&s).ok()) {
            Some(a) if a == *h => {},
            other => witness(format!("{what}: the serde form does not round-trip through JSON: {:?}", other.map(|x| x.hex()))),
        }
        // hmac = blake3 keyed with the key's bytes over the hash's bytes
        for key in [MerkleHash::default(), key_a, *h] {
            let want = hash_from_bytes(blake3::keyed_hash(&hash_bytes(&key), &bytes).as_bytes());
            let got = guarded(&what, || h.hmac(key));
            if got != want {
                witness(format!("{what}: hmac under key {} gives {}, blake3 keyed with the key bytes over the hash bytes gives {}", key.hex(), got.hex(), want.hex()));
            }
        }
        if h.hmac(MerkleHash::default()) == h.hmac(key_a) || h.hmac(key_a) == *h {
            witness(format!("{what}: hmac does not depend on the key (zero key vs {})", key_a.hex()));
        }
    }
    // strings that are not the text form of any hash.  General rule (round trip): Ok(h) only if re-encoding h gives the string back
    // (hex digits compared case-insensitively: upper-case digits are accepted on HEAD).
    let h = hashes[5];
    let good = h.hex();
    let mut bad_hex: Vec<String> = vec![
        String::new(), good[..63].to_string(), format!("{good}0"), format!("0{good}"), good.repeat(2), format!("0x{}", &good[2..]), format!("{} ", &good[..63]), format!(" {}", &good[1..]),
        good.to_uppercase(), format!("{}{}", good[..32].to_uppercase(), &good[32..]),
        format!("\u{e9}{}", &good[2..]), format!("{}\u{e9}", &good[..62]), format!("{}\u{e9}{}", &good[..15], &good[17..]), format!("{}\u{20ac}{}", &good[..30], &good[33..]),
        "\u{ff10}".repeat(21) + "0", // full-width digits: 64 bytes, no ASCII hex digit
    ];
    for pos in [0usize, 15, 16, 17, 31, 32, 47, 48, 63] {
        for c in ['g', 'G', '+', '-', ' ', '_', 'x', '\0', '\n', '/', ':', '@', '`'] {
            let mut s: Vec<u8> = good.clone().into_bytes();
            s[pos] = c as u8;
            bad_hex.push(String::from_utf8(s).unwrap());
        }
    }
    for s in &bad_hex {
        let what = format!("from_hex({s:?}) ({} bytes)", s.len());
        let is_hex = s.len() == 64 && s.bytes().all(|c| c.is_ascii_hexdigit());
        match guarded(&what, || MerkleHash::from_hex(s)) {
            Ok(x) if is_hex && x.hex() == s.to_lowercase() => {},
            Ok(x) => witness(format!("{what} returns Ok({}) although the string is not 64 hex digits / does not round-trip", x.hex())),
            Err(_) if !is_hex => {},
            Err(_) => witness(format!("{what} is refused although the string consists of 64 hex digits")),
        }
        let _ = guarded(&what, || merklehash::data_hash::hex::serde::deserialize(serde_json::Value::String(s.clone())).map(|x| x.hex()).map_err(|e| e.to_string()));
    }
    let good = h.base64();
    let mut bad_b64: Vec<String> = vec![
        String::new(), good[..42].to_string(), format!("{good}A"), format!("{good}="), format!("{good}=="), format!("{}=", &good[..42]), good.replace('-', "+").replace('_', "/"), format!(" {}", &good[1..]),
        format!("{}\u{e9}", &good[..41]), good.repeat(2), h.hex(),
    ];
    // a last character with non-zero unused bits (43 characters carry 258 bits, 2 must be zero)
    for c in ['B', 'C', 'D', 'F', '_', '9'] {
        bad_b64.push(format!("{}{c}", &good[..42]));
    }
    for pos in [0usize, 21, 41, 42] {
        for c in ['+', '/', '=', '.', ' ', '\n', '~'] {
            let mut s: Vec<u8> = good.clone().into_bytes();
            s[pos] = c as u8;
            bad_b64.push(String::from_utf8(s).unwrap());
        }
    }
    // strings of 43 valid characters for standard-alphabet hashes (the all-ones hash encodes with '_' throughout)
    bad_b64.push(MerkleHash::from([u64::MAX; 4]).base64().replace('_', "/"));
    for s in &bad_b64 {
        let what = format!("from_base64({s:?}) ({} bytes)", s.len());
        match guarded(&what, || MerkleHash::from_base64(s)) {
            Ok(x) if x.base64() == *s && b64url_nopad(&hash_bytes(&x)) == *s => {},
            Ok(x) => witness(format!("{what} returns Ok({}) whose base64 form is {}: the text form does not round-trip", x.hex(), x.base64())),
            Err(_) => {},
        }
    }
    for n in [0usize, 1, 8, 31, 33, 64] {
        let v = vec![7u8; n];
        if guarded("from_slice", || MerkleHash::from_slice(&v)).is_ok() || MerkleHash::try_from(&v[..]).is_ok() {
            witness(format!("MerkleHash::from_slice / try_from accept a slice of {n} bytes"));
        }
    }
}

// ---------------------------------------------------------------------------------------------------------------------------------
// (n) byte grouping variants and the slice / reader codec API
// ---------------------------------------------------------------------------------------------------------------------------------

fn check_bg4_and_codec_api(rng: &mut StdRng) {
    use cas_object::byte_grouping::bg4;
    let own_split = |d: &[u8]| -> Vec<u8> { (0..4).flat_map(|k| d.iter().skip(k).step_by(4).copied().collect::<Vec<u8>>()).collect() };
    let mut lens: Vec<usize> = (0..=70).collect();
    lens.extend([127, 128, 129, 255, 256, 257, 1000, 1001, 1002, 1003, 4096, 65_535, 65_536, 65_537, 131_072]);
    for n in lens {
        let d = if n % 3 == 0 { floats(rng, n) } else { random(rng, n) };
        let what = format!("{n} bytes");
        let g = own_split(&d);
        if bg4_regroup(&g) != d {
            println!("infrastructure: the reference split / regroup are not inverse at {n} bytes");
            std::process::exit(2);
        }
        let sep = guarded(&what, || bg4::bg4_split_separate(&d));
        let answers = [
            ("bg4_split", guarded(&what, || bg4::bg4_split(&d)) == g),
            ("bg4_split_together", guarded(&what, || bg4::bg4_split_together(&d)) == g),
            ("bg4_split_separate", sep.concat() == g && sep[0].len() == n / 4 + (n % 4 >= 1) as usize && sep[1].len() == n / 4 + (n % 4 >= 2) as usize && sep[2].len() == n / 4 + (n % 4 >= 3) as usize && sep[3].len() == n / 4),
            ("bg4_regroup", guarded(&what, || bg4::bg4_regroup(&g)) == d),
            ("bg4_regroup_together", guarded(&what, || bg4::bg4_regroup_together(&g)) == d),
            ("bg4_regroup_together_combined_write_4", guarded(&what, || bg4::bg4_regroup_together_combined_write_4(&g)) == d),
            ("bg4_regroup_together_combined_write_8", guarded(&what, || bg4::bg4_regroup_together_combined_write_8(&g)) == d),
            ("bg4_regroup_separate", guarded(&what, || bg4::bg4_regroup_separate(&sep)) == d),
        ];
        if let Some((f, _)) = answers.iter().find(|a| !a.1) {
            witness(format!("byte grouping of {n} bytes: {f} differs from \"byte k of every 4-byte group goes to plane k, planes concatenated\""));
        }
        // slice / reader API of every scheme
        for scheme in [CompressionScheme::None, CompressionScheme::LZ4, CompressionScheme::ByteGrouping4LZ4] {
            let what = format!("{n} bytes under scheme {scheme:?}");
            let z = guarded(&what, || scheme.compress_from_slice(&d).map(|c| c.into_owned())).unwrap_or_else(|e| witness(format!("compress_from_slice fails on {what}: {e}")));
            if decode_payload(scheme as u8, &z).as_deref() != Some(&d[..]) {
                witness(format!("compress_from_slice of {what} gives {} bytes that do not decode to the input by the format rules", z.len()));
            }
            match guarded(&what, || scheme.decompress_from_slice(&z).map(|c| c.into_owned())) {
                Ok(x) if x == d => {},
                other => witness(format!("decompress_from_slice(compress_from_slice(..)) of {what} gives {:?}", other.map(|x| x.len()).map_err(|e| e.to_string()))),
            }
            let mut out = vec![];
            match guarded(&what, || scheme.decompress_from_reader(&mut Cursor::new(&z[..]), &mut out)) {
                Ok(l) if l as usize == n && out == d => {},
                other => witness(format!("decompress_from_reader of {what} reports {other:?} and writes {} bytes", out.len())),
            }
        }
        let via_fn = [
            ("lz4_compress_from_slice / lz4_decompress_from_slice", guarded(&what, || cas_object::lz4_compress_from_slice(&d).and_then(|z| cas_object::lz4_decompress_from_slice(&z))).ok() == Some(d.clone())),
            ("bg4_lz4_compress_from_slice / bg4_lz4_decompress_from_slice", guarded(&what, || cas_object::bg4_lz4_compress_from_slice(&d).and_then(|z| cas_object::bg4_lz4_decompress_from_slice(&z))).ok() == Some(d.clone())),
            ("bg4_lz4_compress_from_slice (frame of the grouped bytes)", guarded(&what, || cas_object::bg4_lz4_compress_from_slice(&d)).ok().and_then(|z| lz4_frame_decode(&z)) == Some(g.clone())),
        ];
        if let Some((f, _)) = via_fn.iter().find(|a| !a.1) {
            witness(format!("{f} does not round-trip {n} bytes"));
        }
        // automatic selection answers one of the two compressing schemes, the same for the same data
        let c1 = guarded(&what, || CompressionScheme::choose_from_data(&d));
        if c1 == CompressionScheme::None || c1 != CompressionScheme::choose_from_data(&d) {
            witness(format!("choose_from_data on {n} bytes answers {c1:?} / differently on a second call"));
        }
    }
    for v in 0..=255u8 {
        match (CompressionScheme::try_from(v), v) {
            (Ok(CompressionScheme::None), 0) | (Ok(CompressionScheme::LZ4), 1) | (Ok(CompressionScheme::ByteGrouping4LZ4), 2) => {},
            (Err(_), 3..=255) => {},
            (other, _) => witness(format!("CompressionScheme::try_from({v}) gives {:?}", other.map_err(|e| e.to_string()))),
        }
    }
}

// ---------------------------------------------------------------------------------------------------------------------------------
// (p) LocalClient: put stores a xorb that decodes, validates and is read back by get
// ---------------------------------------------------------------------------------------------------------------------------------

fn check_local_client(rt_local: &tokio::runtime::Runtime, lists: &[(String, Vec<Vec<u8>>, bool)]) {
    use cas_client::{LocalClient, UploadClient};
    let rt = tokio::runtime::Builder::new_multi_thread().worker_threads(2).enable_all().build().unwrap();
    let dir = tempfile::tempdir().unwrap();
    let base = dir.path().join("store");
    let client = match catch_unwind(AssertUnwindSafe(|| rt.block_on(async { LocalClient::new(&base, None) }))) {
        Ok(Ok(c)) => c,
        other => {
            println!("infrastructure: LocalClient::new failed: {:?}", other.map(|r| r.map(|_| ()).map_err(|e| e.to_string())).map_err(|_| "panic"));
            std::process::exit(2);
        },
    };
    let mut stored = 0usize;
    for (name, chunks, _) in lists.iter().filter(|l| l.1.iter().all(|c| !c.is_empty()) && l.1.iter().map(|c| c.len()).sum::<usize>() < 300_000).take(14) {
        let ctx = format!("LocalClient over a fresh directory, chunk list '{name}' ({})", describe(chunks));
        let t = truth_of(chunks);
        let data = chunks.concat();
        let cb: Vec<(MerkleHash, u32)> = t.list.iter().zip(&t.unpacked).map(|((h, _), o)| (*h, *o)).collect();
        let n = guarded(&ctx, || rt.block_on(client.put("default", &t.root, data.clone(), cb.clone()))).unwrap_or_else(|e| witness(format!("{ctx}: put fails: {e}")));
        let path = base.join("xorbs").join(format!("default.{}", format!("{:016x}{:016x}{:016x}{:016x}", t.root[0], t.root[1], t.root[2], t.root[3])));
        let file = std::fs::read(&path).unwrap_or_else(|e| witness(format!("{ctx}: put returned Ok({n}) but {path:?} cannot be read: {e}")));
        if n != file.len() {
            witness(format!("{ctx}: put reports {n} bytes written, the xorb file has {}", file.len()));
        }
        match walk(&file) {
            Ok(w) if w.chunks == *chunks && w.footer_at.is_some() => {},
            other => witness(format!("{ctx}: the stored xorb file does not decode to the chunks put: {:?}", other.map(|w| w.chunks.len()))),
        }
        validate_both(rt_local, &format!("{ctx}: the stored xorb file"), &file, &t.root, Expect::Accept, Expect::Accept);
        match guarded(&ctx, || client.get(&t.root)) {
            Ok(d) if d == data => {},
            other => witness(format!("{ctx}: get returns {:?}, {} bytes were put", other.map(|d| d.len()).map_err(|e| e.to_string()), data.len())),
        }
        match guarded(&ctx, || rt.block_on(client.exists("default", &t.root))) {
            Ok(true) => {},
            other => witness(format!("{ctx}: exists answers {other:?} after put")),
        }
        // a second put of the same object writes nothing; the file is unchanged
        match guarded(&ctx, || rt.block_on(client.put("default", &t.root, data.clone(), cb.clone()))) {
            Ok(0) if std::fs::read(&path).ok().as_deref() == Some(&file[..]) => {},
            other => witness(format!("{ctx}: a second put of the same object returns {other:?} / changes the file")),
        }
        stored += 1;
        // arguments that put must refuse: nothing, boundaries not ending at the data's end
        let mut other = t.root;
        other[1] ^= 0xff;
        let mut short = cb.clone();
        short.last_mut().unwrap().1 -= 1;
        for (what, d, c) in [("no data", vec![], cb.clone()), ("no chunk list", data.clone(), vec![]), ("a last boundary one short of the data", data.clone(), short)] {
            if data.len() == 1 && what.starts_with("a last") {
                continue;
            }
            if let Ok(k) = guarded(&ctx, || rt.block_on(client.put("default", &other, d.clone(), c.clone()))) {
                witness(format!("{ctx}: put with {what} returns Ok({k})"));
            }
            if matches!(guarded(&ctx, || rt.block_on(client.exists("default", &other))), Ok(true)) {
                witness(format!("{ctx}: after the refused put with {what} the object exists"));
            }
        }
        match guarded(&ctx, || client.get(&other)) {
            Err(_) => {},
            Ok(d) => witness(format!("{ctx}: get of a hash that was never put returns {} bytes", d.len())),
        }
    }
    if stored < 10 {
        println!("infrastructure: only {stored} lists were put into the LocalClient");
        std::process::exit(2);
    }
    match guarded("LocalClient::get_all_entries", || client.get_all_entries()) {
        Ok(e) if e.len() == stored => {},
        other => witness(format!("LocalClient::get_all_entries lists {:?} entries after {stored} objects were put", other.map(|e| e.len()).map_err(|e| e.to_string()))),
    }
    drop(client);
    drop(rt);
}
