//! Witness search for C07 / C06 / C08: the REAL cas_object chunk codec, xorb serializer and both xorb validators against an
//! independent reference (own chunk-section walker with own LZ4-frame / byte-grouping decoder, own level-wise merkle root built from
//! the published construction), on chunk lists mixing compressible (repetitive, float-like), incompressible and tiny chunks -
//! including chunks whose LZ4 / BG4-LZ4 frame is EXACTLY as long as the chunk (found by a deterministic search) - under the schemes
//! None / LZ4 / ByteGrouping4LZ4 / automatic selection.
//!   (a) serialize_chunk, then the sync, async, stream and single-chunk decoders: same bytes, same boundaries, same reported lengths;
//!   (b) CasObject::serialize: footer fields, get_all_bytes, every chunk range through the range readers, lengths / offsets;
//!   (c) both validators accept the xorb for its own hash (= cas_node_hash = the independent root) and, for every mutation
//!       (other hash, altered payload chunk, swapped chunks under a coherently rewritten footer that keeps cashash, boundaries-section
//!       version 0 with garbage unpacked offsets, byte flips over headers and footer, truncations, random strings), never panic and
//!       accept only if the decoded chunks really hash to the requested hash and the returned footer matches the chunk data.
//!   (d) C06 on synthetic (hash, length) lists: cas_node_hash / file_node_hash == the independent construction for lengths up to
//!       2^62 (in particular 11 and more decimal digits) at every position of lists of 1..9 entries and for long lists whose
//!       interior nodes cover more than 10^10 bytes; lists differing only by 10^10 in one length hash differently;
//!   (e) decoding is a pure function of the bytes: BG4-LZ4 chunks whose data block is intact but whose LZ4 end mark is damaged are
//!       given to every decoder and validator, and after each of these - and after every validator run on a mutated object - a
//!       known-good BG4-LZ4 chunk must decode to its exact bytes on the same thread (sync / async single-chunk decoder, range reader).
//! Prints `WITNESS ...` and exits 1 on the first violation.
use std::io::{Cursor, Read};
use std::panic::{catch_unwind, AssertUnwindSafe};

use cas_object::deserialize_async::{deserialize_chunk as deserialize_chunk_async, deserialize_chunks_from_async_read, deserialize_chunks_from_stream};
use cas_object::{deserialize_chunk, deserialize_chunks, serialize_chunk, validate_cas_object_from_async_read, CasObject, CompressionScheme};
use merklehash::{compute_data_hash, compute_internal_node_hash, MerkleHash};
use rand::rngs::StdRng;
use rand::{Rng, SeedableRng};

type Scheme = Option<CompressionScheme>;
const SCHEMES: [(&str, Scheme); 4] =
    [("None", Some(CompressionScheme::None)), ("LZ4", Some(CompressionScheme::LZ4)), ("ByteGrouping4LZ4", Some(CompressionScheme::ByteGrouping4LZ4)), ("auto", None)];

fn witness(msg: String) -> ! {
    println!("WITNESS {msg}");
    std::process::exit(1);
}

fn guarded<T>(what: &str, f: impl FnOnce() -> T) -> T {
    match catch_unwind(AssertUnwindSafe(f)) {
        Ok(v) => v,
        Err(e) => {
            let msg = e.downcast_ref::<String>().cloned().or_else(|| e.downcast_ref::<&str>().map(|s| s.to_string())).unwrap_or_default();
            witness(format!("{what}: the code under test panicked: {msg}"))
        },
    }
}

// ---------------------------------------------------------------------------------------------------------------------------------
// independent reference
// ---------------------------------------------------------------------------------------------------------------------------------

fn lz4_frame_decode(p: &[u8]) -> Option<Vec<u8>> {
    let mut out = vec![];
    lz4_flex::frame::FrameDecoder::new(p).read_to_end(&mut out).ok()?;
    Some(out)
}

/// inverse of "byte k of every 4-byte group goes to plane k, planes concatenated, leftover bytes go to planes 0,1,2"
fn bg4_regroup(g: &[u8]) -> Vec<u8> {
    let n = g.len();
    let (split, rem) = (n / 4, n % 4);
    let sizes = [split + (rem >= 1) as usize, split + (rem >= 2) as usize, split + (rem >= 3) as usize, split];
    let starts = [0, sizes[0], sizes[0] + sizes[1], sizes[0] + sizes[1] + sizes[2]];
    (0..n).map(|i| g[starts[i % 4] + i / 4]).collect()
}

fn decode_payload(scheme: u8, p: &[u8]) -> Option<Vec<u8>> {
    match scheme {
        0 => Some(p.to_vec()),
        1 => lz4_frame_decode(p),
        2 => lz4_frame_decode(p).map(|g| bg4_regroup(&g)),
        _ => None,
    }
}

struct Walk {
    chunks: Vec<Vec<u8>>,
    schemes: Vec<u8>,
    boundaries: Vec<u32>, // end offset of every stored chunk (header included)
    footer_at: Option<usize>,
}

/// Walks a chunk section: 8-byte headers (version, 3-byte LE stored length, scheme, 3-byte LE unpacked length) each followed by the
/// stored payload, up to the end of input or an 8-byte group that starts with the footer ident.
fn walk(b: &[u8]) -> Result<Walk, String> {
    let mut w = Walk { chunks: vec![], schemes: vec![], boundaries: vec![], footer_at: None };
    let mut pos = 0;
    while pos < b.len() {
        if b.len() - pos < 8 {
            return Err(format!("{} stray bytes at offset {pos}", b.len() - pos));
        }
        let h = &b[pos..pos + 8];
        if &h[..7] == b"XETBLOB" {
            w.footer_at = Some(pos);
            break;
        }
        let clen = h[1] as usize | (h[2] as usize) << 8 | (h[3] as usize) << 16;
        let ulen = h[5] as usize | (h[6] as usize) << 8 | (h[7] as usize) << 16;
        if h[0] != 0 || h[4] > 2 || pos + 8 + clen > b.len() {
            return Err(format!("bad chunk header at offset {pos}"));
        }
        let Some(d) = decode_payload(h[4], &b[pos + 8..pos + 8 + clen]) else {
            return Err(format!("chunk #{} at offset {pos}: header says scheme byte {}, stored length {clen}, unpacked length {ulen}, but the {clen} payload bytes do not decode under that scheme", w.chunks.len(), h[4]));
        };
        if d.len() != ulen {
            return Err(format!("chunk at offset {pos} decodes to {} bytes, header says {ulen}", d.len()));
        }
        pos += 8 + clen;
        w.chunks.push(d);
        w.schemes.push(h[4]);
        w.boundaries.push(pos as u32);
    }
    Ok(w)
}

/// The published aggregate-hash construction: level by level, cut a group after child i when it is the last child, or the group
/// already has >= 2 earlier children and word 3 of child i's hash is 0 mod 4, or it has 8 earlier children; a group's hash is the
/// keyed interior hash of the lines "<hex hash> : <len>\n", its length the sum.  A single entry is its own root; empty -> zero hash.
fn reference_root(list: &[(MerkleHash, usize)]) -> MerkleHash {
    if list.is_empty() {
        return MerkleHash::default();
    }
    let mut level: Vec<(MerkleHash, usize)> = list.to_vec();
    while level.len() > 1 {
        let mut next = vec![];
        let mut start = 0;
        for i in 0..level.len() {
            let earlier = i - start;
            if (earlier >= 2 && level[i].0[3] % 4 == 0) || earlier >= 8 || i + 1 == level.len() {
                let mut text = String::new();
                let mut total = 0;
                for (h, n) in &level[start..=i] {
                    // 64 hex digits = the four 64-bit words, each as 16 lower-case hex digits; the length in plain decimal
                    text.push_str(&format!("{:016x}{:016x}{:016x}{:016x} : {}\n", h[0], h[1], h[2], h[3], n));
                    total += n;
                }
                next.push((compute_internal_node_hash(text.as_bytes()), total));
                start = i + 1;
            }
        }
        level = next;
    }
    level[0].0
}

/// C06 on SYNTHETIC (hash, length) lists (no data needed): cas_node_hash and file_node_hash against the independent construction
/// for extreme lengths - in particular lengths of 11 and more decimal digits - at every position of lists of 1..9 entries, and
/// for long lists whose interior nodes cover more than 10^10 bytes; lists differing by 10^10 in one length must hash differently.
fn check_synthetic_lengths() {
    use merkledb::aggregate_hashes::{cas_node_hash, file_node_hash};
    let lens: [usize; 11] = [0, 1, 9, 10, 1_000_000_000, 9_999_999_999, 10_000_000_000, 10_000_000_001, 13_107_200_000, 1 << 40, usize::MAX / 4];
    let salt = [0x5au8; 32];
    let salted = |root: &MerkleHash| MerkleHash::from(*blake3::keyed_hash(&salt, root.as_bytes()).as_bytes());
    let show = |l: &[(MerkleHash, usize)]| format!("{:?}", l.iter().map(|x| x.1).collect::<Vec<_>>());
    let check = |what: &str, list: &[(MerkleHash, usize)]| -> MerkleHash {
        let want = reference_root(list);
        let got = guarded(what, || cas_node_hash(list));
        if got != want {
            witness(format!("{what}: cas_node_hash over synthetic entries with lengths {} gives {} but the published construction (lines \"<64 hex digits> : <decimal length>\") gives {}", show(list), got.hex(), want.hex()));
        }
        match guarded(what, || file_node_hash(list, &salt)) {
            Ok(f) if f == salted(&want) => {},
            other => witness(format!("{what}: file_node_hash over synthetic entries with lengths {} gives {:?} but the published construction gives {}", show(list), other.map(|h| h.hex()), salted(&want).hex())),
        }
        got
    };
    for variant in 0..3u64 {
        for n in 1..=9usize {
            let base: Vec<(MerkleHash, usize)> = (0..n).map(|k| (compute_data_hash(format!("synthetic entry {variant}/{n}/{k}").as_bytes()), 1000 * (k + 1) + variant as usize)).collect();
            for pos in 0..n {
                let mut roots: Vec<(usize, MerkleHash)> = vec![];
                for &len in &lens {
                    let mut list = base.clone();
                    list[pos].1 = len;
                    let r = check(&format!("list of {n} entries (hash pattern {variant}), entry {pos} of length {len}"), &list);
                    roots.push((len, r));
                }
                if n >= 2 {
                    for (i, a) in roots.iter().enumerate() {
                        if let Some(b) = roots[i + 1..].iter().find(|b| b.1 == a.1) {
                            witness(format!("two lists of {n} entries (hash pattern {variant}) that differ only in the length of entry {pos} ({} vs {}) get the SAME aggregate hash {}", a.0, b.0, a.1.hex()));
                        }
                    }
                }
            }
        }
    }
    // interior nodes covering >= 10^10 bytes although every entry is small
    for (n, each) in [(40usize, 1_000_000_000usize), (40, 3_000_000_001), (200, 64 << 20), (1000, 123_456_789)] {
        let list: Vec<(MerkleHash, usize)> = (0..n).map(|k| (compute_data_hash(format!("long list {n}/{each}/{k}").as_bytes()), each + k)).collect();
        check(&format!("list of {n} entries of about {each} bytes each"), &list);
    }
}

struct Truth {
    list: Vec<(MerkleHash, usize)>,
    unpacked: Vec<u32>,
    root: MerkleHash,
}
fn truth_of(chunks: &[Vec<u8>]) -> Truth {
    let list: Vec<_> = chunks.iter().map(|c| (compute_data_hash(c), c.len())).collect();
    let mut acc = 0u32;
    let unpacked = chunks.iter().map(|c| { acc += c.len() as u32; acc }).collect();
    let root = reference_root(&list);
    Truth { list, unpacked, root }
}

// ---------------------------------------------------------------------------------------------------------------------------------
// inputs
// ---------------------------------------------------------------------------------------------------------------------------------

fn random(rng: &mut StdRng, n: usize) -> Vec<u8> {
    let mut v = vec![0u8; n];
    rng.fill(&mut v[..]);
    v
}
/// little-endian f32 samples of a smooth noisy curve, cut to n bytes (any residue mod 4)
fn floats(rng: &mut StdRng, n: usize) -> Vec<u8> {
    let mut v = Vec::with_capacity(n + 4);
    let mut i = 0u32;
    while v.len() < n {
        let x = 1000.0 + (i as f32 * 0.001).sin() * 3.0 + rng.random_range(0.0..0.01f32);
        v.extend_from_slice(&x.to_le_bytes());
        i += 1;
    }
    v.truncate(n);
    v
}
fn text(n: usize) -> Vec<u8> {
    b"the quick brown fox jumps over the lazy dog; ".iter().cycle().take(n).copied().collect()
}

/// Deterministic search for a chunk whose compressed frame under `pick(chunk)` has exactly the chunk's length: an incompressible
/// prefix followed by a zero run that is grown byte by byte (the saving grows by about one byte per step and crosses the frame overhead).
fn equal_length_chunk(rng: &mut StdRng, pick: impl Fn(&[u8]) -> CompressionScheme) -> Option<Vec<u8>> {
    for n in [3000usize, 1000, 5003, 257] {
        let mut c = random(rng, n);
        for _ in 0..700 {
            let s = pick(&c);
            if s.compress_from_slice(&c).map(|z| z.len()).ok() == Some(c.len()) {
                return Some(c);
            }
            c.push(0);
        }
    }
    None
}

// ---------------------------------------------------------------------------------------------------------------------------------
// (a) chunk codec
// ---------------------------------------------------------------------------------------------------------------------------------

fn describe(chunks: &[Vec<u8>]) -> String {
    let lens: Vec<usize> = chunks.iter().map(|c| c.len()).collect();
    if lens.len() <= 20 { format!("{} chunks of lengths {:?}", lens.len(), lens) } else { format!("{} chunks of lengths {:?}...", lens.len(), &lens[..20]) }
}

fn check_codec(rt: &tokio::runtime::Runtime, list_name: &str, chunks: &[Vec<u8>], sname: &str, scheme: Scheme) -> Vec<u8> {
    let ctx = format!("chunk list '{list_name}' ({}) serialized with scheme {sname}", describe(chunks));
    let mut buf: Vec<u8> = vec![];
    let mut stored = vec![];
    for (i, c) in chunks.iter().enumerate() {
        let before = buf.len();
        let n = guarded(&ctx, || serialize_chunk(c, &mut buf, scheme));
        let n = n.unwrap_or_else(|e| witness(format!("{ctx}: serialize_chunk failed on chunk {i}: {e}")));
        if buf.len() - before != n {
            witness(format!("{ctx}: serialize_chunk reports {n} bytes for chunk {i} but wrote {}", buf.len() - before));
        }
        stored.push(n);
    }
    // the stored form, read with the independent walker
    let w = walk(&buf).unwrap_or_else(|e| witness(format!("{ctx}: the serialized chunk section is not decodable by the format rules: {e}")));
    if w.chunks.len() != chunks.len() || w.chunks.iter().zip(chunks).any(|(a, b)| a != b) {
        let i = w.chunks.iter().zip(chunks).position(|(a, b)| a != b).unwrap_or(w.chunks.len().min(chunks.len()));
        witness(format!("{ctx}: decoding the stored bytes by the format rules gives {} chunks, first difference from the input at chunk {i}", w.chunks.len()));
    }
    if let Some(CompressionScheme::None) = scheme {
        if w.schemes.iter().any(|s| *s != 0) {
            witness(format!("{ctx}: a chunk is stored under scheme byte != 0 although scheme None was requested"));
        }
    }
    let want_data: Vec<u8> = chunks.concat();
    let mut want_idx = vec![0u32];
    for c in chunks {
        want_idx.push(want_idx.last().unwrap() + c.len() as u32);
    }
    let cmp = |which: &str, got: Result<(Vec<u8>, Vec<u32>), String>| {
        match got {
            Err(e) => witness(format!("{ctx}: {which} fails: {e}")),
            Ok((d, idx)) => {
                if idx != want_idx {
                    let i = idx.iter().zip(&want_idx).position(|(a, b)| a != b).unwrap_or(idx.len().min(want_idx.len()));
                    witness(format!(
                        "{ctx}: {which} returns chunk boundaries that differ from the input at entry {i}: got {:?}, input {:?} ({} vs {} entries; chunk {} is stored under scheme byte {} in {} bytes)",
                        idx.get(i), want_idx.get(i), idx.len(), want_idx.len(), i.saturating_sub(1), w.schemes.get(i.saturating_sub(1)).copied().unwrap_or(9), stored.get(i.saturating_sub(1)).copied().unwrap_or(0)
                    ));
                }
                if d != want_data {
                    let i = d.iter().zip(&want_data).position(|(a, b)| a != b).unwrap_or(d.len().min(want_data.len()));
                    witness(format!("{ctx}: {which} returns {} bytes, input has {}; first differing byte at offset {i}", d.len(), want_data.len()));
                }
            },
        }
    };
    cmp("sync deserialize_chunks", guarded(&ctx, || deserialize_chunks(&mut Cursor::new(&buf[..])).map_err(|e| e.to_string())));
    cmp("async deserialize_chunks_from_async_read", guarded(&ctx, || {
        rt.block_on(async { let mut r: &[u8] = &buf; deserialize_chunks_from_async_read(&mut r).await.map_err(|e| e.to_string()) })
    }));
    for piece in [1usize, 7, 4096, usize::MAX] {
        if piece == 1 && buf.len() > 200_000 {
            continue;
        }
        let pieces: Vec<Result<bytes::Bytes, std::io::Error>> = buf.chunks(piece.min(buf.len().max(1))).map(|p| Ok(bytes::Bytes::copy_from_slice(p))).collect();
        cmp(
            &format!("stream deserialize_chunks_from_stream (stream items of {piece} bytes)"),
            guarded(&ctx, || rt.block_on(async { deserialize_chunks_from_stream(futures::stream::iter(pieces)).await.map_err(|e| e.to_string()) })),
        );
    }
    // truncated chunk sections: a decoder returns an error, or - when the cut falls exactly on a chunk boundary - the chunks before
    // the cut; never data that its own boundaries do not cover
    if buf.len() < 400_000 {
        let mut cuts: Vec<usize> = w.boundaries.iter().flat_map(|b| { let b = *b as usize; [b.saturating_sub(1), b, b + 1, b + 4, b + 9] }).filter(|c| *c < buf.len()).collect();
        cuts.extend([1usize, 7, 8, 9, buf.len() / 2, buf.len() - 1]);
        cuts.sort(); cuts.dedup();
        for cut in cuts.into_iter().filter(|c| *c < buf.len()).take(60) {
            let t = &buf[..cut];
            let s_ = guarded(&ctx, || deserialize_chunks(&mut Cursor::new(t)).map_err(|e| e.to_string()));
            let a_ = guarded(&ctx, || rt.block_on(async { let mut r: &[u8] = t; deserialize_chunks_from_async_read(&mut r).await.map_err(|e| e.to_string()) }));
            for (which, r) in [("sync deserialize_chunks", &s_), ("async deserialize_chunks_from_async_read", &a_)] {
                if let Ok((d, idx)) = r {
                    let covered = idx.last().copied().unwrap_or(0) as usize;
                    let k = idx.len().saturating_sub(1);
                    if d.len() != covered || k > chunks.len() || idx[..] != want_idx[..k + 1] || d[..] != want_data[..covered.min(want_data.len())] {
                        witness(format!("{ctx}, chunk section truncated to {cut} of {} bytes: {which} returns Ok with {} bytes but its chunk boundaries {:?} cover {covered} bytes (the input's boundaries are {:?})", buf.len(), d.len(), &idx[idx.len().saturating_sub(3)..], &want_idx[..want_idx.len().min(4)]));
                    }
                }
            }
            // (whether a cut INSIDE a chunk is an error or the clean end of the list differs between the sync and the async decoder on
            // the unchanged tree - the async one treats every UnexpectedEof as the end; that is outside C07, which speaks about
            // serialized chunk lists, so only each decoder's own consistency is required here)
        }
    }
    // single-chunk decoders, chunk after chunk
    let mut sync_r = Cursor::new(&buf[..]);
    let mut async_r: &[u8] = &buf;
    for (i, c) in chunks.iter().enumerate() {
        let s = guarded(&ctx, || deserialize_chunk(&mut sync_r).map_err(|e| e.to_string()));
        let a = guarded(&ctx, || rt.block_on(deserialize_chunk_async(&mut async_r)).map_err(|e| e.to_string()));
        for (which, r) in [("sync deserialize_chunk", s), ("async deserialize_chunk", a)] {
            match r {
                Err(e) => witness(format!("{ctx}: {which} fails on chunk {i}: {e}")),
                Ok((d, clen, ulen)) => {
                    if &d != c || ulen as usize != c.len() || clen != stored[i] {
                        witness(format!(
                            "{ctx}: {which} on chunk {i} (stored under scheme byte {} in {} bytes incl. header) returns {} bytes {}, reported (stored, unpacked) lengths ({clen}, {ulen}); the input chunk has {} bytes",
                            w.schemes[i], stored[i], d.len(), if &d == c { "equal to the input" } else { "DIFFERENT from the input" }, c.len()
                        ));
                    }
                },
            }
        }
    }
    buf
}

// ---------------------------------------------------------------------------------------------------------------------------------
// (b) full xorb
// ---------------------------------------------------------------------------------------------------------------------------------

fn build_xorb(ctx: &str, chunks: &[Vec<u8>], t: &Truth, cashash: &MerkleHash, scheme: Scheme) -> (CasObject, Vec<u8>) {
    let data = chunks.concat();
    let cb: Vec<(MerkleHash, u32)> = t.list.iter().zip(&t.unpacked).map(|((h, _), o)| (*h, *o)).collect();
    let mut cur = Cursor::new(vec![]);
    let r = guarded(ctx, || CasObject::serialize(&mut cur, cashash, &data, &cb, scheme));
    let (cas, n) = r.unwrap_or_else(|e| witness(format!("{ctx}: CasObject::serialize failed: {e}")));
    let bytes = cur.into_inner();
    if n != bytes.len() {
        witness(format!("{ctx}: CasObject::serialize reports {n} bytes, wrote {}", bytes.len()));
    }
    (cas, bytes)
}

fn info_mismatch(cas: &CasObject, t: &Truth, boundaries: &[u32], h: &MerkleHash) -> Option<String> {
    let i = &cas.info;
    if i.cashash != *h {
        return Some(format!("footer cashash {} != requested hash {}", i.cashash.hex(), h.hex()));
    }
    if i.num_chunks as usize != t.list.len() {
        return Some(format!("num_chunks {} but the chunk section holds {}", i.num_chunks, t.list.len()));
    }
    if i.chunk_hashes != t.list.iter().map(|x| x.0).collect::<Vec<_>>() {
        return Some("footer chunk_hashes differ from the hashes of the decoded chunks".into());
    }
    if i.chunk_boundary_offsets != boundaries {
        return Some(format!("footer chunk_boundary_offsets {:?} differ from the stored chunk ends {:?}", &i.chunk_boundary_offsets[..i.chunk_boundary_offsets.len().min(8)], &boundaries[..boundaries.len().min(8)]));
    }
    if i.unpacked_chunk_offsets != t.unpacked {
        return Some(format!("footer unpacked_chunk_offsets {:?} differ from the decoded chunk lengths' prefix sums {:?}", &i.unpacked_chunk_offsets[..i.unpacked_chunk_offsets.len().min(8)], &t.unpacked[..t.unpacked.len().min(8)]));
    }
    None
}

fn check_xorb(rng: &mut StdRng, list_name: &str, chunks: &[Vec<u8>], sname: &str, scheme: Scheme) -> (Vec<u8>, Truth) {
    let ctx = format!("xorb of chunk list '{list_name}' ({}) serialized with scheme {sname}", describe(chunks));
    let t = truth_of(chunks);
    let api: Vec<(MerkleHash, usize)> = t.list.clone();
    let api_hash = guarded(&ctx, || merkledb::aggregate_hashes::cas_node_hash(&api));
    if api_hash != t.root {
        witness(format!("{ctx}: cas_node_hash gives {} but the published construction gives {}", api_hash.hex(), t.root.hex()));
    }
    let (cas, bytes) = build_xorb(&ctx, chunks, &t, &t.root, scheme);
    let w = walk(&bytes).unwrap_or_else(|e| witness(format!("{ctx}: the chunk section is not decodable by the format rules: {e}")));
    if w.chunks.len() != chunks.len() || w.chunks.iter().zip(chunks).any(|(a, b)| a != b) {
        witness(format!("{ctx}: decoding the chunk section by the format rules does not give back the input chunks"));
    }
    let Some(footer_at) = w.footer_at else { witness(format!("{ctx}: no footer after the chunk section")) };
    if let Some(m) = info_mismatch(&cas, &t, &w.boundaries, &t.root) {
        witness(format!("{ctx}: the CasObject returned by serialize is wrong: {m}"));
    }
    let parsed = guarded(&ctx, || CasObject::deserialize(&mut Cursor::new(&bytes[..])));
    let parsed = parsed.unwrap_or_else(|e| witness(format!("{ctx}: CasObject::deserialize fails on the freshly serialized xorb: {e}")));
    if parsed != cas {
        witness(format!("{ctx}: CasObject::deserialize returns a footer different from the one serialize returned"));
    }
    if bytes.len() != footer_at + cas.info_length as usize + 4 {
        witness(format!("{ctx}: info_length {} does not match the footer size {}", cas.info_length, bytes.len() - footer_at - 4));
    }
    let r = &mut Cursor::new(&bytes[..]);
    let all = guarded(&ctx, || parsed.get_all_bytes(r)).unwrap_or_else(|e| witness(format!("{ctx}: get_all_bytes fails: {e}")));
    let data = chunks.concat();
    if all != data {
        witness(format!("{ctx}: get_all_bytes returns {} bytes that differ from the {} input bytes", all.len(), data.len()));
    }
    match guarded(&ctx, || parsed.get_contents_length()) {
        Ok(n) if n as usize == footer_at => {},
        other => witness(format!("{ctx}: get_contents_length gives {other:?}, the chunk section ends at {footer_at}")),
    }
    let n = chunks.len();
    let mut ranges: Vec<(usize, usize)> = vec![];
    if n <= 16 {
        for i in 0..n { for j in i + 1..=n { ranges.push((i, j)); } }
    } else {
        for i in 0..n { ranges.push((i, i + 1)); }
        ranges.push((0, n));
        for _ in 0..60 { let i = rng.random_range(0..n); let j = rng.random_range(i + 1..=n); ranges.push((i, j)); }
    }
    let off = |k: usize| if k == 0 { 0usize } else { t.unpacked[k - 1] as usize };
    let phys = |k: usize| if k == 0 { 0u32 } else { w.boundaries[k - 1] };
    for (i, j) in ranges {
        let got = guarded(&ctx, || parsed.get_bytes_by_chunk_range(r, i as u32, j as u32));
        match got {
            Ok(d) if d == data[off(i)..off(j)] => {},
            Ok(d) => witness(format!("{ctx}: get_bytes_by_chunk_range({i}, {j}) returns {} bytes, the input range has {} bytes{}", d.len(), off(j) - off(i), if d.len() == off(j) - off(i) { " with different content" } else { "" })),
            Err(e) => witness(format!("{ctx}: get_bytes_by_chunk_range({i}, {j}) fails: {e}")),
        }
        match guarded(&ctx, || parsed.get_byte_offset(i as u32, j as u32)) {
            Ok(p) if p == (phys(i), phys(j)) => {},
            other => witness(format!("{ctx}: get_byte_offset({i}, {j}) gives {other:?}, the stored chunks occupy [{}, {})", phys(i), phys(j))),
        }
        match guarded(&ctx, || parsed.uncompressed_range_length(i as u32, j as u32)) {
            Ok(l) if l as usize == off(j) - off(i) => {},
            other => witness(format!("{ctx}: uncompressed_range_length({i}, {j}) gives {other:?}, the input range has {} bytes", off(j) - off(i))),
        }
    }
    for i in 0..n {
        match guarded(&ctx, || parsed.uncompressed_chunk_length(i as u32)) {
            Ok(l) if l as usize == chunks[i].len() => {},
            other => witness(format!("{ctx}: uncompressed_chunk_length({i}) gives {other:?}, the chunk has {} bytes", chunks[i].len())),
        }
    }
    (bytes, t)
}

// ---------------------------------------------------------------------------------------------------------------------------------
// (c) validators
// ---------------------------------------------------------------------------------------------------------------------------------

#[derive(Clone, Copy, PartialEq)]
enum Expect {
    Accept,
    Reject,
    /// accepted or rejected, but an acceptance must be justified by the bytes
    Sound,
}

// ---------------------------------------------------------------------------------------------------------------------------------
// decoding is a pure function of the serialized bytes: after ANY decode attempt that may have failed on this thread, a known-good
// ByteGrouping4LZ4 chunk must still decode to its exact bytes through every decoder
// ---------------------------------------------------------------------------------------------------------------------------------

/// f32 values in [1, 2): constant sign / exponent byte, so byte grouping pays off and the chunk is really stored as BG4-LZ4
fn unit_floats(seed: u64, n_floats: usize, tail: usize) -> Vec<u8> {
    let mut x = seed.wrapping_mul(0x9E37_79B9_7F4A_7C15) | 1;
    let mut out = Vec::with_capacity(4 * n_floats + tail);
    for _ in 0..n_floats {
        x ^= x << 13; x ^= x >> 7; x ^= x << 17;
        let v = 1.0f32 + ((x >> 40) as f32 / (1u64 << 24) as f32) * 0.999;
        out.extend_from_slice(&v.to_le_bytes());
    }
    out.extend((0..tail).map(|i| i as u8));
    out
}

struct Probe {
    chunk: Vec<u8>,
    stored: Vec<u8>,
    xorb_tail: Vec<u8>,
    xorb: Vec<u8>,
    cas: CasObject,
}
static PROBE: std::sync::OnceLock<Probe> = std::sync::OnceLock::new();
static N_PROBES: std::sync::atomic::AtomicUsize = std::sync::atomic::AtomicUsize::new(0);

fn probe() -> &'static Probe {
    PROBE.get_or_init(|| {
        let chunk = unit_floats(1, 120, 1);
        let mut stored = vec![];
        serialize_chunk(&chunk, &mut stored, Some(CompressionScheme::ByteGrouping4LZ4)).unwrap();
        let xorb_chunks: Vec<Vec<u8>> = (0..3).map(|k| unit_floats(10 + k, 90 + 7 * k as usize, k as usize)).collect();
        let t = truth_of(&xorb_chunks);
        let data = xorb_chunks.concat();
        let cb: Vec<(MerkleHash, u32)> = t.list.iter().zip(&t.unpacked).map(|((h, _), o)| (*h, *o)).collect();
        let mut cur = Cursor::new(vec![]);
        let (cas, _) = CasObject::serialize(&mut cur, &t.root, &data, &cb, Some(CompressionScheme::ByteGrouping4LZ4)).unwrap();
        let xorb = cur.into_inner();
        if stored[4] != 2 || xorb[4] != 2 {
            println!("infrastructure: the probe chunks are not stored as ByteGrouping4LZ4");
            std::process::exit(2);
        }
        let xorb_tail = xorb_chunks[1..].concat();
        Probe { chunk, stored, xorb_tail, xorb, cas }
    })
}

/// Decodes the known-good BG4-LZ4 data on this thread through the sync and async single-chunk decoders and the xorb range reader.
fn decode_probe(rt: &tokio::runtime::Runtime, after: impl Fn() -> String) {
    decode_probe_impl(rt, after, true)
}
/// `full` = all three decoders; otherwise only the sync single-chunk decoder (any decoder would trip over left-over state, and the
/// tripping decode also clears it, so one decode per possibly failed attempt is enough; every 16th call is a full one anyway)
fn decode_probe_impl(rt: &tokio::runtime::Runtime, after: impl Fn() -> String, full: bool) {
    let p = probe();
    let n = N_PROBES.fetch_add(1, std::sync::atomic::Ordering::Relaxed);
    let full = full || n % 16 == 0;
    let ctx = || format!("decoding a valid ByteGrouping4LZ4 chunk of {} bytes (f32 data) on the same thread right after {}", p.chunk.len(), after());
    let judge = |which: &str, r: Result<(Vec<u8>, usize, u32), String>| match r {
        Ok((d, c, u)) if d == p.chunk && c == p.stored.len() && u as usize == p.chunk.len() => {},
        Ok((d, c, u)) => witness(format!("{}: {which} returns {} bytes {}(reported stored / unpacked lengths {c} / {u}; the chunk has {} bytes stored in {})", ctx(), d.len(), if d == p.chunk { "" } else { "that differ from the chunk " }, p.chunk.len(), p.stored.len())),
        Err(e) => witness(format!("{}: {which} fails: {e}", ctx())),
    };
    let quiet = |f: &mut dyn FnMut() -> Result<(Vec<u8>, usize, u32), String>| -> Result<(Vec<u8>, usize, u32), String> {
        catch_unwind(AssertUnwindSafe(f)).unwrap_or_else(|_| Err("panic".into()))
    };
    judge("sync deserialize_chunk", quiet(&mut || deserialize_chunk(&mut Cursor::new(&p.stored[..])).map_err(|e| e.to_string())));
    if !full {
        return;
    }
    judge("async deserialize_chunk", quiet(&mut || rt.block_on(async { let mut r: &[u8] = &p.stored; deserialize_chunk_async(&mut r).await }).map_err(|e| e.to_string())));
    match catch_unwind(AssertUnwindSafe(|| p.cas.get_bytes_by_chunk_range(&mut Cursor::new(&p.xorb[..]), 1, 3).map_err(|e| e.to_string()))).unwrap_or_else(|_| Err("panic".into())) {
        Ok(d) if d == p.xorb_tail => {},
        Ok(d) => witness(format!("{}: get_bytes_by_chunk_range(1, 3) on a valid 3-chunk BG4-LZ4 xorb returns {} bytes that differ from the {} stored ones", ctx(), d.len(), p.xorb_tail.len())),
        Err(e) => witness(format!("{}: get_bytes_by_chunk_range(1, 3) on a valid 3-chunk BG4-LZ4 xorb fails: {e}", ctx())),
    }
}

/// BG4-LZ4 chunks whose single data block is intact but whose trailing 4-byte LZ4 end mark is damaged (it then reads as the header
/// of a further block): every decoder must fail on them, and must leave no trace for the next decode.
fn check_damaged_end_mark(rt: &tokio::runtime::Runtime) {
    for (k, (n_floats, tail)) in [(3000usize, 3usize), (17, 0), (4097, 2), (1, 1), (800, 1)].into_iter().enumerate() {
        let victim = unit_floats(100 + k as u64, n_floats, tail);
        let mut good = vec![];
        serialize_chunk(&victim, &mut good, Some(CompressionScheme::ByteGrouping4LZ4)).unwrap();
        if good[4] != 2 || good[good.len() - 4..] != [0, 0, 0, 0] {
            continue; // stored raw (tiny chunk) or unexpected frame layout: nothing to damage here
        }
        let n = good.len();
        for (at, val) in [(n - 4, 0x10u8), (n - 4, 0x01), (n - 3, 0x01), (n - 1, 0x80), (n - 2, 0x7f)] {
            let mut bad = good.clone();
            bad[at] = val;
            let what = format!("a ByteGrouping4LZ4 chunk of {} bytes ({n} stored) whose LZ4 end mark is damaged (stored byte {at} set to {val:#04x})", victim.len());
            let h = compute_data_hash(&victim);
            let still_decodes = walk(&bad).map(|w| w.chunks.len() == 1 && w.chunks[0] == victim).unwrap_or(false);
            let attempts: Vec<(&str, Box<dyn Fn() -> bool + '_>)> = vec![
                ("sync deserialize_chunk", Box::new(|| deserialize_chunk(&mut Cursor::new(&bad[..])).map(|r| r.0 == victim).unwrap_or(true))),
                ("async deserialize_chunk", Box::new(|| rt.block_on(async { let mut r: &[u8] = &bad; deserialize_chunk_async(&mut r).await }).map(|r| r.0 == victim).unwrap_or(true))),
                // (the multi-chunk decoders take an unexpected end of input inside a chunk as the end of the chunk list: "no chunk,
                // no bytes" is a consistent answer for them)
                ("sync deserialize_chunks", Box::new(|| deserialize_chunks(&mut Cursor::new(&bad[..])).map(|r| r.0 == victim || (r.0.is_empty() && r.1 == [0])).unwrap_or(true))),
                ("async deserialize_chunks_from_async_read", Box::new(|| rt.block_on(async { let mut r: &[u8] = &bad; deserialize_chunks_from_async_read(&mut r).await }).map(|r| r.0 == victim || (r.0.is_empty() && r.1 == [0])).unwrap_or(true))),
                // (an acceptance is sound only if the damaged bytes still decode, by the format rules, to the chunk - e.g. an end mark
                // turned into an empty stored block)
                ("the seekable validator", Box::new(|| !matches!(CasObject::validate_cas_object(&mut Cursor::new(&bad[..]), &h), Ok(Some(_))) || still_decodes)),
                ("the streaming validator", Box::new(|| !matches!(rt.block_on(async { let mut r: &[u8] = &bad; validate_cas_object_from_async_read(&mut r, &h).await }), Ok(Some(_))) || still_decodes)),
            ];
            for (which, attempt) in attempts {
                // a decoder may fail (expected) or, if the damage happens to be harmless, return the right bytes - never wrong ones
                if !guarded(&format!("{which} on {what}"), || attempt()) {
                    witness(format!("{which} on {what} returns bytes that are not the chunk's / accepts the object"));
                }
                decode_probe(rt, || format!("{which} was given {what}"));
            }
        }
    }
}

/// Runs both validators on `bytes` for hash `h`.  Soundness oracle for an acceptance: the chunk section decodes by the format rules,
/// the decoded chunks' independent root equals `h`, and the returned footer equals what the chunk data dictates.
fn validate_both(rt: &tokio::runtime::Runtime, ctx: &str, bytes: &[u8], h: &MerkleHash, expect_seek: Expect, expect_stream: Expect) {
    let judge = |which: &str, accepted: Option<CasObject>, expect: Expect, errored: Option<String>| {
        match accepted {
            Some(cas) => {
                if expect == Expect::Reject {
                    // still explain with the soundness oracle where possible
                    let why = match walk(bytes) {
                        Err(e) => format!("the chunk section does not decode ({e})"),
                        Ok(w) => {
                            let t = truth_of(&w.chunks);
                            if t.root != *h { format!("the decoded chunks hash to {} and not to the requested {}", t.root.hex(), h.hex()) } else { info_mismatch(&cas, &t, &w.boundaries, h).unwrap_or_else(|| "it is not a well-formed xorb".into()) }
                        },
                    };
                    witness(format!("{ctx}: {which} ACCEPTS the object for hash {} although {why}", h.hex()));
                }
                let w = walk(bytes).unwrap_or_else(|e| witness(format!("{ctx}: {which} ACCEPTS the object although its chunk section does not decode: {e}")));
                let t = truth_of(&w.chunks);
                if t.root != *h {
                    witness(format!("{ctx}: {which} ACCEPTS the object for hash {} but its decoded chunks hash to {}", h.hex(), t.root.hex()));
                }
                if let Some(m) = info_mismatch(&cas, &t, &w.boundaries, h) {
                    witness(format!("{ctx}: {which} ACCEPTS the object for hash {} and returns a footer that does not match the chunk data: {m}", h.hex()));
                }
                // the accepted object must be usable
                for k in 0..cas.info.num_chunks {
                    match guarded(&format!("{ctx}: uncompressed_chunk_length({k}) on the footer accepted by {which}"), || cas.uncompressed_chunk_length(k)) {
                        Ok(l) if l as usize == t.list[k as usize].1 => {},
                        other => witness(format!("{ctx}: {which} accepted the object, but uncompressed_chunk_length({k}) on the returned footer gives {other:?}, the chunk has {} bytes", t.list[k as usize].1)),
                    }
                }
            },
            None => {
                if expect == Expect::Accept {
                    witness(format!("{ctx}: {which} REJECTS a well-formed xorb for its own hash {}{}", h.hex(), errored.map(|e| format!(" (error: {e})")).unwrap_or_default()));
                }
            },
        }
    };
    let seek = guarded(&format!("{ctx}: CasObject::validate_cas_object"), || CasObject::validate_cas_object(&mut Cursor::new(bytes), h));
    match seek {
        Ok(Some(cas)) => judge("the seekable validator CasObject::validate_cas_object", Some(cas), expect_seek, None),
        Ok(None) => judge("the seekable validator CasObject::validate_cas_object", None, expect_seek, None),
        Err(e) => judge("the seekable validator CasObject::validate_cas_object", None, expect_seek, Some(e.to_string())),
    }
    let stream = guarded(&format!("{ctx}: validate_cas_object_from_async_read"), || {
        rt.block_on(async { let mut r: &[u8] = bytes; validate_cas_object_from_async_read(&mut r, h).await })
    });
    match stream {
        Ok(Some((cas, _))) => judge("the streaming validator validate_cas_object_from_async_read", Some(cas), expect_stream, None),
        Ok(None) => judge("the streaming validator validate_cas_object_from_async_read", None, expect_stream, None),
        Err(e) => judge("the streaming validator validate_cas_object_from_async_read", None, expect_stream, Some(e.to_string())),
    }
    decode_probe_impl(rt, || format!("both validators were run on: {ctx}"), false);
}

fn check_validators(rt: &tokio::runtime::Runtime, rng: &mut StdRng, list_name: &str, chunks: &[Vec<u8>], sname: &str, scheme: Scheme, bytes: &[u8], t: &Truth, exhaustive: bool) {
    use Expect::*;
    let base = format!("xorb of chunk list '{list_name}' ({}) serialized with scheme {sname}", describe(chunks));
    let w = walk(bytes).unwrap();
    let footer_at = w.footer_at.unwrap();
    let n = chunks.len();
    // 1. own hash
    validate_both(rt, &base, bytes, &t.root, Accept, Accept);
    validate_both(rt, &format!("{base}, sent without footer"), &bytes[..footer_at], &t.root, Reject, Accept);
    // 2. another hash
    let mut other = t.root;
    other[1] ^= 1 << 17;
    validate_both(rt, &format!("{base}, validated for a hash with one bit changed"), bytes, &other, Reject, Reject);
    validate_both(rt, &format!("{base}, sent without footer, validated for a hash with one bit changed"), &bytes[..footer_at], &other, Reject, Reject);
    let shorter = truth_of(&chunks[..n - 1]);
    if n > 1 {
        validate_both(rt, &format!("{base}, validated for the hash of the list without its last chunk"), bytes, &shorter.root, Reject, Reject);
    }
    // 3. a payload chunk altered (well-formed replacement chunk of the same length), footer kept / no footer
    for k in [0, n / 2, n - 1] {
        let mut alt = chunks.to_vec();
        let m = alt[k].len();
        alt[k][m / 2] ^= 0x40;
        let mut body = vec![];
        for c in &alt {
            serialize_chunk(c, &mut body, scheme).unwrap();
        }
        let mut with_footer = body.clone();
        with_footer.extend_from_slice(&bytes[footer_at..]);
        validate_both(rt, &format!("{base}, chunk {k} replaced by a chunk differing in one byte, original footer kept"), &with_footer, &t.root, Reject, Reject);
        validate_both(rt, &format!("{base}, chunk {k} replaced by a chunk differing in one byte, sent without footer"), &body, &t.root, Reject, Reject);
    }
    // raw flips inside stored payloads
    for _ in 0..6 {
        let k = rng.random_range(0..n);
        let (a, b) = (if k == 0 { 0 } else { w.boundaries[k - 1] as usize } + 8, w.boundaries[k] as usize);
        if a >= b {
            continue;
        }
        let p = rng.random_range(a..b);
        let mut m = bytes.to_vec();
        m[p] ^= 1 << rng.random_range(0..8);
        let what = format!("{base}, bit flipped in the stored payload of chunk {k} at offset {p}");
        // a flipped bit in a COMPRESSED payload may decode to the same bytes (an LZ4 match offset into a run of equal bytes, an unused
        // frame bit): an acceptance is then sound, so the oracle is soundness, not rejection
        validate_both(rt, &what, &m, &t.root, Sound, Sound);
        validate_both(rt, &format!("{what}, sent without footer"), &m[..footer_at], &t.root, Sound, Sound);
    }
    // 4. two different chunks swapped, footer rewritten coherently for the swapped data (serialize_given_info) but cashash kept
    if let Some((i, j)) = (0..n).flat_map(|i| (i + 1..n).map(move |j| (i, j))).find(|(i, j)| chunks[*i] != chunks[*j]) {
        let mut sw = chunks.to_vec();
        sw.swap(i, j);
        let ts = truth_of(&sw);
        if ts.root != t.root {
            let (cas_sw, bytes_sw) = build_xorb(&base, &sw, &ts, &ts.root, scheme);
            let body_len = walk(&bytes_sw).unwrap().footer_at.unwrap();
            let mut info = cas_sw.info.clone();
            info.cashash = t.root;
            let mut cur = Cursor::new(bytes_sw[..body_len].to_vec());
            cur.set_position(body_len as u64);
            CasObject::serialize_given_info(&mut cur, info).unwrap();
            let forged = cur.into_inner();
            validate_both(rt, &format!("{base}, chunks {i} and {j} swapped and the footer's chunk_hashes / offsets rewritten for the swapped data while cashash keeps the original hash"), &forged, &t.root, Reject, Reject);
            // same with one chunk dropped
            if n > 2 {
                let (cas_d, bytes_d) = build_xorb(&base, &chunks[..n - 1], &shorter, &shorter.root, scheme);
                let bl = walk(&bytes_d).unwrap().footer_at.unwrap();
                let mut info = cas_d.info.clone();
                info.cashash = t.root;
                let mut cur = Cursor::new(bytes_d[..bl].to_vec());
                cur.set_position(bl as u64);
                CasObject::serialize_given_info(&mut cur, info).unwrap();
                validate_both(rt, &format!("{base}, last chunk dropped and the footer rewritten for the shorter data while cashash keeps the original hash"), &cur.into_inner(), &t.root, Reject, Reject);
            }
        }
    }
    // 5. boundaries-section version byte set to 0 and garbage unpacked offsets
    let bsec = footer_at + 40 + 12 + 32 * n;
    if &bytes[bsec..bsec + 7] == b"XBLBBND" && bytes[bsec + 7] == 1 {
        let mut m = bytes.to_vec();
        m[bsec + 7] = 0;
        validate_both(rt, &format!("{base}, boundaries-section version byte (footer offset {}) set to 0", bsec - footer_at), &m, &t.root, Sound, Sound);
        let up = bsec + 12 + 4 * n;
        for k in 0..n {
            let g = (0x7000_0000u32 - 977 * k as u32).to_le_bytes(); // descending garbage
            m[up + 4 * k..up + 4 * k + 4].copy_from_slice(&g);
        }
        validate_both(rt, &format!("{base}, boundaries-section version byte (footer offset {}) set to 0 and the {n} unpacked_chunk_offsets overwritten with descending garbage", bsec - footer_at), &m, &t.root, Reject, Reject);
        let mut m2 = bytes.to_vec();
        for k in 0..n {
            let g = (0x7000_0000u32 - 977 * k as u32).to_le_bytes();
            m2[up + 4 * k..up + 4 * k + 4].copy_from_slice(&g);
        }
        validate_both(rt, &format!("{base}, the {n} unpacked_chunk_offsets overwritten with garbage (version byte kept)"), &m2, &t.root, Reject, Reject);
    } else {
        witness(format!("{base}: footer layout unexpected: no boundaries section ident at footer offset {}", bsec - footer_at));
    }
    // 6. truncations
    let mut cuts = vec![0usize, 1, 3, 7, 8, 9, footer_at - 1, footer_at + 1, footer_at + 8, footer_at + 40, bytes.len() - 5, bytes.len() - 4, bytes.len() - 1];
    cuts.extend(w.boundaries[..n - 1].iter().take(3).map(|b| *b as usize));
    cuts.push(w.boundaries[0] as usize / 2 + 4);
    for c in cuts {
        if c >= bytes.len() || c == footer_at {
            continue; // (the cut at the end of the chunk section is the footer-less form checked above)
        }
        validate_both(rt, &format!("{base}, truncated to its first {c} of {} bytes", bytes.len()), &bytes[..c], &t.root, Reject, Reject);
    }
    // 7. byte flips over every chunk header and the whole footer (soundness oracle decides)
    if exhaustive {
        let mut positions: Vec<usize> = (footer_at..bytes.len()).collect();
        for k in 0..n {
            let s = if k == 0 { 0 } else { w.boundaries[k - 1] as usize };
            positions.extend(s..s + 8);
        }
        for p in positions {
            for x in [0x01u8, 0x80, 0xFF] {
                let mut m = bytes.to_vec();
                m[p] ^= x;
                validate_both(rt, &format!("{base}, byte at offset {p} (footer starts at {footer_at}) xored with {x:#04x}"), &m, &t.root, Sound, Sound);
            }
        }
    }
}

fn main() {
    let seed = std::env::var("VERIF_SEED").ok().and_then(|s| s.parse().ok()).unwrap_or(0u64);
    let mut rng = StdRng::seed_from_u64(seed);
    let rt = tokio::runtime::Builder::new_current_thread().build().unwrap();
    std::panic::set_hook(Box::new(|_| {}));
    let maxc = merkledb::constants::MAXIMUM_CHUNK_SIZE;

    let eq_lz4 = equal_length_chunk(&mut rng, |_| CompressionScheme::LZ4);
    let eq_bg4 = equal_length_chunk(&mut rng, |_| CompressionScheme::ByteGrouping4LZ4);
    let eq_auto = equal_length_chunk(&mut rng, CompressionScheme::choose_from_data);
    let eqs: Vec<Vec<u8>> = [eq_lz4, eq_bg4, eq_auto].into_iter().flatten().collect();
    if eqs.len() < 3 {
        eprintln!("note: only {} of 3 equal-length chunks found", eqs.len());
    }

    check_synthetic_lengths();
    decode_probe(&rt, || "program start".to_string());
    check_damaged_end_mark(&rt);

    let mut lists: Vec<(String, Vec<Vec<u8>>, bool)> = vec![];
    // small list for the exhaustive flips: compressible, incompressible, tiny, equal-length
    let mut small = vec![text(700), random(&mut rng, 300), vec![0x5a], floats(&mut rng, 1027)];
    small.extend(eqs.iter().take(1).cloned());
    lists.push(("small mixed".into(), small, true));
    let mut mixed = vec![
        random(&mut rng, 1), random(&mut rng, 5), vec![0u8; 70_000], floats(&mut rng, 4 * 4096 + 1), random(&mut rng, 3000), text(1000),
        random(&mut rng, 2), floats(&mut rng, 1003), floats(&mut rng, 1002), random(&mut rng, maxc), vec![0u8; maxc], vec![0u8], text(1000),
    ];
    for (k, e) in eqs.iter().enumerate() {
        mixed.insert(3 + 2 * k, e.clone());
    }
    lists.push(("mixed with equal-length, maximum-size and duplicate chunks".into(), mixed, false));
    for (k, e) in eqs.iter().enumerate() {
        lists.push((format!("single chunk whose {} frame is exactly as long as the chunk", ["LZ4", "BG4-LZ4", "auto-selected"][k]), vec![e.clone()], false));
    }
    lists.push(("single 1-byte chunk".into(), vec![vec![7u8]], false));
    lists.push(("single float chunk".into(), vec![floats(&mut rng, 30_001)], false));
    let tiny: Vec<Vec<u8>> = (0..300).map(|i| match i % 3 { 0 => random(&mut rng, 1 + i % 17), 1 => vec![i as u8; 1 + i % 23], _ => floats(&mut rng, 4 + i % 9) }).collect();
    lists.push(("300 tiny chunks".into(), tiny, false));
    // every small chunk count, several hash patterns each: the level-wise tree construction cuts on hash values, so short lists
    // (in particular 2..8 entries) take different shapes depending on the chunk hashes
    for n in 1..=12usize {
        for v in 0..8usize {
            let few: Vec<Vec<u8>> = (0..n).map(|i| random(&mut rng, 3 + (i * 7 + v) % 11)).collect();
            lists.push((format!("{n} tiny random chunks (variant {v})"), few, false));
        }
    }
    // more chunks than the footer parsers' pre-allocation cap (AVERAGE_NUM_CHUNKS_PER_XORB * 9 / 8 = 1152), up to the format's usual maximum
    for n in [1152usize, 1153, 3000, 8192] {
        let many: Vec<Vec<u8>> = (0..n).map(|i| vec![(i % 251) as u8; 1 + i % 5]).collect();
        lists.push((format!("{n} chunks of 1..5 bytes"), many, false));
    }
    let residues: Vec<Vec<u8>> = (1..=11usize).chain(20_000..20_004).map(|n| floats(&mut rng, n)).collect();
    lists.push(("float data of every length residue mod 4".into(), residues, false));

    for (name, chunks, exhaustive) in &lists {
        for (sname, scheme) in SCHEMES {
            check_codec(&rt, name, chunks, sname, scheme);
            let (bytes, t) = check_xorb(&mut rng, name, chunks, sname, scheme);
            check_validators(&rt, &mut rng, name, chunks, sname, scheme, &bytes, &t, *exhaustive);
        }
    }
    // hand-built chunk sections whose headers are individually within the limits but do not describe their payload: a STORED chunk
    // (scheme 0) whose stored length differs from its unpacked length (padding between chunks / a chunk overlapping its successor),
    // as first, middle and last chunk, with a footer that is consistent with the headers and a root over what a reader trusting the
    // unpacked length would take.  The oracle is soundness: an acceptance needs a chunk section that decodes by the format rules.
    {
        use cas_object::CasObjectInfoV1;
        let hdr = |c: usize, scheme: u8, u: usize| -> [u8; 8] { [0, c as u8, (c >> 8) as u8, (c >> 16) as u8, scheme, u as u8, (u >> 8) as u8, (u >> 16) as u8] };
        for bad_at in 0..3usize {
            for (clen, ulen) in [(116usize, 100usize), (40, 100), (100, 99), (99, 100)] {
                let mut body: Vec<u8> = vec![];
                let mut bounds: Vec<u32> = vec![];
                let mut starts: Vec<usize> = vec![];
                let mut ulens: Vec<usize> = vec![];
                for k in 0..3usize {
                    let (c, u) = if k == bad_at { (clen, ulen) } else { (80, 80) };
                    body.extend_from_slice(&hdr(c, 0, u));
                    starts.push(body.len());
                    body.extend((0..c).map(|i| (i as u8).wrapping_mul(31).wrapping_add(k as u8 * 17 + 3)));
                    bounds.push(body.len() as u32);
                    ulens.push(u);
                }
                body.extend_from_slice(&[0xEE; 64]); // so that an over-long read of the last chunk stays inside the buffer
                let body_len = *bounds.last().unwrap() as usize;
                let taken: Vec<Vec<u8>> = (0..3).map(|k| body[starts[k]..starts[k] + ulens[k]].to_vec()).collect();
                body.truncate(body_len);
                let t = truth_of(&taken);
                let mut info = CasObjectInfoV1::default();
                info.cashash = t.root;
                info.num_chunks = 3;
                info.chunk_hashes = t.list.iter().map(|x| x.0).collect();
                info.chunk_boundary_offsets = bounds.clone();
                let mut tot = 0u32;
                info.unpacked_chunk_offsets = ulens.iter().map(|u| { tot += *u as u32; tot }).collect();
                info.fill_in_boundary_offsets();
                let mut cur = Cursor::new(body.clone());
                cur.set_position(body_len as u64);
                CasObject::serialize_given_info(&mut cur, info).unwrap();
                let forged = cur.into_inner();
                let ctx = format!("hand-built xorb of 3 stored chunks, chunk #{bad_at} has stored length {clen} but unpacked length {ulen} (footer consistent with the headers)");
                validate_both(&rt, &ctx, &forged, &t.root, Expect::Sound, Expect::Sound);
                validate_both(&rt, &format!("{ctx}, sent without footer"), &forged[..body_len], &t.root, Expect::Sound, Expect::Sound);
            }
        }
    }
    // random strings and random strings with a plausible info_length: never a panic, never an acceptance
    for i in 0..300 {
        let n = rng.random_range(0..400);
        let mut s = random(&mut rng, n);
        if i % 2 == 0 && n >= 4 {
            let l = (rng.random_range(0..n) as u32).to_le_bytes();
            s[n - 4..].copy_from_slice(&l);
        }
        if i % 3 == 0 && n >= 8 {
            s[0] = 0; s[4] = (i % 4) as u8; s[2] = 0; s[3] = 0; s[6] = 0; s[7] = 0;
        }
        let h = compute_data_hash(&s);
        validate_both(&rt, &format!("random byte string #{i} of {n} bytes (VERIF_SEED={seed})"), &s, &h, Expect::Sound, Expect::Sound);
    }
    eprintln!("{} decode probes", N_PROBES.load(std::sync::atomic::Ordering::Relaxed));
    println!("no violation found");
}
