//! Witness search for C01 / C03 (and the pointer-size clause of C02): the REAL `data` crate end to end against a local store.
//! Files are cleaned through FileUploadSession / SingleFileCleaner, the session is finalized, every file is downloaded again from
//! its pointer with FileDownloader::smudge_file_from_pointer (whole file and byte ranges), and
//!   * the downloaded bytes equal the fed bytes (C01),
//!   * the pointer size equals the number of fed bytes, and the pointer hash equals an INDEPENDENT computation from the bytes alone:
//!     reference gear-hash chunking, chunk hashes, the published level-wise aggregate construction, keyed with the repo salt - so it is
//!     the same for every feed partition, session history, store and interleaving (C03).
//! The size limits are lowered through the environment (the constants are read once per process), so the program re-executes itself
//! once per configuration: (A) 64 KiB chunks, 1 MB xorbs, 3 MiB ingestion blocks; (B) 4 KiB chunks, 40-chunk xorbs, 50,000-byte
//! ingestion blocks; (C) 4 KiB chunks, 150,000-byte xorbs, 1 MiB ingestion blocks; (D) 64 KiB chunks, 100,000-byte ingestion blocks.
//! Files are composed from whole chunks of random data (chunks re-chunk identically wherever they are placed), which allows exact
//! dedup structures: empty / one byte / sub-chunk, multi-xorb fresh data, a repeat of chunks of the xorb that was just cut and of
//! chunks pending in the open xorb (runs not starting at chunk 0), files sharing content and identical files in one session,
//! consecutive dedup hits ending at the same chunk index, a byte-limit cut followed by many small chunks and a repeat of the chunk that
//! opened the new xorb, low-entropy data, byte-level (unaligned) self-repeats, edited copies of an earlier file of the SAME session
//! (bytes inserted / deleted / overwritten inside one chunk, two separate edits), near-duplicate runs inside one pending xorb; a second session re-uploading and recombining content
//! of the first; cleaners fed round-robin.  Feed partitions: one call (larger than the ingestion block, not a multiple of it), small
//! calls, mixed calls.  Prints `WITNESS ...` and exits 1 on the first violation.
//!
//! Coverage extension ("extras", run in every child beside the three-store scenario, sized by the child's limits; see `extras`):
//!   E1 entry points: `data_client::clean_file` on REAL files (0, 1, ingestion block -1 / exact / +1, two blocks (+7) bytes, a copy),
//!      `PointerFile` text round trip (`to_string` -> `init_from_string`, file -> `init_from_path`), `smudge_file_from_hash`;
//!   E2 cleaner API: finish without add_data, only empty slices, empty slices interleaved, a cleaner dropped without finish;
//!   E3 boundary sizes: min chunk -1/0/+1, max chunk -1/0/+1 (random and zeros), 2 max (+1), last chunk of 1 byte, files of exactly
//!      xorb limit -1/0/+1 bytes resp. chunks - all in one session, and each alone in its own session;
//!   E4 histories: a session dropped WITHOUT finalize (two finished files, a third cleaner fed up to its first xorb cut) followed by a
//!      session with the same content that first drops a fed cleaner; prefix / suffix / middle slices of an earlier file cut at and
//!      off chunk boundaries, first / last byte removed (later session and same session); hit -> new -> hit; fully deduplicated file;
//!   E5 many tiny files in one session (the session-level aggregate is cut several times), some identical;
//!   E6 concurrently running cleaner tasks in one session (shared content, fresh content, clean_file, tiny files; progress updater
//!      given), run twice in the same store;
//!   E7 non-zero repo salts: 0x11.., 0x11..12, zero and 01 00.. over ONE store - hash == reference with that salt, hashes differ
//!      between salts (the empty file has the all-zero hash under every salt on HEAD: known, not re-reported);
//!   E8 two sessions open at the same time on one store; E9 (chunks <= 4 KiB) files with > 128 fragmented dedup ranges (one-chunk
//!      ranges, two-chunk ranges between new data, all-known hopping), i.e. the fragmentation check at its default settings;
//!   E10 (chunks <= 4 KiB, ingestion block >= 1 MiB: children J, H) files of exactly 511 / 512 / 513 / 769 / 1023 / 1025 / 1279 / 2049
//!      chunks that fit into ONE ingestion block, fed in one add_data call and in 64 KiB calls: same pointer, == reference;
//!   every extras session ends with `finalize_with_file_info`: each file has a record, its size, segment byte sum and SHA-256
//!   (own implementation, self-tested) are right; downloads also use edge ranges (start == end, first / last byte, end beyond the
//!   file: an error or the part inside the file) and alternate smudge_file_from_pointer / smudge_file_from_hash.
//! C14 (light): after every session in which every call returned Ok (three-store scenario and extras; not E8, where two sessions
//! write into one store at the same time) the metrics of finalize must satisfy xorb_bytes_uploaded == bytes of the `default.<hash>`
//! files new in the store's xorb directory (only >= for concurrent cleaner tasks and for xorb limits of 1-2 chunks, where the same xorb
//! can be put twice at the same time; the session after the abandoned one of E4 starts only when the abandoned session - kept alive
//! by its upload tasks - is really gone: Weak::upgrade() is None), shard_bytes_uploaded == bytes of the `.mdb` files created or replaced in its shard directory (a shard identical to an earlier
//! one is uploaded and written again), total == sum.
//! Further children: (E) 2 KiB chunks with divisor 4 / multiplier 3, 2-chunk xorbs, 5000-byte ingestion blocks and (F) 1-chunk xorbs -
//! extras only; (G) 4 KiB chunks, 40-chunk xorbs, fragmentation estimator over 4 ranges, repo salt 0x5a.., global dedup policy Never;
//! (H) 4 KiB chunks, 100,000-byte xorbs, minimum shard size 2048 (several session shards), default 8 MiB ingestion block;
//! (J) 1 KiB chunks with the default 8 MiB ingestion block and default xorb limits - extras only, for E10;
//! (I) 128-byte chunks, divisor 2 (minimum 64: no skip-ahead) / multiplier 4, 30,000-byte xorbs, 300-byte ingestion blocks; (P) three PROCESSES
//! over one store: upload + pointer files on disk; a session that cleans files and dies without finalize; a fresh process that
//! reads the pointer files (`init_from_path`), downloads, uploads related content and downloads everything (minimum shard size 2048,
//! salt 0x33..); (Q) two processes, cached shards expiring at once (`HF_XET_MDB_SHARD_LOCAL_CACHE_EXPIRATION_SECS=0`).
//! Debugging aids: `VERIF_C01_TIMING=1` (extra `timing` lines with per-child times and path statistics), `VERIF_C01_ONLY=A,G,..`
//! (only these children), `VERIF_C01_NO_EXTRAS=1` (three-store scenario only).  Opt-in: `VERIF_C01_TINY_XORB=1` adds child X (xorb byte
//! limit 6000 < largest chunk 8192: HEAD trips `debug_assert_le!(num_bytes, MAX_XORB_BYTES)` in RawXorbData::from_chunks; with the
//! assertions removed the data round-trips in oversized one-chunk xorbs - a configuration precondition, not a C01 violation).
use std::collections::HashMap;
use std::path::Path;
use std::process::{Command, Stdio};
use std::sync::Arc;

use cas_client::{FileProvider, OutputProvider};
use cas_types::FileRange;
use data::configurations::{DataConfig, Endpoint, GlobalDedupPolicy, RepoInfo, ShardConfig, TranslatorConfig};
use data::{CacheConfig, FileDownloader, FileUploadSession, PointerFile};
use mdb_shard::file_structs::MDBFileInfo;
use merklehash::{compute_data_hash, compute_internal_node_hash, MerkleHash};
use rand::rngs::StdRng;
use rand::{Rng, SeedableRng};
use xet_threadpool::ThreadPool;

struct Config {
    name: &'static str,
    env: &'static [(&'static str, &'static str)],
    /// run the three-store scenario (needs xorbs of at least 7 chunks)
    full: bool,
    /// every byte of the repo salt
    salt: u8,
    never: bool,
    opt_in: Option<&'static str>,
    /// processes run one after the other over ONE store directory (see `phased`); empty = the normal single process
    phases: &'static [u8],
    /// of the extras only E10
    e10_only: bool,
}

const ENV_NAMES: [&str; 11] = [
    "HF_XET_MDB_SHARD_LOCAL_CACHE_EXPIRATION_SECS",
    "HF_XET_MDB_SHARD_EXPIRATION_BUFFER_SECS",
    "HF_XET_MAX_XORB_BYTES",
    "HF_XET_MAX_XORB_CHUNKS",
    "HF_XET_TARGET_CHUNK_SIZE",
    "HF_XET_INGESTION_BLOCK_SIZE",
    "HF_XET_MINIMUM_CHUNK_DIVISOR",
    "HF_XET_MAXIMUM_CHUNK_MULTIPLIER",
    "HF_XET_MDB_SHARD_MIN_TARGET_SIZE",
    "HF_XET_NRANGES_IN_STREAMING_FRAGMENTATION_ESTIMATOR",
    "HF_XET_MIN_N_CHUNKS_PER_RANGE",
];

const CONFIGS: [Config; 13] = [
    Config { name: "A: 64 KiB chunks, xorb limit 1,000,000 bytes, ingestion block 3 MiB", env: &[("HF_XET_MAX_XORB_BYTES", "1000000"), ("HF_XET_INGESTION_BLOCK_SIZE", "3145728")], full: true, salt: 0, never: false, opt_in: None, phases: &[], e10_only: false },
    Config { name: "B: 4 KiB chunks, xorb limit 40 chunks, ingestion block 50,000 bytes", env: &[("HF_XET_TARGET_CHUNK_SIZE", "4096"), ("HF_XET_MAX_XORB_CHUNKS", "40"), ("HF_XET_INGESTION_BLOCK_SIZE", "50000")], full: true, salt: 0, never: false, opt_in: None, phases: &[], e10_only: false },
    Config { name: "C: 4 KiB chunks, xorb limit 150,000 bytes, ingestion block 1 MiB", env: &[("HF_XET_TARGET_CHUNK_SIZE", "4096"), ("HF_XET_MAX_XORB_BYTES", "150000"), ("HF_XET_INGESTION_BLOCK_SIZE", "1048576")], full: true, salt: 0, never: false, opt_in: None, phases: &[], e10_only: false },
    // an ingestion block SMALLER than the largest chunk (64 KiB target -> 128 KiB maximum chunk)
    Config { name: "D: 64 KiB chunks, ingestion block 100,000 bytes (smaller than the largest chunk), xorb limit 2,000,000 bytes", env: &[("HF_XET_MAX_XORB_BYTES", "2000000"), ("HF_XET_INGESTION_BLOCK_SIZE", "100000")], full: true, salt: 0, never: false, opt_in: None, phases: &[], e10_only: false },
    Config { name: "E: 2 KiB chunks with minimum = target/4 and maximum = 3 x target, xorb limit 2 chunks, ingestion block 5000 bytes", env: &[("HF_XET_TARGET_CHUNK_SIZE", "2048"), ("HF_XET_MINIMUM_CHUNK_DIVISOR", "4"), ("HF_XET_MAXIMUM_CHUNK_MULTIPLIER", "3"), ("HF_XET_MAX_XORB_CHUNKS", "2"), ("HF_XET_INGESTION_BLOCK_SIZE", "5000")], full: false, salt: 0, never: false, opt_in: None, phases: &[], e10_only: false },
    Config { name: "F: 4 KiB chunks, xorb limit 1 chunk, ingestion block 20,000 bytes", env: &[("HF_XET_TARGET_CHUNK_SIZE", "4096"), ("HF_XET_MAX_XORB_CHUNKS", "1"), ("HF_XET_INGESTION_BLOCK_SIZE", "20000")], full: false, salt: 0, never: false, opt_in: None, phases: &[], e10_only: false },
    Config { name: "G: 4 KiB chunks, xorb limit 40 chunks, ingestion block 30,000 bytes, fragmentation estimator over 4 ranges, repo salt 0x5a.., global dedup policy Never", env: &[("HF_XET_TARGET_CHUNK_SIZE", "4096"), ("HF_XET_MAX_XORB_CHUNKS", "40"), ("HF_XET_INGESTION_BLOCK_SIZE", "30000"), ("HF_XET_NRANGES_IN_STREAMING_FRAGMENTATION_ESTIMATOR", "4")], full: true, salt: 0x5a, never: true, opt_in: None, phases: &[], e10_only: false },
    Config { name: "H: 4 KiB chunks, xorb limit 100,000 bytes, minimum shard size 2048 bytes, default ingestion block (8 MiB)", env: &[("HF_XET_TARGET_CHUNK_SIZE", "4096"), ("HF_XET_MAX_XORB_BYTES", "100000"), ("HF_XET_MDB_SHARD_MIN_TARGET_SIZE", "2048")], full: true, salt: 0, never: false, opt_in: None, phases: &[], e10_only: false },
    Config { name: "I: 128-byte chunks with minimum = target/2 = 64 (the chunker's skip-ahead never runs) and maximum = 4 x target, xorb limit 30,000 bytes, ingestion block 300 bytes (smaller than the largest chunk)", env: &[("HF_XET_TARGET_CHUNK_SIZE", "128"), ("HF_XET_MINIMUM_CHUNK_DIVISOR", "2"), ("HF_XET_MAXIMUM_CHUNK_MULTIPLIER", "4"), ("HF_XET_MAX_XORB_BYTES", "30000"), ("HF_XET_INGESTION_BLOCK_SIZE", "300")], full: true, salt: 0, never: false, opt_in: None, phases: &[], e10_only: false },
    // one add_data call / ingestion block that yields hundreds to thousands of chunks (E10)
    Config { name: "J: 1 KiB chunks, default ingestion block (8 MiB) and default xorb limits: one add_data call yields up to 2049 chunks", env: &[("HF_XET_TARGET_CHUNK_SIZE", "1024")], full: false, salt: 0, never: false, opt_in: None, phases: &[], e10_only: true },
    // histories across PROCESSES (the shard cache is read back from disk; pointers travel as pointer files)
    Config { name: "P: three processes over one store (upload; a session that dies without finalize; download + upload), 4 KiB chunks, xorb limit 100,000 bytes, minimum shard size 2048 bytes, repo salt 0x33..", env: &[("HF_XET_TARGET_CHUNK_SIZE", "4096"), ("HF_XET_MAX_XORB_BYTES", "100000"), ("HF_XET_MDB_SHARD_MIN_TARGET_SIZE", "2048"), ("HF_XET_INGESTION_BLOCK_SIZE", "65536")], full: false, salt: 0x33, never: false, opt_in: None, phases: &[1, 2, 3], e10_only: false },
    Config { name: "Q: two processes over one store, cached shards expire at once (local cache expiration 0 s, deletion buffer 0 s), 4 KiB chunks, xorb limit 60 chunks", env: &[("HF_XET_TARGET_CHUNK_SIZE", "4096"), ("HF_XET_MAX_XORB_CHUNKS", "60"), ("HF_XET_MDB_SHARD_LOCAL_CACHE_EXPIRATION_SECS", "0"), ("HF_XET_MDB_SHARD_EXPIRATION_BUFFER_SECS", "0"), ("HF_XET_INGESTION_BLOCK_SIZE", "65536")], full: false, salt: 0, never: true, opt_in: None, phases: &[1, 3], e10_only: false },
    // opt-in probe: a xorb byte limit smaller than the largest chunk (8192 bytes)
    Config { name: "X: 4 KiB chunks, xorb limit 6000 bytes (smaller than the largest chunk), ingestion block 20,000 bytes", env: &[("HF_XET_TARGET_CHUNK_SIZE", "4096"), ("HF_XET_MAX_XORB_BYTES", "6000"), ("HF_XET_INGESTION_BLOCK_SIZE", "20000")], full: false, salt: 0, never: false, opt_in: Some("VERIF_C01_TINY_XORB"), phases: &[], e10_only: false },
];

/// the layout of `TranslatorConfig::local_config`, with the salt and the global dedup policy chosen by the caller
fn make_cfg(base: &Path, salt: [u8; 32], never: bool) -> Arc<TranslatorConfig> {
    let path = base.join("xet");
    std::fs::create_dir_all(&path).expect("store directory");
    Arc::new(TranslatorConfig {
        data_config: DataConfig {
            endpoint: Endpoint::FileSystem(path.join("xorbs")),
            compression: Default::default(),
            auth: None,
            prefix: "default".into(),
            cache_config: CacheConfig { cache_directory: path.join("cache"), cache_size: *cas_client::CHUNK_CACHE_SIZE_BYTES },
            staging_directory: None,
        },
        shard_config: ShardConfig {
            prefix: "default".into(),
            cache_directory: path.join("shard-cache"),
            session_directory: path.join("shard-session"),
            global_dedup_policy: if never { GlobalDedupPolicy::Never } else { GlobalDedupPolicy::Always },
            repo_salt: salt,
        },
        repo_info: Some(RepoInfo { repo_paths: vec!["".into()] }),
    })
}

// ---------------------------------------------------------------------------------------------------------------------------------
// independent reference: chunk boundaries, file hash
// ---------------------------------------------------------------------------------------------------------------------------------

/// first cut: length == max, or length > min-65 and the gear hash of the bytes from offset max(min-65, 0) meets the mask
fn reference_chunks(data: &[u8], target: usize, div: usize, mult: usize) -> Vec<usize> {
    let mask0 = (target - 1) as u64;
    let mask = mask0 << mask0.leading_zeros();
    let (mn, mx) = (target / div, target * mult);
    let skip = mn.saturating_sub(65);
    let mut out = vec![];
    let mut start = 0usize;
    while start < data.len() {
        let mut h: u64 = 0;
        let mut len = 0usize;
        while start + len < data.len() {
            let b = data[start + len];
            len += 1;
            if len > skip {
                h = (h << 1).wrapping_add(gearhash::DEFAULT_TABLE[b as usize]);
                if h & mask == 0 {
                    break;
                }
            }
            if len == mx {
                break;
            }
        }
        out.push(len);
        start += len;
    }
    out
}

fn reference_root(list: &[(MerkleHash, usize)]) -> MerkleHash {
    let mut level: Vec<(MerkleHash, usize)> = list.to_vec();
    while level.len() > 1 {
        let mut next = vec![];
        let mut start = 0;
        for i in 0..level.len() {
            let earlier = i - start;
            if (earlier >= 2 && level[i].0[3] % 4 == 0) || earlier >= 8 || i + 1 == level.len() {
                let mut text = String::new();
                let mut total = 0;
                for (h, n) in &level[start..=i] {
                    text.push_str(&format!("{} : {}\n", h.hex(), n));
                    total += n;
                }
                next.push((compute_internal_node_hash(text.as_bytes()), total));
                start = i + 1;
            }
        }
        level = next;
    }
    level[0].0
}

struct Limits {
    target: usize,
    div: usize,
    mult: usize,
    xorb_bytes: usize,
    xorb_chunks: usize,
    ingestion: usize,
}

fn reference_file_hash(data: &[u8], l: &Limits, salt: &[u8; 32]) -> MerkleHash {
    if data.is_empty() {
        return MerkleHash::default();
    }
    let mut list = vec![];
    let mut pos = 0;
    for n in reference_chunks(data, l.target, l.div, l.mult) {
        list.push((compute_data_hash(&data[pos..pos + n]), n));
        pos += n;
    }
    let root = reference_root(&list);
    MerkleHash::from(*blake3::keyed_hash(salt, root.as_bytes()).as_bytes())
}

// ---------------------------------------------------------------------------------------------------------------------------------
// inputs
// ---------------------------------------------------------------------------------------------------------------------------------

struct Pool {
    rng: StdRng,
    chunks: Vec<Arc<Vec<u8>>>,
    next: usize,
}
impl Pool {
    fn refill(&mut self, l: &Limits) {
        let mut base = vec![0u8; l.target * 80];
        self.rng.fill(&mut base[..]);
        let lens = reference_chunks(&base, l.target, l.div, l.mult);
        let mut pos = 0;
        for n in &lens[..lens.len() - 1] {
            self.chunks.push(Arc::new(base[pos..pos + n].to_vec()));
            pos += n;
        }
    }
    /// n chunks never handed out before
    fn fresh(&mut self, l: &Limits, n: usize) -> Vec<Arc<Vec<u8>>> {
        while self.chunks.len() < self.next + n {
            self.refill(l);
        }
        let v = self.chunks[self.next..self.next + n].to_vec();
        self.next += n;
        v
    }
    /// fresh chunks filling exactly one xorb (adding one more chunk would exceed a limit), and the count
    fn fresh_xorb(&mut self, l: &Limits) -> Vec<Arc<Vec<u8>>> {
        let mut v: Vec<Arc<Vec<u8>>> = vec![];
        let mut bytes = 0;
        loop {
            let c = self.fresh(l, 1).pop().unwrap();
            if bytes + c.len() > l.xorb_bytes || v.len() + 1 > l.xorb_chunks {
                self.next -= 1;
                return v;
            }
            bytes += c.len();
            v.push(c);
        }
    }
}

fn cat(parts: &[&[Arc<Vec<u8>>]]) -> Vec<u8> {
    let mut o = vec![];
    for p in parts {
        for c in p.iter() {
            o.extend_from_slice(c);
        }
    }
    o
}

struct Spec {
    name: String,
    what: String,
    data: Arc<Vec<u8>>,
}

#[derive(Clone, Debug)]
enum Part {
    One,
    Cycle(Vec<usize>),
}
fn pieces(len: usize, p: &Part) -> Vec<usize> {
    match p {
        Part::One => vec![len],
        Part::Cycle(c) => {
            let mut v = vec![];
            let mut left = len;
            let mut k = 0;
            while left > 0 {
                let n = c[k % c.len()].max(1).min(left);
                v.push(n);
                left -= n;
                k += 1;
            }
            v
        },
    }
}

struct Session {
    files: Vec<usize>,
    round_robin: bool,
}

fn build(l: &Limits, seed: u64) -> (Vec<Spec>, Vec<Session>) {
    let mut pool = Pool { rng: StdRng::seed_from_u64(seed ^ 0xC01), chunks: vec![], next: 0 };
    let mut rng = StdRng::seed_from_u64(seed ^ 0xC03);
    let mut specs: Vec<Spec> = vec![];
    let mut add = |name: &str, what: &str, data: Vec<u8>| -> usize {
        specs.push(Spec { name: name.into(), what: what.into(), data: Arc::new(data) });
        specs.len() - 1
    };
    let f_empty = add("empty", "empty file", vec![]);
    let f_one = add("one-byte", "a single byte", vec![0x42]);
    let sub = pool.fresh(l, 1);
    let f_sub = add("sub-chunk", "less than the minimum chunk size", sub[0][..((l.target / l.div) / 2).min(sub[0].len())].to_vec());

    // multi-xorb fresh data: three full xorbs and a bit
    let x1 = pool.fresh_xorb(l);
    let x2 = pool.fresh_xorb(l);
    let x3 = pool.fresh_xorb(l);
    let tail = pool.fresh(l, 3);
    let f_multi = add("multi-xorb", &format!("{} fresh chunks filling three xorbs and a bit", x1.len() + x2.len() + x3.len() + 3), cat(&[&x1, &x2, &x3, &tail]));

    // edited copies of the head of multi-xorb (its first xorb and three more chunks), cleaned later in the SAME session, when that
    // xorb is registered in the session's in-memory shard: a few bytes inserted / deleted / overwritten INSIDE one chunk (the
    // chunking re-synchronises after the edit, so the file lines up with the stored xorb again after one differing chunk)
    let head = cat(&[&x1, &x2[..3.min(x2.len())]]);
    let mid_of = |k: usize| -> usize { x1[..k].iter().map(|c| c.len()).sum::<usize>() + x1[k].len() / 2 };
    let edit = |ops: &[(usize, usize, &[u8])]| -> Vec<u8> {
        // (offset in `head`, bytes removed there, bytes inserted there), offsets ascending
        let mut out = vec![];
        let mut pos = 0;
        for (at, remove, insert) in ops {
            out.extend_from_slice(&head[pos..*at]);
            out.extend_from_slice(insert);
            pos = at + remove;
        }
        out.extend_from_slice(&head[pos..]);
        out
    };
    let last = x1.len() - 2;
    let f_ins = add("edited-insert", &format!("the first xorb of multi-xorb + 3 chunks, with 10 bytes inserted in the middle of its chunk 2 (offset {})", mid_of(2)), edit(&[(mid_of(2), 0, b"0123456789")]));
    let f_del = add("edited-delete", &format!("the same head with 7 bytes deleted in the middle of chunk 3 (offset {})", mid_of(3)), edit(&[(mid_of(3), 7, b"")]));
    let f_ovw = add("edited-overwrite", &format!("the same head with 5 bytes overwritten in the middle of chunk 1 (offset {})", mid_of(1)), edit(&[(mid_of(1), 5, b"\xff\xfe\xfd\xfc\xfb")]));
    let f_two = add("edited-twice", &format!("the same head with 3 bytes inserted in chunk 1 (offset {}) and 4 bytes overwritten in chunk {last} (offset {})", mid_of(1), mid_of(last)), edit(&[(mid_of(1), 0, b"abc"), (mid_of(last), 4, b"WXYZ")]));

    // near-duplicate regions inside one pending xorb: a run of 6 fresh chunks, 2 fresh, the run again with its chunk 1 replaced,
    // 1 fresh, the run again with chunks 2 and 3 replaced
    let run = pool.fresh(l, 6);
    let (n1, n2, n3, n4) = (pool.fresh(l, 2), pool.fresh(l, 1), pool.fresh(l, 1), pool.fresh(l, 2));
    let f_neardup = add(
        "near-duplicate",
        "run R of 6 fresh chunks, 2 fresh, R with its chunk 1 replaced by a fresh chunk, 1 fresh, R with chunks 2 and 3 replaced",
        cat(&[&run, &n1, &run[..1], &n2, &run[2..], &n3, &run[..2], &n4, &run[4..]]),
    );

    // self-repeat: one full xorb A (cut), m more chunks B in the open xorb, then A[1] A[2] (low indices of the xorb just cut),
    // fresh, B[2..5] (a run pending in the open xorb, not starting at its chunk 0), fresh, B[1] B[1], tail
    let a = pool.fresh_xorb(l);
    let m = (a.len() / 2).max(7);
    let b = pool.fresh(l, m);
    let (g1, g2, g3) = (pool.fresh(l, 2), pool.fresh(l, 1), pool.fresh(l, 2));
    let f_selfrep = add(
        "self-repeat",
        &format!("{} fresh chunks (xorb cut after chunk {}), then chunks 1,2 of the cut xorb again, 2 fresh, chunks {}..{} (pending in the open xorb) again, 1 fresh, chunk {} twice, 2 fresh", a.len() + m, a.len(), a.len() + 2, a.len() + 5, a.len() + 1),
        cat(&[&a, &b, &a[1..3], &g1, &b[2..5], &g2, &b[1..2], &b[1..2], &g3]),
    );

    // files sharing content inside one session, and an identical file
    let s = pool.fresh(l, a.len().min(30) + 4);
    let (p1, p2) = (pool.fresh(l, 3), pool.fresh(l, 2));
    let f_share1 = add("shared-1", "fresh chunks S", cat(&[&s]));
    let f_share2 = add("shared-2", "3 fresh chunks, then chunks 2.. of shared-1 except its last two, then 2 fresh", cat(&[&p1, &s[2..s.len() - 2], &p2]));
    let f_share3 = add("shared-3", "identical to shared-1", cat(&[&s]));

    // consecutive dedup hits that end at the same chunk index, against the first xorb of multi-xorb
    let (q1, q2) = (pool.fresh(l, 1), pool.fresh(l, 2));
    let f_samend = add(
        "same-end-hits",
        "chunks 0,1,1,5 of multi-xorb's first xorb, 1 fresh, chunks 2,3,4,3,4 of it, 2 fresh",
        cat(&[&x1[0..2], &x1[1..2], &x1[5..6], &q1, &x1[2..5], &x1[3..5], &q2]),
    );

    // byte-limit cut after N big chunks, then more than N small chunks in the new xorb, then the chunk that opened it again
    // (160 candidates in configurations A-H; more where a xorb holds more than 40 average chunks)
    let mut cand = pool.fresh(l, 160.max(4 * l.xorb_bytes.min(l.xorb_chunks * l.target) / l.target));
    cand.sort_by_key(|c| std::cmp::Reverse(c.len()));
    let mut bigs = vec![];
    let mut bytes = 0;
    let mut it = cand.iter();
    let opener = loop {
        let c = it.next().unwrap().clone();
        if bytes + c.len() > l.xorb_bytes || bigs.len() + 1 > l.xorb_chunks {
            break c;
        }
        bytes += c.len();
        bigs.push(c);
    };
    let n_small = (bigs.len() + 3).min(cand.len() / 2);
    let smalls: Vec<Arc<Vec<u8>>> = cand[cand.len() - n_small..].to_vec();
    let q3 = pool.fresh(l, 2);
    let f_bigsmall = add(
        "big-then-small",
        &format!("{} large chunks filling a xorb, the chunk that opens the next xorb, {} small chunks, that opening chunk again, 2 fresh", bigs.len(), smalls.len()),
        cat(&[&bigs, std::slice::from_ref(&opener), &smalls, std::slice::from_ref(&opener), &q3]),
    );

    // low entropy: zeros (identical maximum-size chunks), a short period, two symbols
    let xb = l.xorb_bytes.min(l.xorb_chunks * l.target); // bytes after which a xorb of average chunks is cut
    let mut low = vec![0u8; xb * 3 / 2 + 4321];
    low.extend((0..xb / 2).map(|i| (i % 97) as u8));
    low.extend((0..xb / 2).map(|_| rng.random::<u8>() & 1));
    let f_low = add("low-entropy", "zeros, then period-97 bytes, then two-symbol noise", low);

    // byte-level self-repeat, not aligned to chunks
    let mut r = vec![0u8; xb * 6 / 5];
    rng.fill(&mut r[..]);
    let mut un = r.clone();
    un.extend_from_slice(&r[12_345..12_345 + xb * 3 / 5]);
    un.extend_from_slice(&r[..xb / 3]);
    let f_unaligned = add("unaligned-repeat", "random R, then R[12345 .. +0.6 xorb], then R[.. 0.33 xorb]", un);

    // second session: recombination of first-session content
    let (t1, t2) = (pool.fresh(l, 2), pool.fresh(l, 3));
    let f_recomb = add(
        "recombine",
        "chunks 2,3,4,3,4,0,1,1,5 of multi-xorb's first xorb, 2 fresh, the last 6 chunks of its second xorb followed by the first 4 of its third, chunks 3.. of shared-1, 3 fresh",
        cat(&[&x1[2..5], &x1[3..5], &x1[0..2], &x1[1..2], &x1[5..6], &t1, &x2[x2.len() - 6..], &x3[..4], &s[3..], &t2]),
    );

    let s1 = Session { files: vec![f_empty, f_one, f_sub, f_multi, f_ins, f_del, f_ovw, f_two, f_neardup, f_selfrep, f_share1, f_share2, f_share3, f_samend, f_bigsmall, f_low, f_unaligned], round_robin: false };
    let s2 = Session { files: vec![f_multi, f_two, f_recomb, f_selfrep, f_empty, f_sub, f_share2, f_bigsmall], round_robin: false };
    let s3 = Session { files: vec![f_recomb, f_samend, f_share1, f_unaligned], round_robin: true };
    (specs, vec![s1, s2, s3])
}

// ---------------------------------------------------------------------------------------------------------------------------------
// C14 (light): the upload byte counters of a successful session against what appeared in the local store
// ---------------------------------------------------------------------------------------------------------------------------------

/// (name -> size) of the xorb files `default.<64 hex>` and of the `.mdb` shard files of the local store under `base`
/// (`<base>/xet/xorbs/xorbs`, `<base>/xet/xorbs/shards` - the layout of TranslatorConfig::local_config / make_cfg)
struct StoreSnap {
    /// name -> (size, inode, modification time): a file replaced by rename (a shard identical to an earlier one uploaded again)
    /// shows as a changed inode / time
    xorbs: HashMap<String, (u64, u64, i64, i64)>,
    shards: HashMap<String, (u64, u64, i64, i64)>,
}
fn store_snap(base: &Path) -> StoreSnap {
    use std::os::unix::fs::MetadataExt;
    let list = |dir: std::path::PathBuf, keep: &dyn Fn(&str) -> bool| -> HashMap<String, (u64, u64, i64, i64)> {
        let mut m = HashMap::new();
        if let Ok(rd) = std::fs::read_dir(dir) {
            for e in rd.flatten() {
                let name = e.file_name().to_string_lossy().to_string();
                if keep(&name) {
                    if let Ok(md) = e.metadata() {
                        if md.is_file() {
                            m.insert(name, (md.len(), md.ino(), md.mtime(), md.mtime_nsec()));
                        }
                    }
                }
            }
        }
        m
    };
    let root = base.join("xet").join("xorbs");
    StoreSnap {
        xorbs: list(root.join("xorbs"), &|n| n.strip_prefix("default.").map(|h| h.len() == 64 && h.bytes().all(|c| c.is_ascii_hexdigit())).unwrap_or(false)),
        shards: list(root.join("shards"), &|n| n.ends_with(".mdb") && !n.starts_with('.')),
    }
}
/// every call of the session returned Ok: xorb_bytes_uploaded == bytes of the xorb files new in the store (put reports 0 for a xorb
/// that exists), shard_bytes_uploaded == bytes of the new shard files, total == xorb + shard.
#[derive(Clone, Copy, PartialEq, Debug)]
enum XorbBytes {
    /// reported == bytes of the xorb files that appeared
    Exact,
    /// reported >= appeared: the session itself may transmit one xorb twice at the same time
    AtLeast,
    /// reported <= appeared: uploads of an EARLIER, abandoned session of this process may still land in the store
    AtMost,
    /// both of the above at once: no sound bound
    Unchecked,
}

/// `exact` = false where one session can hand the SAME xorb to the store twice at the same time (identical content cleaned by
/// concurrently running tasks; xorb limits of 1-2 chunks, where a chunk stored again is a whole xorb again): both puts see "not
/// there", both transmit and both are counted, but one file results - then only reported >= stored is required.
fn check_upload_metrics(before: &StoreSnap, base: &Path, m: &deduplication::DeduplicationMetrics, mode: XorbBytes) -> Option<String> {
    let after = store_snap(base);
    // xorbs: new names (put never rewrites an existing xorb); shards: new names and files replaced during the session (the store
    // writes an uploaded shard to a temporary file and renames it, also over an identical earlier shard)
    let new_x: Vec<(&String, u64)> = after.xorbs.iter().filter(|(k, _)| !before.xorbs.contains_key(*k)).map(|(k, v)| (k, v.0)).collect();
    let new_s: Vec<(&String, u64)> = after.shards.iter().filter(|(k, v)| before.shards.get(*k) != Some(v)).map(|(k, v)| (k, v.0)).collect();
    let n_replaced = new_s.iter().filter(|(k, _)| before.shards.contains_key(*k)).count();
    let (xb, sb): (u64, u64) = (new_x.iter().map(|(_, n)| *n).sum(), new_s.iter().map(|(_, n)| *n).sum());
    let rep = m.xorb_bytes_uploaded as u64;
    if (mode == XorbBytes::Exact && rep != xb) || (mode == XorbBytes::AtLeast && rep < xb) || (mode == XorbBytes::AtMost && rep > xb) {
        return Some(format!("every call of the session returned Ok; finalize() reports xorb_bytes_uploaded = {} but the {} xorb files that appeared in the store during the session hold {xb} bytes (the store had {} xorbs before)", m.xorb_bytes_uploaded, new_x.len(), before.xorbs.len()));
    }
    if m.shard_bytes_uploaded as u64 != sb {
        return Some(format!("every call of the session returned Ok; finalize() reports shard_bytes_uploaded = {} but the {} shard files written into the store during the session ({n_replaced} of them replacing an identical earlier shard) hold {sb} bytes", m.shard_bytes_uploaded, new_s.len()));
    }
    if m.total_bytes_uploaded != m.shard_bytes_uploaded + m.xorb_bytes_uploaded {
        return Some(format!("every call of the session returned Ok; finalize() reports total_bytes_uploaded = {} with xorb_bytes_uploaded = {} and shard_bytes_uploaded = {}", m.total_bytes_uploaded, m.xorb_bytes_uploaded, m.shard_bytes_uploaded));
    }
    None
}

// ---------------------------------------------------------------------------------------------------------------------------------
// driving the real code
// ---------------------------------------------------------------------------------------------------------------------------------

async fn upload(cfg: Arc<TranslatorConfig>, tp: Arc<ThreadPool>, specs: &[Spec], s: &Session, part: &Part, store: &Path) -> Result<Vec<PointerFile>, String> {
    let before = store_snap(store);
    let session = FileUploadSession::new(cfg, tp, None).await.map_err(|e| format!("FileUploadSession::new fails: {e}"))?;
    let mut pointers = vec![];
    if !s.round_robin {
        for &f in &s.files {
            let spec = &specs[f];
            let mut cleaner = session.start_clean(spec.name.clone());
            let mut pos = 0;
            for n in pieces(spec.data.len(), part) {
                cleaner.add_data(&spec.data[pos..pos + n]).await.map_err(|e| format!("add_data fails on file '{}' at offset {pos} (+{n}): {e}", spec.name))?;
                pos += n;
            }
            let (p, _m) = cleaner.finish().await.map_err(|e| format!("finish fails on file '{}': {e}", spec.name))?;
            pointers.push(p);
        }
    } else {
        let mut cleaners: Vec<_> = s.files.iter().map(|&f| Some(session.start_clean(specs[f].name.clone()))).collect();
        let plans: Vec<Vec<usize>> = s.files.iter().map(|&f| pieces(specs[f].data.len(), part)).collect();
        let mut pos = vec![0usize; s.files.len()];
        let mut step = vec![0usize; s.files.len()];
        let mut out: Vec<Option<PointerFile>> = s.files.iter().map(|_| None).collect();
        let mut live = s.files.len();
        while live > 0 {
            for k in 0..s.files.len() {
                if cleaners[k].is_none() {
                    continue;
                }
                let spec = &specs[s.files[k]];
                if step[k] < plans[k].len() {
                    let n = plans[k][step[k]];
                    cleaners[k].as_mut().unwrap().add_data(&spec.data[pos[k]..pos[k] + n]).await.map_err(|e| format!("add_data fails on file '{}' (fed round-robin) at offset {}: {e}", spec.name, pos[k]))?;
                    pos[k] += n;
                    step[k] += 1;
                } else {
                    let (p, _m) = cleaners[k].take().unwrap().finish().await.map_err(|e| format!("finish fails on file '{}' (fed round-robin): {e}", spec.name))?;
                    out[k] = Some(p);
                    live -= 1;
                }
            }
        }
        pointers = out.into_iter().map(|p| p.unwrap()).collect();
    }
    let m = session.finalize().await.map_err(|e| format!("finalize fails: {e}"))?;
    note_metrics(&m);
    if let Some(w) = check_upload_metrics(&before, store, &m, XorbBytes::Exact) {
        return Err(w);
    }
    Ok(pointers)
}

async fn download_check(cfg: Arc<TranslatorConfig>, tp: Arc<ThreadPool>, spec: &Spec, p: &PointerFile, scratch: &std::path::Path) -> Result<(), String> {
    let dl = FileDownloader::new(cfg, tp).await.map_err(|e| format!("FileDownloader::new fails: {e}"))?;
    let len = spec.data.len() as u64;
    let mut ranges: Vec<Option<(u64, u64)>> = vec![None];
    if len > 2 {
        ranges.extend([Some((0, len)), Some((len / 3, 2 * len / 3)), Some((len - 1, len)), Some((1, len.min(70_001)))]);
    }
    for r in ranges {
        let out = scratch.join("download.bin");
        let _ = std::fs::remove_file(&out);
        let prov = OutputProvider::File(FileProvider::new(out.clone()));
        let n = dl
            .smudge_file_from_pointer(p, &prov, r.map(|(a, b)| FileRange { start: a, end: b }), None)
            .await
            .map_err(|e| format!("download of file '{}' ({}; {} bytes) from its pointer fails{}: {e}", spec.name, spec.what, len, r.map(|r| format!(" for byte range {r:?}")).unwrap_or_default()))?;
        let got = std::fs::read(&out).unwrap_or_default();
        let (a, b) = r.unwrap_or((0, len));
        let want = &spec.data[a as usize..b as usize];
        if got != want || n != want.len() as u64 {
            let i = got.iter().zip(want.iter()).position(|(x, y)| x != y).unwrap_or(got.len().min(want.len()));
            return Err(format!(
                "file '{}' ({}; {} bytes): downloading {} returns {} bytes (reported {n}), the fed data has {} there; first difference at offset {} of the requested range",
                spec.name, spec.what, len, r.map(|r| format!("byte range {r:?}")).unwrap_or("the whole file".into()), got.len(), want.len(), i
            ));
        }
    }
    Ok(())
}

async fn run_all(tp: Arc<ThreadPool>, l: Arc<Limits>, specs: Arc<Vec<Spec>>, sessions: Arc<Vec<Session>>, cfg_name: String, salt: [u8; 32], never: bool) -> Option<String> {
    let small = if l.target >= 65536 { 4096 } else { 300 };
    let parts = [
        ("a single add_data call per file", Part::One),
        ("add_data calls of a few hundred / thousand bytes", Part::Cycle(vec![small, 1, small + 333])),
        ("mixed add_data calls, the first larger than two ingestion blocks", Part::Cycle(vec![2 * l.ingestion + 123, 5, 70_000, l.ingestion, 11])),
    ];
    let mut expected: Vec<Option<MerkleHash>> = specs.iter().map(|_| None).collect();
    for (pname, part) in &parts {
        let dir = tempfile::tempdir().unwrap();
        let scratch = tempfile::tempdir().unwrap();
        let mut uploaded: Vec<(usize, PointerFile, usize)> = vec![];
        for (si, s) in sessions.iter().enumerate() {
            let ctx = format!("config {cfg_name}; store filled by sessions 1..{} fed with {pname}{}", si + 1, if s.round_robin { " (this session: all cleaners fed round-robin)" } else { "" });
            // the zero-salt, policy-Always configurations keep using the public constructor
            let cfg = if salt == [0u8; 32] && !never {
                match TranslatorConfig::local_config(dir.path()) { Ok(c) => c, Err(e) => return Some(format!("{ctx}: local_config fails: {e}")) }
            } else {
                make_cfg(dir.path(), salt, never)
            };
            let pointers = match upload(cfg.clone(), tp.clone(), &specs, s, part, dir.path()).await {
                Ok(p) => p,
                Err(e) => return Some(format!("{ctx}: session {} does not complete: {e}", si + 1)),
            };
            for (&f, p) in s.files.iter().zip(pointers) {
                let spec = &specs[f];
                if p.filesize() != spec.data.len() as u64 {
                    return Some(format!("{ctx}: session {}: pointer of file '{}' ({}) records size {} but {} bytes were fed", si + 1, spec.name, spec.what, p.filesize(), spec.data.len()));
                }
                let want = *expected[f].get_or_insert_with(|| reference_file_hash(&spec.data, &l, &salt));
                if *p.hash_string() != want.hex() {
                    return Some(format!(
                        "{ctx}: session {}: pointer of file '{}' ({}; {} bytes) carries hash {} but the hash computed from the bytes alone (reference chunking, aggregate construction, salt) is {}",
                        si + 1, spec.name, spec.what, spec.data.len(), p.hash_string(), want.hex()
                    ));
                }
                uploaded.push((f, p, si + 1));
            }
            // every file uploaded so far into this store must download correctly
            for (f, p, from) in &uploaded {
                let cfg = make_cfg(dir.path(), salt, never);
                if let Err(e) = download_check(cfg, tp.clone(), &specs[*f], p, scratch.path()).await {
                    return Some(format!("{ctx}: after session {} (file uploaded in session {from}): {e}", si + 1));
                }
            }
        }
    }
    None
}

// ---------------------------------------------------------------------------------------------------------------------------------
// statistics for VERIF_C01_TIMING (never part of a verdict)
// ---------------------------------------------------------------------------------------------------------------------------------

/// what the extras are doing right now (named when the code under test panics)
static CURRENT_STEP: std::sync::Mutex<String> = std::sync::Mutex::new(String::new());
static STAT_SESSIONS: std::sync::atomic::AtomicUsize = std::sync::atomic::AtomicUsize::new(0);
static STAT_DEDUP_CHUNKS: std::sync::atomic::AtomicUsize = std::sync::atomic::AtomicUsize::new(0);
static STAT_NEW_CHUNKS: std::sync::atomic::AtomicUsize = std::sync::atomic::AtomicUsize::new(0);
static STAT_DEFRAG_CHUNKS: std::sync::atomic::AtomicUsize = std::sync::atomic::AtomicUsize::new(0);
static STAT_DOWNLOADS: std::sync::atomic::AtomicUsize = std::sync::atomic::AtomicUsize::new(0);
static STAT_MAX_SHARDS: std::sync::atomic::AtomicUsize = std::sync::atomic::AtomicUsize::new(0);

fn note_metrics(m: &deduplication::DeduplicationMetrics) {
    use std::sync::atomic::Ordering::Relaxed;
    STAT_SESSIONS.fetch_add(1, Relaxed);
    STAT_DEDUP_CHUNKS.fetch_add(m.deduped_chunks, Relaxed);
    STAT_NEW_CHUNKS.fetch_add(m.new_chunks, Relaxed);
    STAT_DEFRAG_CHUNKS.fetch_add(m.defrag_prevented_dedup_chunks, Relaxed);
}

// ---------------------------------------------------------------------------------------------------------------------------------
// independent SHA-256 (FIPS 180-4), self-tested in `child`
// ---------------------------------------------------------------------------------------------------------------------------------

fn sha256_hex(data: &[u8]) -> String {
    const K: [u32; 64] = [
        0x428a2f98, 0x71374491, 0xb5c0fbcf, 0xe9b5dba5, 0x3956c25b, 0x59f111f1, 0x923f82a4, 0xab1c5ed5, 0xd807aa98, 0x12835b01, 0x243185be, 0x550c7dc3, 0x72be5d74, 0x80deb1fe,
        0x9bdc06a7, 0xc19bf174, 0xe49b69c1, 0xefbe4786, 0x0fc19dc6, 0x240ca1cc, 0x2de92c6f, 0x4a7484aa, 0x5cb0a9dc, 0x76f988da, 0x983e5152, 0xa831c66d, 0xb00327c8, 0xbf597fc7,
        0xc6e00bf3, 0xd5a79147, 0x06ca6351, 0x14292967, 0x27b70a85, 0x2e1b2138, 0x4d2c6dfc, 0x53380d13, 0x650a7354, 0x766a0abb, 0x81c2c92e, 0x92722c85, 0xa2bfe8a1, 0xa81a664b,
        0xc24b8b70, 0xc76c51a3, 0xd192e819, 0xd6990624, 0xf40e3585, 0x106aa070, 0x19a4c116, 0x1e376c08, 0x2748774c, 0x34b0bcb5, 0x391c0cb3, 0x4ed8aa4a, 0x5b9cca4f, 0x682e6ff3,
        0x748f82ee, 0x78a5636f, 0x84c87814, 0x8cc70208, 0x90befffa, 0xa4506ceb, 0xbef9a3f7, 0xc67178f2,
    ];
    let mut h: [u32; 8] = [0x6a09e667, 0xbb67ae85, 0x3c6ef372, 0xa54ff53a, 0x510e527f, 0x9b05688c, 0x1f83d9ab, 0x5be0cd19];
    let mut tail = data[data.len() - data.len() % 64..].to_vec();
    tail.push(0x80);
    while tail.len() % 64 != 56 {
        tail.push(0);
    }
    tail.extend_from_slice(&((data.len() as u64) * 8).to_be_bytes());
    let mut w = [0u32; 64];
    for block in data[..data.len() - data.len() % 64].chunks_exact(64).chain(tail.chunks_exact(64)) {
        for i in 0..16 {
            w[i] = u32::from_be_bytes([block[4 * i], block[4 * i + 1], block[4 * i + 2], block[4 * i + 3]]);
        }
        for i in 16..64 {
            let s0 = w[i - 15].rotate_right(7) ^ w[i - 15].rotate_right(18) ^ (w[i - 15] >> 3);
            let s1 = w[i - 2].rotate_right(17) ^ w[i - 2].rotate_right(19) ^ (w[i - 2] >> 10);
            w[i] = w[i - 16].wrapping_add(s0).wrapping_add(w[i - 7]).wrapping_add(s1);
        }
        let [mut a, mut b, mut c, mut d, mut e, mut f, mut g, mut hh] = h;
        for i in 0..64 {
            let s1 = e.rotate_right(6) ^ e.rotate_right(11) ^ e.rotate_right(25);
            let ch = (e & f) ^ (!e & g);
            let t1 = hh.wrapping_add(s1).wrapping_add(ch).wrapping_add(K[i]).wrapping_add(w[i]);
            let s0 = a.rotate_right(2) ^ a.rotate_right(13) ^ a.rotate_right(22);
            let maj = (a & b) ^ (a & c) ^ (b & c);
            let t2 = s0.wrapping_add(maj);
            hh = g;
            g = f;
            f = e;
            e = d.wrapping_add(t1);
            d = c;
            c = b;
            b = a;
            a = t1.wrapping_add(t2);
        }
        for (x, y) in h.iter_mut().zip([a, b, c, d, e, f, g, hh]) {
            *x = x.wrapping_add(y);
        }
    }
    h.iter().map(|x| format!("{x:08x}")).collect()
}

fn sha256_selftest() -> bool {
    let million_a = vec![b'a'; 1_000_000];
    sha256_hex(b"") == "e3b0c44298fc1c149afbf4c8996fb92427ae41e4649b934ca495991b7852b855"
        && sha256_hex(b"abc") == "ba7816bf8f01cfea414140de5dae2223b00361a396177a9cb410ff61f20015ad"
        && sha256_hex(b"abcdbcdecdefdefgefghfghighijhijkijkljklmklmnlmnomnopnopq") == "248d6a61d20638b8e5c026930c3e6039a33ce45964ff2167f6ecedd419db06c1"
        && sha256_hex(&million_a) == "cdc76e5c9914fb9281a1c7e284d73e67f1809a48a497200e046d39ccc7112cd0"
}

// ---------------------------------------------------------------------------------------------------------------------------------
// extras: entry points, API edge cases, boundary sizes, histories, salts (see the header)
// ---------------------------------------------------------------------------------------------------------------------------------

#[derive(Clone, Debug)]
enum Feed {
    /// add_data calls of these sizes
    Parts(Part),
    /// the same, with an empty slice before every call and after the last one
    WithEmpty(Part),
    /// start_clean and finish, no add_data at all (only for the empty file)
    NoAddData,
    /// written to disk and cleaned with data::data_client::clean_file
    RealFile,
}
impl Feed {
    fn describe(&self) -> String {
        match self {
            Feed::Parts(Part::One) => "one add_data call".into(),
            Feed::Parts(Part::Cycle(c)) => format!("add_data calls of {c:?} bytes (cyclic)"),
            Feed::WithEmpty(p) => format!("{} with an EMPTY add_data call before each and after the last", Feed::Parts(p.clone()).describe()),
            Feed::NoAddData => "start_clean + finish without any add_data call".into(),
            Feed::RealFile => "a real file cleaned with data_client::clean_file".into(),
        }
    }
}

#[derive(Clone)]
struct XF {
    name: String,
    what: String,
    data: Arc<Vec<u8>>,
    feed: Feed,
}
fn xf(name: &str, what: impl Into<String>, data: Vec<u8>, feed: Feed) -> XF {
    XF { name: name.into(), what: what.into(), data: Arc::new(data), feed }
}
impl XF {
    fn label(&self) -> String {
        format!("file '{}' ({}; {} bytes; fed as {})", self.name, self.what, self.data.len(), self.feed.describe())
    }
}

struct Done {
    pointers: Vec<PointerFile>,
    infos: Vec<MDBFileInfo>,
}

async fn feed_one(session: &Arc<FileUploadSession>, f: &XF, files_dir: &Path, yielding: bool) -> Result<PointerFile, String> {
    if let Feed::RealFile = f.feed {
        let path = files_dir.join(&f.name);
        std::fs::write(&path, &f.data[..]).map_err(|e| format!("infrastructure: cannot write {path:?}: {e}"))?;
        let (p, m) = data::data_client::clean_file(session.clone(), &path).await.map_err(|e| format!("clean_file fails on {}: {e}", f.label()))?;
        if p.path() != path.to_string_lossy() {
            return Err(format!("clean_file on {}: the pointer carries path {:?}, the file is {path:?}", f.label(), p.path()));
        }
        if m.total_bytes != f.data.len() {
            return Err(format!("clean_file on {}: the metrics report {} bytes", f.label(), m.total_bytes));
        }
        return Ok(p);
    }
    let mut cleaner = session.start_clean(f.name.clone());
    let (part, with_empty) = match &f.feed {
        Feed::Parts(p) => (Some(p), false),
        Feed::WithEmpty(p) => (Some(p), true),
        _ => (None, false),
    };
    if let Some(part) = part {
        let mut pos = 0;
        for n in pieces(f.data.len(), part) {
            if with_empty {
                cleaner.add_data(&[]).await.map_err(|e| format!("add_data(empty slice) fails on {} at offset {pos}: {e}", f.label()))?;
            }
            cleaner.add_data(&f.data[pos..pos + n]).await.map_err(|e| format!("add_data fails on {} at offset {pos} (+{n}): {e}", f.label()))?;
            pos += n;
            if yielding {
                tokio::task::yield_now().await;
            }
        }
        if with_empty {
            cleaner.add_data(&[]).await.map_err(|e| format!("add_data(empty slice) fails on {} at the end: {e}", f.label()))?;
        }
    }
    let (p, m) = cleaner.finish().await.map_err(|e| format!("finish fails on {}: {e}", f.label()))?;
    if m.total_bytes != f.data.len() {
        return Err(format!("finish on {}: the metrics report {} bytes", f.label(), m.total_bytes));
    }
    Ok(p)
}

#[derive(Debug, Default)]
struct CountingUpdater(std::sync::atomic::AtomicU64);
impl utils::progress::ProgressUpdater for CountingUpdater {
    fn update(&self, increment: u64) {
        self.0.fetch_add(increment, std::sync::atomic::Ordering::Relaxed);
    }
}

/// one session: all files one after the other, or each in its own concurrently running task; finalize_with_file_info
async fn xsession(cfg: Arc<TranslatorConfig>, tp: Arc<ThreadPool>, files: &[XF], concurrent: bool, files_dir: &Path, store: &Path, exact: bool) -> Result<Done, String> {
    let before = store_snap(store);
    // the optional progress updater is given in the concurrent sessions
    let updater: Option<Arc<dyn utils::progress::ProgressUpdater>> = if concurrent { Some(Arc::new(CountingUpdater::default())) } else { None };
    let session = FileUploadSession::new(cfg, tp, updater).await.map_err(|e| format!("FileUploadSession::new fails: {e}"))?;
    let mut pointers: Vec<Option<PointerFile>> = files.iter().map(|_| None).collect();
    if !concurrent {
        for (i, f) in files.iter().enumerate() {
            pointers[i] = Some(feed_one(&session, f, files_dir, false).await?);
        }
    } else {
        let mut tasks = tokio::task::JoinSet::new();
        for (i, f) in files.iter().enumerate() {
            let (s, f, d) = (session.clone(), f.clone(), files_dir.to_path_buf());
            tasks.spawn(async move {
                let r = feed_one(&s, &f, &d, true).await;
                drop(s);
                (i, r)
            });
        }
        let mut first_err: Option<(usize, String)> = None;
        while let Some(j) = tasks.join_next().await {
            match j {
                Ok((i, Ok(p))) => pointers[i] = Some(p),
                Ok((i, Err(e))) => {
                    if first_err.as_ref().map(|(k, _)| i < *k).unwrap_or(true) {
                        first_err = Some((i, e));
                    }
                },
                Err(e) => return Err(format!("a cleaner task panicked or was cancelled: {e}")),
            }
        }
        if let Some((_, e)) = first_err {
            return Err(e);
        }
    }
    let (m, infos) = session.finalize_with_file_info().await.map_err(|e| format!("finalize_with_file_info fails: {e}"))?;
    note_metrics(&m);
    if let Some(w) = check_upload_metrics(&before, store, &m, if exact && !concurrent { XorbBytes::Exact } else { XorbBytes::AtLeast }) {
        return Err(w);
    }
    Ok(Done { pointers: pointers.into_iter().map(|p| p.unwrap()).collect(), infos })
}

/// expected pointer hashes, computed once per (content, salt).  The key is the address of the shared buffer; every entry keeps its
/// buffer alive, so that the address cannot be handed out again for other content while the entry exists.
#[derive(Default)]
struct Refs {
    hash: HashMap<(usize, [u8; 32]), (Arc<Vec<u8>>, MerkleHash)>,
    sha: HashMap<usize, (Arc<Vec<u8>>, String)>,
}
impl Refs {
    fn file_hash(&mut self, l: &Limits, f: &XF, salt: &[u8; 32]) -> MerkleHash {
        self.hash.entry((Arc::as_ptr(&f.data) as usize, *salt)).or_insert_with(|| (f.data.clone(), reference_file_hash(&f.data, l, salt))).1
    }
    fn sha(&mut self, f: &XF) -> String {
        self.sha.entry(Arc::as_ptr(&f.data) as usize).or_insert_with(|| (f.data.clone(), sha256_hex(&f.data))).1.clone()
    }
}

/// pointer (size, hash) and the session's file records (presence, size, segment bytes, SHA-256)
fn check_done(l: &Limits, refs: &mut Refs, salt: &[u8; 32], files: &[XF], done: &Done) -> Option<String> {
    for (f, p) in files.iter().zip(&done.pointers) {
        if !p.is_valid() {
            return Some(format!("{}: the pointer returned by the cleaner is not valid", f.label()));
        }
        if p.filesize() != f.data.len() as u64 {
            return Some(format!("{}: the pointer records size {}", f.label(), p.filesize()));
        }
        let want = refs.file_hash(l, f, salt);
        if *p.hash_string() != want.hex() {
            return Some(format!("{}: the pointer carries hash {} but the hash computed from the bytes alone (reference chunking, aggregate construction, salt {:02x}..) is {}", f.label(), p.hash_string(), salt[0], want.hex()));
        }
        let Some(fi) = done.infos.iter().find(|fi| fi.metadata.file_hash == want) else {
            return Some(format!("{}: finalize_with_file_info returns {} file records, none for this file's hash {}", f.label(), done.infos.len(), want.hex()));
        };
        let seg_bytes: u64 = fi.segments.iter().map(|s| s.unpacked_segment_bytes as u64).sum();
        if fi.file_size() != f.data.len() || seg_bytes != f.data.len() as u64 {
            return Some(format!("{}: its file record has size {} / segment bytes {}", f.label(), fi.file_size(), seg_bytes));
        }
        if fi.segments.iter().any(|s| s.chunk_index_end <= s.chunk_index_start || s.cas_hash == MerkleHash::default()) {
            return Some(format!("{}: its file record has an empty or unnamed segment: {:?}", f.label(), fi.segments));
        }
        match &fi.metadata_ext {
            None => return Some(format!("{}: its file record carries no SHA-256", f.label())),
            Some(ext) => {
                let want_sha = refs.sha(f);
                if ext.sha256.hex() != want_sha {
                    return Some(format!("{}: its file record carries SHA-256 {} but the SHA-256 of the fed bytes is {want_sha}", f.label(), ext.sha256.hex()));
                }
            },
        }
    }
    None
}

/// download through every public path; `thorough` adds the pointer text round trip, smudge_file_from_hash and the edge ranges
async fn xdownload(dl: &FileDownloader, f: &XF, p: &PointerFile, scratch: &Path, thorough: bool) -> Result<(), String> {
    let len = f.data.len() as u64;
    // (range, lenient): lenient = the range reaches beyond the file: an error is accepted, data must be the part inside the file
    let mut ranges: Vec<(Option<(u64, u64)>, bool)> = vec![(None, false)];
    if thorough {
        ranges.push((Some((0, len)), false));
        ranges.push((Some((len / 2, len / 2)), false));
        ranges.push((Some((len, len)), false));
        ranges.push((Some((len / 2, len + 1000)), true));
        if len > 0 {
            ranges.push((Some((0, 1)), false));
            ranges.push((Some((len - 1, len)), false));
        }
        if len > 2 {
            ranges.push((Some((len / 3, 2 * len / 3)), false));
            ranges.push((Some((1, len - 1)), false));
        }
    } else if len > 2 {
        ranges.push((Some((len / 3, 2 * len / 3 + 1)), false));
    }
    let mut q = p.clone();
    if thorough {
        // text round trip
        let text = p.to_string();
        q = PointerFile::init_from_string(&text, p.path());
        if !q.is_valid() || q.hash_string() != p.hash_string() || q.filesize() != p.filesize() || q != *p {
            return Err(format!("{}: the pointer file text {text:?} parses (init_from_string) to valid={} hash={} size={}, the pointer was hash={} size={}", f.label(), q.is_valid(), q.hash_string(), q.filesize(), p.hash_string(), p.filesize()));
        }
        let ppath = scratch.join("pointer.txt");
        std::fs::write(&ppath, &text).map_err(|e| format!("infrastructure: {e}"))?;
        let r = PointerFile::init_from_path(&ppath);
        if !r.is_valid() || r.hash_string() != p.hash_string() || r.filesize() != p.filesize() {
            return Err(format!("{}: the pointer file text {text:?} ({} bytes) written to disk parses (init_from_path) to valid={} hash={} size={}", f.label(), text.len(), r.is_valid(), r.hash_string(), r.filesize()));
        }
    }
    for (k, (r, lenient)) in ranges.into_iter().enumerate() {
        let out = scratch.join("download.bin");
        let _ = std::fs::remove_file(&out);
        let prov = OutputProvider::File(FileProvider::new(out.clone()));
        let range = r.map(|(a, b)| FileRange { start: a, end: b });
        let rdesc = r.map(|r| format!("byte range {r:?}")).unwrap_or("the whole file".into());
        STAT_DOWNLOADS.fetch_add(1, std::sync::atomic::Ordering::Relaxed);
        // alternate between the two public download calls
        let (res, via) = if thorough && k % 2 == 1 {
            let h = q.hash().map_err(|_| format!("{}: PointerFile::hash() of the re-parsed pointer fails", f.label()))?;
            let up: Arc<dyn utils::progress::ProgressUpdater> = Arc::new(CountingUpdater::default());
            (dl.smudge_file_from_hash(&h, &prov, range, Some(up)).await, "smudge_file_from_hash")
        } else {
            (dl.smudge_file_from_pointer(&q, &prov, range, None).await, "smudge_file_from_pointer")
        };
        let n = match res {
            Ok(n) => n,
            Err(_) if lenient => continue,
            Err(e) => return Err(format!("{}: {via} fails for {rdesc}: {e}", f.label())),
        };
        let got = std::fs::read(&out).unwrap_or_default();
        let (a, b) = r.unwrap_or((0, len));
        let want = &f.data[a as usize..b.min(len) as usize];
        if got != want || n != want.len() as u64 {
            let i = got.iter().zip(want.iter()).position(|(x, y)| x != y).unwrap_or(got.len().min(want.len()));
            return Err(format!("{}: {via} for {rdesc} returns {} bytes (reported {n}), the fed data has {} there; first difference at offset {i} of the requested range", f.label(), got.len(), want.len()));
        }
    }
    Ok(())
}

struct Xs {
    tp: Arc<ThreadPool>,
    l: Arc<Limits>,
    cfg_name: String,
    never: bool,
    refs: Refs,
    files_dir: tempfile::TempDir,
    scratch: tempfile::TempDir,
}
impl Xs {
    /// session + pointer / record checks + thorough download of its files + plain re-download of the earlier files of the store
    async fn step(&mut self, ctx: &str, store: &Path, salt: [u8; 32], files: &[XF], concurrent: bool, earlier: &mut Vec<(XF, PointerFile, [u8; 32])>) -> Option<String> {
        let ctx = format!("config {}; extras, {ctx}", self.cfg_name);
        *CURRENT_STEP.lock().unwrap_or_else(|e| e.into_inner()) = format!("{ctx}; files: {}", files.iter().map(|f| format!("'{}' ({} bytes)", f.name, f.data.len())).collect::<Vec<_>>().join(", "));
        let done = match xsession(make_cfg(store, salt, self.never), self.tp.clone(), files, concurrent, self.files_dir.path(), store, self.l.xorb_chunks > 2).await {
            Ok(d) => d,
            Err(e) => return Some(format!("{ctx}: the session does not complete: {e}")),
        };
        if let Some(w) = check_done(&self.l, &mut self.refs, &salt, files, &done) {
            return Some(format!("{ctx}: {w}"));
        }
        let n_shards = std::fs::read_dir(store.join("xet").join("xorbs").join("shards")).map(|d| d.count()).unwrap_or(0);
        STAT_MAX_SHARDS.fetch_max(n_shards, std::sync::atomic::Ordering::Relaxed);
        let dl = match FileDownloader::new(make_cfg(store, salt, self.never), self.tp.clone()).await {
            Ok(d) => d,
            Err(e) => return Some(format!("{ctx}: FileDownloader::new fails: {e}")),
        };
        for (f, p, _) in earlier.iter() {
            if let Err(e) = xdownload(&dl, f, p, self.scratch.path(), false).await {
                return Some(format!("{ctx}: after this session, a file of an EARLIER session of the store: {e}"));
            }
        }
        for (f, p) in files.iter().zip(&done.pointers) {
            if let Err(e) = xdownload(&dl, f, p, self.scratch.path(), true).await {
                return Some(format!("{ctx}: {e}"));
            }
            earlier.push((f.clone(), p.clone(), salt));
        }
        None
    }
}

/// whole fresh chunks followed by the prefix of one more chunk: exactly `total` bytes, chunk lengths known
fn exact_bytes(pool: &mut Pool, l: &Limits, total: usize) -> (Vec<u8>, usize) {
    let mut out = Vec::with_capacity(total);
    let mut n = 0;
    while out.len() < total {
        let c = pool.fresh(l, 1).pop().unwrap();
        let take = c.len().min(total - out.len());
        out.extend_from_slice(&c[..take]);
        n += 1;
    }
    (out, n)
}

/// E10: files of exactly N chunks that fit into ONE ingestion block, fed in one add_data call and in 64 KiB calls
async fn e10(x: &mut Xs, pool: &mut Pool, seed: u64) -> Option<String> {
    let l = x.l.clone();
    let mn = l.target / l.div;
    let one = Feed::Parts(Part::One);
    let zero = [0u8; 32];
    let mut rng = StdRng::seed_from_u64(seed ^ 0xE10);
    let mut random = |n: usize| -> Vec<u8> {
        let mut v = vec![0u8; n];
        rng.fill(&mut v[..]);
        v
    };
    // ---- E10: ONE add_data call (one ingestion block) that yields 511 .. 2049 chunks, against the same bytes fed in 64 KiB calls
    if l.target <= 4096 && l.ingestion >= 1 << 20 {
        let store_a = tempfile::tempdir().unwrap();
        let store_b = tempfile::tempdir().unwrap();
        let (mut ea, mut eb) = (vec![], vec![]);
        let calls64k = Feed::Parts(Part::Cycle(vec![65536]));
        let (mut fa, mut fb) = (vec![], vec![]);
        let counts: &[usize] = if l.target <= 1024 { &[511, 512, 513, 769, 1023, 1025, 1279, 2049] } else { &[512, 513, 769] };
        for &n in counts {
            let chunks = pool.fresh(&l, n);
            let bytes: usize = chunks.iter().map(|c| c.len()).sum();
            if bytes + mn > l.ingestion {
                pool.next -= n;
                continue;
            }
            let data = Arc::new(cat(&[&chunks]));
            let what = format!("exactly {n} fresh chunks: one add_data call of these {bytes} bytes (one ingestion block of {}) yields {n} chunks", l.ingestion);
            fa.push(XF { name: format!("block-{n}"), what: what.clone(), data: data.clone(), feed: one.clone() });
            fb.push(XF { name: format!("block-{n}"), what, data, feed: calls64k.clone() });
            if n == 769 {
                // the same with a tail that only `finish` turns into a chunk
                let data = Arc::new([&cat(&[&pool.fresh(&l, 700)])[..], &random(mn / 2)[..]].concat());
                let what = format!("exactly 700 fresh chunks + {} bytes", mn / 2);
                fa.push(XF { name: "block-700+tail".into(), what: what.clone(), data: data.clone(), feed: one.clone() });
                fb.push(XF { name: "block-700+tail".into(), what, data, feed: calls64k.clone() });
            }
        }
        if !fa.is_empty() {
            if let Some(w) = x.step("E10 (fresh store; every file in ONE add_data call)", store_a.path(), zero, &fa, false, &mut ea).await {
                return Some(w);
            }
            if let Some(w) = x.step("E10 (another fresh store; the same files in add_data calls of 64 KiB)", store_b.path(), zero, &fb, false, &mut eb).await {
                return Some(w);
            }
            for ((f, pa, _), (_, pb, _)) in ea.iter().zip(&eb) {
                if pa.hash_string() != pb.hash_string() || pa.filesize() != pb.filesize() {
                    return Some(format!("config {}; extras, E10: file '{}' ({}) gets pointer ({}, {}) when fed in one add_data call and ({}, {}) when fed in 64 KiB calls", x.cfg_name, f.name, f.what, pa.hash_string(), pa.filesize(), pb.hash_string(), pb.filesize()));
                }
            }
            // one session holding both feeds of one file: the second is fully deduplicated against the first
            let both = [fa[fa.len() - 1].clone(), XF { name: "block-again".into(), ..fb[fb.len() - 1].clone() }];
            if let Some(w) = x.step("E10 (first store again: the largest file in one call, then in 64 KiB calls, in one session)", store_a.path(), zero, &both, false, &mut ea).await {
                return Some(w);
            }
        }
    }
    None
}

async fn extras(tp: Arc<ThreadPool>, l: Arc<Limits>, cfg_name: String, seed: u64, never: bool, e10_only: bool) -> Option<String> {
    let mut pool = Pool { rng: StdRng::seed_from_u64(seed ^ 0xE57A), chunks: vec![], next: 0 };
    let mut rng = StdRng::seed_from_u64(seed ^ 0xE57B);
    let (mn, mx) = (l.target / l.div, l.target * l.mult);
    let small = if l.target >= 65536 { 4096 } else { 300 };
    let one = Feed::Parts(Part::One);
    let smalls = Feed::Parts(Part::Cycle(vec![small, 1, small + 333]));
    let mixed = Feed::Parts(Part::Cycle(vec![2 * l.ingestion + 123, 5, 70_000, l.ingestion, 11]));
    let zero = [0u8; 32];
    let mut random = |n: usize| -> Vec<u8> {
        let mut v = vec![0u8; n];
        rng.fill(&mut v[..]);
        v
    };
    let mut x = Xs { tp, l: l.clone(), cfg_name, never, refs: Refs::default(), files_dir: tempfile::tempdir().unwrap(), scratch: tempfile::tempdir().unwrap() };
    if e10_only {
        return e10(&mut x, &mut pool, seed).await;
    }

    // ---- E1: data_client::clean_file on real files; E2: cleaner API edge cases (one store, two sessions)
    {
        let store = tempfile::tempdir().unwrap();
        let mut earlier = vec![];
        let ing = l.ingestion;
        // the buffer of clean_file is min(file size, ingestion block); 0 is special-cased
        let mut sizes = if ing <= 4 << 20 { vec![0usize, 1, ing - 1, ing, ing + 1] } else { vec![0usize, 1, 100_000, (1 << 20) + 3] };
        if ing <= 1 << 20 {
            sizes.extend([2 * ing, 2 * ing + 7]);
        }
        let mut files: Vec<XF> = sizes.iter().map(|&n| xf(&format!("real-{n}"), format!("{n} fresh random bytes; the ingestion block is {ing}"), random(n), Feed::RealFile)).collect();
        let copy = files[3].clone();
        files.push(XF { name: "real-copy".into(), what: format!("the same bytes as real-{ing}"), ..copy });
        if let Some(w) = x.step("E1 (one session, every file cleaned with data_client::clean_file from disk)", store.path(), zero, &files, false, &mut earlier).await {
            return Some(w);
        }
        let body = cat(&[&pool.fresh(&l, 5)]);
        let api = vec![
            xf("no-add-data", "empty", vec![], Feed::NoAddData),
            xf("only-empty-slices", "empty", vec![], Feed::WithEmpty(Part::One)),
            xf("empty-interleaved-1", "5 fresh chunks", body.clone(), Feed::WithEmpty(Part::Cycle(vec![small, 1, small + 333]))),
            xf("empty-interleaved-2", "the same 5 chunks + 1 byte", [&body[..], &[7u8][..]].concat(), Feed::WithEmpty(Part::Cycle(vec![mx + 1, 1]))),
            xf("plain", "the same 5 chunks", body.clone(), one.clone()),
        ];
        // a cleaner that is fed and dropped without finish, in the same session, must not disturb the others: done inside a
        // dedicated session below (E4); here the API shapes only
        if let Some(w) = x.step("E2 (second session of the E1 store)", store.path(), zero, &api, false, &mut earlier).await {
            return Some(w);
        }
    }

    // ---- E3: boundary sizes
    {
        let mut files = vec![];
        for (tag, n) in [("min-1", mn - 1), ("min", mn), ("min+1", mn + 1), ("max-1", mx - 1), ("max", mx), ("max+1", mx + 1)] {
            files.push(xf(&format!("random-{tag}"), format!("{n} random bytes; chunk sizes are {mn}..{mx}"), random(n), if files.len() % 2 == 0 { one.clone() } else { smalls.clone() }));
        }
        for (tag, n) in [("max-1", mx - 1), ("max", mx), ("max+1", mx + 1), ("2max", 2 * mx), ("2max+1", 2 * mx + 1)] {
            files.push(xf(&format!("zeros-{tag}"), format!("{n} zero bytes; the maximum chunk is {mx}"), vec![0u8; n], if files.len() % 2 == 0 { one.clone() } else { mixed.clone() }));
        }
        let (c1, c3) = (pool.fresh(&l, 1), pool.fresh(&l, 3));
        files.push(xf("last-chunk-1-byte-a", "1 whole chunk + 1 byte", [&cat(&[&c1])[..], &[0x5a][..]].concat(), one.clone()));
        files.push(xf("last-chunk-1-byte-b", "3 whole chunks + 1 byte", [&cat(&[&c3])[..], &[0xa5][..]].concat(), smalls.clone()));
        let n_common = files.len();
        if l.xorb_bytes <= 4_000_000 {
            for (tag, n) in [("-1", l.xorb_bytes - 1), ("", l.xorb_bytes), ("+1", l.xorb_bytes + 1)] {
                let (d, k) = exact_bytes(&mut pool, &l, n);
                if k <= l.xorb_chunks {
                    files.push(xf(&format!("xorb-bytes{tag}"), format!("{k} fresh chunks of together exactly {n} bytes; the xorb limit is {} bytes", l.xorb_bytes), d, if tag.is_empty() { one.clone() } else { mixed.clone() }));
                }
            }
        }
        if l.xorb_chunks <= 100 {
            for (tag, k) in [("-1", l.xorb_chunks - 1), ("", l.xorb_chunks), ("+1", l.xorb_chunks + 1)] {
                if k > 0 {
                    files.push(xf(&format!("xorb-chunks{tag}"), format!("exactly {k} fresh chunks; the xorb limit is {} chunks", l.xorb_chunks), cat(&[&pool.fresh(&l, k)]), if tag.is_empty() { one.clone() } else { smalls.clone() }));
                }
            }
        }
        let store = tempfile::tempdir().unwrap();
        let mut earlier = vec![];
        if let Some(w) = x.step("E3 (boundary sizes, all files in one session)", store.path(), zero, &files, false, &mut earlier).await {
            return Some(w);
        }
        // the exact-xorb files, each alone in its own session of a fresh store (nothing else in the session-level aggregate)
        let store = tempfile::tempdir().unwrap();
        let mut earlier = vec![];
        for f in files[n_common..].iter().rev() {
            if let Some(w) = x.step(&format!("E3 (fresh store, one session per file in reverse order; this session: '{}' alone)", f.name), store.path(), zero, std::slice::from_ref(f), false, &mut earlier).await {
                return Some(w);
            }
        }
    }

    // ---- E4: histories
    {
        let store = tempfile::tempdir().unwrap();
        let mut earlier = vec![];
        let bx = pool.fresh_xorb(&l);
        let base_chunks: Vec<Arc<Vec<u8>>> = [bx, pool.fresh(&l, 8)].concat();
        let nb = base_chunks.len();
        let base = cat(&[&base_chunks]);
        let starts: Vec<usize> = base_chunks.iter().scan(0usize, |p, c| { let s = *p; *p += c.len(); Some(s) }).collect();
        let poison_chunks: Vec<Arc<Vec<u8>>> = [pool.fresh_xorb(&l), pool.fresh(&l, 3)].concat();
        let poison = cat(&[&poison_chunks]);
        #[allow(unused_assignments)]
        let mut abandoned_gone = false;
        // (0) a session that is abandoned: two files finished, a third cleaner fed with all but 10 bytes of 'base' (its first xorb is cut and registered), nothing finalized
        {
            let ctx = format!("config {}; extras, E4 session 0 (to be dropped without finalize)", x.cfg_name);
            let session = match FileUploadSession::new(make_cfg(store.path(), zero, never), x.tp.clone(), None).await { Ok(s) => s, Err(e) => return Some(format!("{ctx}: FileUploadSession::new fails: {e}")) };
            for f in [xf("poison", "fresh chunks", poison.clone(), one.clone()), xf("base", "fresh chunks", base.clone(), smalls.clone())] {
                if let Err(e) = feed_one(&session, &f, x.files_dir.path(), false).await {
                    return Some(format!("{ctx}: {e}"));
                }
            }
            let mut half = session.start_clean("half".into());
            if let Err(e) = half.add_data(&base[..base.len() - 10]).await {
                return Some(format!("{ctx}: add_data fails: {e}"));
            }
            // Every upload task holds an Arc of its session (and the session owns the tasks), so an abandoned session lives - and
            // keeps writing xorbs into the store - until its last upload task has finished.  Wait until it is really gone before the
            // next session's window opens; should it outlive 10 s, only "reported <= appeared" is sound for the next session.
            let weak = Arc::downgrade(&session);
            drop(half);
            drop(session);
            let t = std::time::Instant::now();
            while weak.upgrade().is_some() && t.elapsed() < std::time::Duration::from_secs(10) {
                tokio::time::sleep(std::time::Duration::from_millis(5)).await;
            }
            abandoned_gone = weak.upgrade().is_none();
        }
        let f_poison = xf("poison", format!("{} fresh chunks; the same file was cleaned and finished in session 0, which was dropped without finalize", poison_chunks.len()), poison.clone(), smalls.clone());
        let f_base = xf("base", format!("{nb} fresh chunks (one full xorb + 8); also cleaned in the abandoned session 0"), base.clone(), one.clone());
        // a cleaner fed and dropped inside a session that IS finalized
        {
            let ctx = format!("config {}; extras, E4 session 1 after an abandoned session 0 (first a cleaner fed with all but 10 bytes of 'base' and dropped without finish, then 'poison', 'base')", x.cfg_name);
            let before = store_snap(store.path());
            let session = match FileUploadSession::new(make_cfg(store.path(), zero, never), x.tp.clone(), None).await { Ok(s) => s, Err(e) => return Some(format!("{ctx}: FileUploadSession::new fails: {e}")) };
            let mut half = session.start_clean("half".into());
            if let Err(e) = half.add_data(&base[..base.len() - 10]).await {
                return Some(format!("{ctx}: add_data fails: {e}"));
            }
            drop(half);
            let files = [f_poison.clone(), f_base.clone()];
            let mut pointers = vec![];
            for f in &files {
                match feed_one(&session, f, x.files_dir.path(), false).await { Ok(p) => pointers.push(p), Err(e) => return Some(format!("{ctx}: {e}")) }
            }
            let infos = match session.finalize_with_file_info().await {
                Ok((m, i)) => {
                    note_metrics(&m);
                    if let Some(w) = check_upload_metrics(&before, store.path(), &m, match (abandoned_gone, l.xorb_chunks > 2) { (true, true) => XorbBytes::Exact, (true, false) => XorbBytes::AtLeast, (false, true) => XorbBytes::AtMost, (false, false) => XorbBytes::Unchecked }) {
                        return Some(format!("{ctx}: {w}"));
                    }
                    i
                },
                Err(e) => return Some(format!("{ctx}: finalize_with_file_info fails: {e}")),
            };
            let done = Done { pointers, infos };
            if let Some(w) = check_done(&l, &mut x.refs, &zero, &files, &done) {
                return Some(format!("{ctx}: {w}"));
            }
            let dl = match FileDownloader::new(make_cfg(store.path(), zero, never), x.tp.clone()).await { Ok(d) => d, Err(e) => return Some(format!("{ctx}: FileDownloader::new fails: {e}")) };
            for (f, p) in files.iter().zip(&done.pointers) {
                if let Err(e) = xdownload(&dl, f, p, x.scratch.path(), true).await {
                    return Some(format!("{ctx}: {e}"));
                }
                earlier.push((f.clone(), p.clone(), zero));
            }
        }
        // slices of `base`: [from chunk a (+ off bytes), to chunk b (+ off bytes))
        let slices = |prefix: &str, origin: &str, feed_a: &Feed, feed_b: &Feed| -> Vec<XF> {
            let (q1, q2, q3) = (nb / 4, nb / 2, 3 * nb / 4);
            let mid = |k: usize| starts[k] + base_chunks[k].len() / 2;
            vec![
                xf(&format!("{prefix}prefix-aligned"), format!("the first {q2} chunks of {origin}"), base[..starts[q2]].to_vec(), feed_a.clone()),
                xf(&format!("{prefix}prefix-unaligned"), format!("the first {} bytes of {origin} (ends inside its chunk {q3})", mid(q3)), base[..mid(q3)].to_vec(), feed_b.clone()),
                xf(&format!("{prefix}suffix-aligned"), format!("{origin} from its chunk {q1} on"), base[starts[q1]..].to_vec(), feed_b.clone()),
                xf(&format!("{prefix}suffix-unaligned"), format!("{origin} from byte {} on (inside its chunk {q2})", mid(q2)), base[mid(q2)..].to_vec(), feed_a.clone()),
                xf(&format!("{prefix}middle-aligned"), format!("chunks {q1}..{q3} of {origin}"), base[starts[q1]..starts[q3]].to_vec(), feed_a.clone()),
                xf(&format!("{prefix}middle-unaligned"), format!("bytes {}..{} of {origin} (from inside chunk {q1} to inside chunk {q3})", mid(q1), mid(q3)), base[mid(q1)..mid(q3)].to_vec(), feed_b.clone()),
                xf(&format!("{prefix}last-byte-cut"), format!("{origin} without its last byte"), base[..base.len() - 1].to_vec(), feed_a.clone()),
                xf(&format!("{prefix}first-byte-cut"), format!("{origin} without its first byte"), base[1..].to_vec(), feed_b.clone()),
            ]
        };
        let mut s2 = slices("", "'base' (session 1)", &one, &smalls);
        let (n1, n2) = (pool.fresh(&l, 3), pool.fresh(&l, 1));
        let (h1, h2) = (2.min(nb - 1), (nb / 2 + 1).min(nb - 1));
        s2.push(xf(
            "hit-new-hit",
            format!("chunks {h1}..{} of 'base', 3 fresh chunks, chunks {h2}..{} of 'base', 1 fresh chunk, the last 2 chunks of 'poison'", (h1 + 4).min(nb), (h2 + 4).min(nb)),
            cat(&[&base_chunks[h1..(h1 + 4).min(nb)], &n1, &base_chunks[h2..(h2 + 4).min(nb)], &n2, &poison_chunks[poison_chunks.len() - 2..]]),
            mixed.clone(),
        ));
        s2.push(xf("base-again", "identical to 'base': fully deduplicated", base.clone(), smalls.clone()));
        if let Some(w) = x.step("E4 session 2 (slices of a file of session 1)", store.path(), zero, &s2, false, &mut earlier).await {
            return Some(w);
        }
        // the same shapes inside ONE session in a fresh store: base first, then its slices (answered by the session's own shard)
        let store2 = tempfile::tempdir().unwrap();
        let mut earlier2 = vec![];
        let mut s3 = vec![xf("base", format!("{nb} fresh chunks (one full xorb + 8)"), base.clone(), mixed.clone())];
        s3.extend(slices("same-session-", "'base' (cleaned first in this session)", &smalls, &one));
        if let Some(w) = x.step("E4 (fresh store, ONE session: 'base', then its slices)", store2.path(), zero, &s3, false, &mut earlier2).await {
            return Some(w);
        }
    }

    // ---- E5: many tiny files in one session; E6: concurrent cleaner tasks
    {
        let store = tempfile::tempdir().unwrap();
        let mut earlier = vec![];
        let mut files: Vec<XF> = vec![];
        let (mut bytes, mut chunks) = (0usize, 0usize);
        while files.len() < 220 && !(bytes > l.xorb_bytes.saturating_mul(5) / 2 || chunks > l.xorb_chunks * 5 / 2 + 3) {
            let k = files.len();
            let (d, n, what) = if k % 7 == 6 {
                ((*files[1].data).clone(), 2, "identical to tiny-1".to_string())
            } else if k % 3 == 0 {
                let n = 1 + (k * 37) % (mn - 1);
                (random(n), 1, format!("{n} random bytes (less than a minimum chunk)"))
            } else {
                let c = pool.fresh(&l, 1);
                let t = 1 + (k * 53) % (mn / 2);
                ([&c[0][..], &random(t)[..]].concat(), 2, format!("one fresh chunk + {t} random bytes"))
            };
            bytes += d.len();
            chunks += n;
            files.push(xf(&format!("tiny-{k}"), what, d, if k % 2 == 0 { one.clone() } else { smalls.clone() }));
        }
        let n_tiny = files.len();
        if let Some(w) = x.step(&format!("E5 (one session of {n_tiny} tiny files, {bytes} bytes in about {chunks} chunks: the session-level xorb is cut several times)"), store.path(), zero, &files, false, &mut earlier).await {
            return Some(w);
        }
        // E6
        let s = pool.fresh(&l, 12);
        let (p1, p2) = (pool.fresh(&l, 2), pool.fresh(&l, 3));
        let fx = pool.fresh_xorb(&l);
        let mut conc = vec![
            xf("conc-S", "12 fresh chunks S", cat(&[&s]), smalls.clone()),
            xf("conc-S-copy", "identical to conc-S", cat(&[&s]), one.clone()),
            xf("conc-S-shifted", "2 fresh chunks, then chunks 2.. of S", cat(&[&p1, &s[2..]]), smalls.clone()),
            xf("conc-S-head", "chunks 0..8 of S, then 3 fresh", cat(&[&s[..8], &p2]), mixed.clone()),
            xf("conc-fresh-1", "one full xorb of fresh chunks + 2", cat(&[&fx, &pool.fresh(&l, 2)]), smalls.clone()),
            xf("conc-fresh-2", "7 fresh chunks", cat(&[&pool.fresh(&l, 7)]), smalls.clone()),
            xf("conc-real", "5 fresh chunks, cleaned with clean_file from disk", cat(&[&pool.fresh(&l, 5)]), Feed::RealFile),
            xf("conc-empty", "empty", vec![], Feed::NoAddData),
        ];
        for k in 0..6 {
            let n = 1 + (k * 211) % (mn - 1);
            conc.push(xf(&format!("conc-tiny-{k}"), format!("{n} random bytes"), random(n), one.clone()));
        }
        for round in 0..2 {
            // round 1 repeats the session in the same store: everything is known now
            if let Some(w) = x.step(&format!("E6 round {round} (store of E5; ONE session, {} files each cleaned by its own concurrently running task)", conc.len()), store.path(), zero, &conc, true, &mut earlier).await {
                return Some(w);
            }
        }
    }

    // ---- E7: salts
    {
        let store = tempfile::tempdir().unwrap();
        let mut earlier = vec![];
        let m = pool.fresh(&l, 9);
        let files = vec![
            xf("salt-one-byte", "a single byte", vec![0x42], one.clone()),
            xf("salt-sub-chunk", "less than a minimum chunk", random(mn / 2), one.clone()),
            xf("salt-multi", "9 fresh chunks", cat(&[&m]), smalls.clone()),
            xf("salt-multi-tail", "chunks 3.. of salt-multi + 1 byte", [&cat(&[&m[3..]])[..], &[1u8][..]].concat(), mixed.clone()),
            xf("salt-empty", "empty", vec![], one.clone()),
        ];
        let salts = [[0x11u8; 32], { let mut s = [0x11u8; 32]; s[31] = 0x12; s }, zero, { let mut s = [0u8; 32]; s[0] = 1; s }];
        for (i, salt) in salts.iter().enumerate() {
            if let Some(w) = x.step(&format!("E7 (ONE store; session {} of 4, repo salt {:02x}{:02x}..{:02x})", i + 1, salt[0], salt[1], salt[31]), store.path(), *salt, &files, false, &mut earlier).await {
                return Some(w);
            }
        }
        // different salts -> different hashes (the empty file has the all-zero hash under every salt on HEAD: known, not re-reported)
        for f in files.iter().filter(|f| !f.data.is_empty()) {
            let hs: Vec<&String> = earlier.iter().filter(|(g, _, _)| g.name == f.name).map(|(_, p, _)| p.hash_string()).collect();
            for i in 0..hs.len() {
                for j in 0..i {
                    if hs[i] == hs[j] {
                        return Some(format!("config {}; extras, E7: {} gets the same pointer hash {} under the repo salts of sessions {} and {}", x.cfg_name, f.label(), hs[i], j + 1, i + 1));
                    }
                }
            }
        }
        // a FileDownloader configured with another salt still finds every file by hash (the salt is part of the hash, not of the lookup)
        let dl = match FileDownloader::new(make_cfg(store.path(), [0x77; 32], never), x.tp.clone()).await { Ok(d) => d, Err(e) => return Some(format!("config {}; extras, E7: FileDownloader::new fails: {e}", x.cfg_name)) };
        for (f, p, _) in earlier.iter() {
            if let Err(e) = xdownload(&dl, f, p, x.scratch.path(), false).await {
                return Some(format!("config {}; extras, E7 (all four sessions done): {e}", x.cfg_name));
            }
        }
    }
    // ---- E8: two sessions alive at the same time on one store (one process: they share the cached shard-cache manager)
    {
        let store = tempfile::tempdir().unwrap();
        let ctx = format!("config {}; extras, E8 (fresh store; sessions a and b open at the same time: a cleans F1 while b cleans F2 = 2 fresh chunks + chunks 3.. of F1; a finalizes; b cleans F1 and F3 = F1 without its first chunk; b finalizes)", x.cfg_name);
        let c1: Vec<Arc<Vec<u8>>> = [pool.fresh_xorb(&l), pool.fresh(&l, 6)].concat();
        let f1 = xf("F1", format!("{} fresh chunks", c1.len()), cat(&[&c1]), smalls.clone());
        let f2 = xf("F2", "2 fresh chunks + chunks 3.. of F1", cat(&[&pool.fresh(&l, 2), &c1[3..]]), smalls.clone());
        let f3 = xf("F3", "F1 without its first chunk", cat(&[&c1[1..]]), one.clone());
        let mk = || FileUploadSession::new(make_cfg(store.path(), zero, never), x.tp.clone(), None);
        let a = match mk().await { Ok(s) => s, Err(e) => return Some(format!("{ctx}: FileUploadSession::new (a) fails: {e}")) };
        let b = match mk().await { Ok(s) => s, Err(e) => return Some(format!("{ctx}: FileUploadSession::new (b) fails while session a is open: {e}")) };
        let (mut ca, mut cb) = (a.start_clean("F1".into()), b.start_clean("F2".into()));
        let (pa, pb) = (pieces(f1.data.len(), &Part::Cycle(vec![small * 3])), pieces(f2.data.len(), &Part::Cycle(vec![small * 3 + 1])));
        let (mut oa, mut ob) = (0, 0);
        for k in 0..pa.len().max(pb.len()) {
            if k < pa.len() {
                if let Err(e) = ca.add_data(&f1.data[oa..oa + pa[k]]).await { return Some(format!("{ctx}: add_data on F1 fails at offset {oa}: {e}")); }
                oa += pa[k];
            }
            if k < pb.len() {
                if let Err(e) = cb.add_data(&f2.data[ob..ob + pb[k]]).await { return Some(format!("{ctx}: add_data on F2 fails at offset {ob}: {e}")); }
                ob += pb[k];
            }
        }
        let p1 = match ca.finish().await { Ok((p, _)) => p, Err(e) => return Some(format!("{ctx}: finish of F1 fails: {e}")) };
        let p2 = match cb.finish().await { Ok((p, _)) => p, Err(e) => return Some(format!("{ctx}: finish of F2 fails: {e}")) };
        let ia = match a.finalize_with_file_info().await { Ok((m, i)) => { note_metrics(&m); i }, Err(e) => return Some(format!("{ctx}: finalize of a fails: {e}")) };
        let p1b = match feed_one(&b, &f1, x.files_dir.path(), false).await { Ok(p) => p, Err(e) => return Some(format!("{ctx}: in b after a's finalize: {e}")) };
        let p3 = match feed_one(&b, &f3, x.files_dir.path(), false).await { Ok(p) => p, Err(e) => return Some(format!("{ctx}: in b after a's finalize: {e}")) };
        let ib = match b.finalize_with_file_info().await { Ok((m, i)) => { note_metrics(&m); i }, Err(e) => return Some(format!("{ctx}: finalize of b fails: {e}")) };
        if let Some(w) = check_done(&l, &mut x.refs, &zero, std::slice::from_ref(&f1), &Done { pointers: vec![p1.clone()], infos: ia }) {
            return Some(format!("{ctx}: session a: {w}"));
        }
        let fb = [f2, f1.clone(), f3];
        let db = Done { pointers: vec![p2, p1b, p3], infos: ib };
        if let Some(w) = check_done(&l, &mut x.refs, &zero, &fb, &db) {
            return Some(format!("{ctx}: session b: {w}"));
        }
        let dl = match FileDownloader::new(make_cfg(store.path(), zero, never), x.tp.clone()).await { Ok(d) => d, Err(e) => return Some(format!("{ctx}: FileDownloader::new fails: {e}")) };
        for (f, p) in fb.iter().zip(&db.pointers).chain(std::iter::once((&f1, &p1))) {
            if let Err(e) = xdownload(&dl, f, p, x.scratch.path(), false).await {
                return Some(format!("{ctx}: {e}"));
            }
        }
    }
    // ---- E9: more than 128 fragmented dedup ranges in one file (the fragmentation estimator works on the last 128 ranges by default)
    if l.target <= 4096 {
        let store = tempfile::tempdir().unwrap();
        let mut earlier = vec![];
        let known = pool.fresh(&l, 150);
        let fresh = pool.fresh(&l, 150);
        let f_known = xf("frag-known", "150 fresh chunks K", cat(&[&known]), one.clone());
        if let Some(w) = x.step("E9 session 1", store.path(), zero, std::slice::from_ref(&f_known), false, &mut earlier).await {
            return Some(w);
        }
        let mut alt: Vec<Arc<Vec<u8>>> = vec![];
        for i in 0..150 {
            alt.push(known[i].clone());
            alt.push(fresh[i].clone());
        }
        alt.extend_from_slice(&known[10..40]);
        alt.extend_from_slice(&fresh[5..8]);
        let mut hop: Vec<Arc<Vec<u8>>> = vec![];
        for i in 0..70 {
            hop.push(known[i].clone());
            hop.push(known[75 + i].clone());
        }
        hop.extend_from_slice(&known[100..130]);
        for i in 0..40 {
            hop.push(known[149 - i].clone());
        }
        // dedup ranges of TWO chunks between new ranges of four: about 3 chunks per range, so pairs are withheld too
        let fresh2 = pool.fresh(&l, 280);
        let mut pairs: Vec<Arc<Vec<u8>>> = vec![];
        for i in 0..70 {
            pairs.extend_from_slice(&known[2 * i..2 * i + 2]);
            pairs.extend_from_slice(&fresh2[4 * i..4 * i + 4]);
        }
        pairs.extend_from_slice(&known[140..150]);
        let files = vec![
            xf("frag-pairs", "K[0..2], 4 new, K[2..4], 4 new, ... (70 times), then K[140..150]", cat(&[&pairs]), one.clone()),
            xf("frag-alternating", "K[0], new, K[1], new, ... K[149], new (300 ranges of one chunk), then K[10..40], then 3 of the new chunks again", cat(&[&alt]), smalls.clone()),
            xf("frag-hopping", "K[0], K[75], K[1], K[76], ... (140 one-chunk ranges, all known), K[100..130], then K[149], K[148], ... K[110]", cat(&[&hop]), mixed.clone()),
            xf("frag-known-again", "identical to frag-known", cat(&[&known]), smalls.clone()),
        ];
        if let Some(w) = x.step("E9 session 2 (store holds 'frag-known' = 150 chunks K)", store.path(), zero, &files, false, &mut earlier).await {
            return Some(w);
        }
    }
    e10(&mut x, &mut pool, seed).await
}

/// Histories across processes.  Phase 1 uploads and leaves pointer FILES; phase 2 cleans files in a session and the process exits
/// without finalize (nothing is dropped: the session directory stays behind); phase 3, a fresh process, reads the pointer files
/// (`PointerFile::init_from_path`), downloads, uploads content related to phases 1 and 2, downloads everything.
async fn phased(tp: Arc<ThreadPool>, l: Arc<Limits>, cfg_name: String, seed: u64, salt: [u8; 32], never: bool, phase: u8, dir: std::path::PathBuf) -> Option<String> {
    let mut pool = Pool { rng: StdRng::seed_from_u64(seed ^ 0x9A5E), chunks: vec![], next: 0 };
    let mut rng = StdRng::seed_from_u64(seed ^ 0x9A5F);
    let small = 300;
    let one = Feed::Parts(Part::One);
    let smalls = Feed::Parts(Part::Cycle(vec![small, 1, small + 333]));
    let mixed = Feed::Parts(Part::Cycle(vec![2 * l.ingestion + 123, 5, 70_000, l.ingestion, 11]));
    // the same inputs in every phase
    let base_chunks: Vec<Arc<Vec<u8>>> = [pool.fresh_xorb(&l), pool.fresh(&l, 8)].concat();
    let second: Vec<Arc<Vec<u8>>> = [pool.fresh_xorb(&l), pool.fresh(&l, 5)].concat();
    let crash_chunks: Vec<Arc<Vec<u8>>> = [pool.fresh_xorb(&l), pool.fresh_xorb(&l), pool.fresh(&l, 4)].concat();
    let later = pool.fresh(&l, 6);
    let mut sub = vec![0u8; l.target / l.div / 2];
    rng.fill(&mut sub[..]);
    let nb = base_chunks.len();
    let base = cat(&[&base_chunks]);
    let files1 = vec![
        xf("base", format!("{nb} fresh chunks (one full xorb + 8)"), base.clone(), smalls.clone()),
        xf("one-byte", "a single byte", vec![0x42], one.clone()),
        xf("sub-chunk", "less than a minimum chunk", sub, one.clone()),
        xf("second", format!("{} fresh chunks", second.len()), cat(&[&second]), Feed::RealFile),
        xf("empty", "empty", vec![], Feed::NoAddData),
    ];
    let files2 = vec![
        xf("crash-fresh", format!("{} fresh chunks (two full xorbs + 4)", crash_chunks.len()), cat(&[&crash_chunks]), smalls.clone()),
        xf("crash-slice", "chunks 2..9 of 'base' (process 1) + 3 chunks of 'crash-fresh'", cat(&[&base_chunks[2..9.min(nb)], &crash_chunks[1..4]]), one.clone()),
    ];
    let mid = base_chunks[..nb / 2].iter().map(|c| c.len()).sum::<usize>() + base_chunks[nb / 2].len() / 2;
    let files3 = vec![
        xf("crash-fresh", format!("{} fresh chunks; also cleaned (and finished) by the process that died without finalize", crash_chunks.len()), cat(&[&crash_chunks]), one.clone()),
        xf("base-again", "identical to 'base' of process 1", base.clone(), one.clone()),
        xf("base-prefix-unaligned", format!("the first {mid} bytes of 'base' of process 1"), base[..mid].to_vec(), smalls.clone()),
        xf("base-suffix", format!("'base' of process 1 from its chunk {} on, then 6 fresh chunks", nb / 3), cat(&[&base_chunks[nb / 3..], &later]), mixed.clone()),
        xf("mix", "chunks 1..5 of 'second' (process 1), chunks 3..9 of 'crash-fresh', 2 chunks of 'base'", cat(&[&second[1..5], &crash_chunks[3..9], &base_chunks[..2]]), smalls.clone()),
    ];
    let store = dir.join("store");
    let ptr_dir = dir.join("pointers");
    std::fs::create_dir_all(&ptr_dir).unwrap();
    let mut x = Xs { tp, l: l.clone(), cfg_name: cfg_name.clone(), never, refs: Refs::default(), files_dir: tempfile::tempdir().unwrap(), scratch: tempfile::tempdir().unwrap() };
    match phase {
        1 => {
            let mut earlier = vec![];
            if let Some(w) = x.step("process 1 (fresh store)", &store, salt, &files1, false, &mut earlier).await {
                return Some(w);
            }
            for (f, p, _) in &earlier {
                std::fs::write(ptr_dir.join(&f.name), p.to_string()).unwrap();
            }
            None
        },
        2 => {
            let ctx = format!("config {cfg_name}; process 2 (a session that is never finalized)");
            let session = match FileUploadSession::new(make_cfg(&store, salt, never), x.tp.clone(), None).await { Ok(s) => s, Err(e) => return Some(format!("{ctx}: FileUploadSession::new fails: {e}")) };
            for f in &files2 {
                if let Err(e) = feed_one(&session, f, x.files_dir.path(), false).await {
                    return Some(format!("{ctx}: {e}"));
                }
            }
            let mut half = session.start_clean("half".into());
            if let Err(e) = half.add_data(&base[..base.len() - 10]).await {
                return Some(format!("{ctx}: add_data fails: {e}"));
            }
            tokio::time::sleep(std::time::Duration::from_millis(100)).await;
            // die: no destructor runs, the session directory and whatever was uploaded stay behind
            std::process::exit(0);
        },
        _ => {
            let ctx = format!("config {cfg_name}; last process (fresh process over the store and shard cache left by the earlier ones)");
            let mut earlier = vec![];
            for f in &files1 {
                let p = PointerFile::init_from_path(ptr_dir.join(&f.name));
                let want = x.refs.file_hash(&l, f, &salt);
                if !p.is_valid() || *p.hash_string() != want.hex() || p.filesize() != f.data.len() as u64 {
                    return Some(format!("{ctx}: the pointer file written by process 1 for {} ({:?}) is read back by init_from_path as valid={} hash={} size={}; expected hash {}", f.label(), std::fs::read_to_string(ptr_dir.join(&f.name)).unwrap_or_default(), p.is_valid(), p.hash_string(), p.filesize(), want.hex()));
                }
                earlier.push((f.clone(), p, salt));
            }
            let dl = match FileDownloader::new(make_cfg(&store, salt, never), x.tp.clone()).await { Ok(d) => d, Err(e) => return Some(format!("{ctx}: FileDownloader::new fails: {e}")) };
            for (f, p, _) in &earlier {
                if let Err(e) = xdownload(&dl, f, p, x.scratch.path(), true).await {
                    return Some(format!("{ctx}: before any upload of this process: {e}"));
                }
            }
            drop(dl);
            x.step("last process (fresh process over the store and shard cache left by the earlier ones), its session", &store, salt, &files3, false, &mut earlier).await
        },
    }
}

fn child(idx: usize, phase: u8, dir: Option<std::path::PathBuf>) -> i32 {
    let c = &CONFIGS[idx];
    let cfg_name = c.name;
    let t0 = std::time::Instant::now();
    let l = Limits {
        target: *deduplication::constants::TARGET_CHUNK_SIZE,
        div: *deduplication::constants::MINIMUM_CHUNK_DIVISOR,
        mult: *deduplication::constants::MAXIMUM_CHUNK_MULTIPLIER,
        xorb_bytes: *deduplication::constants::MAX_XORB_BYTES,
        xorb_chunks: *deduplication::constants::MAX_XORB_CHUNKS,
        ingestion: std::env::var("HF_XET_INGESTION_BLOCK_SIZE").ok().and_then(|s| s.parse().ok()).unwrap_or(8 << 20),
    };
    for (k, v) in c.env {
        let got = match *k {
            "HF_XET_MAX_XORB_BYTES" => l.xorb_bytes,
            "HF_XET_MAX_XORB_CHUNKS" => l.xorb_chunks,
            "HF_XET_TARGET_CHUNK_SIZE" => l.target,
            "HF_XET_MINIMUM_CHUNK_DIVISOR" => l.div,
            "HF_XET_MAXIMUM_CHUNK_MULTIPLIER" => l.mult,
            "HF_XET_MDB_SHARD_MIN_TARGET_SIZE" => *mdb_shard::constants::MDB_SHARD_MIN_TARGET_SIZE as usize,
            _ => continue,
        };
        if got.to_string() != *v {
            println!("infrastructure: {k}={v} was not picked up by this build (value {got})");
            return 2;
        }
    }
    if !sha256_selftest() {
        println!("infrastructure: the harness's own SHA-256 fails its test vectors");
        return 2;
    }
    let seed = std::env::var("VERIF_SEED").ok().and_then(|s| s.parse().ok()).unwrap_or(0u64);
    let salt = [c.salt; 32];
    let (full, never, e10_only) = (c.full, c.never, c.e10_only);
    let l = Arc::new(l);
    let tp = Arc::new(ThreadPool::new().expect("runtime"));
    let tp2 = tp.clone();
    let r = tp.external_run_async_task(async move {
        if let Some(dir) = dir {
            let w = phased(tp2, l, cfg_name.to_string(), seed, salt, never, phase, dir).await;
            return (w, t0.elapsed());
        }
        // the extras run beside the three-store scenario, in their own stores
        let no_extras = std::env::var("VERIF_C01_NO_EXTRAS").is_ok();
        let (tp3, l3) = (tp2.clone(), l.clone());
        let ex = tokio::spawn(async move { if no_extras { None } else { extras(tp3, l3, cfg_name.to_string(), seed, never, e10_only).await } });
        let main = if full {
            let (specs, sessions) = build(&l, seed);
            run_all(tp2, l.clone(), Arc::new(specs), Arc::new(sessions), cfg_name.to_string(), salt, never).await
        } else {
            None
        };
        let t_main = t0.elapsed();
        let ex = match ex.await {
            Ok(w) => w,
            Err(e) => Some(format!("the upload / download pipeline panicked or was aborted: {e}; last step started: {}", CURRENT_STEP.lock().unwrap_or_else(|e| e.into_inner()))),
        };
        (main.or(ex), t_main)
    });
    if std::env::var("VERIF_C01_TIMING").is_ok() {
        use std::sync::atomic::Ordering::Relaxed;
        eprintln!(
            "timing {}: three-store scenario {:.1?}, all {:.1?}; {} sessions finalized, {} chunks deduplicated, {} new, {} withheld by the fragmentation check, {} extras downloads, at most {} shard files in an extras store",
            &cfg_name[..1], r.as_ref().map(|r| r.1).unwrap_or_default(), t0.elapsed(), STAT_SESSIONS.load(Relaxed), STAT_DEDUP_CHUNKS.load(Relaxed), STAT_NEW_CHUNKS.load(Relaxed), STAT_DEFRAG_CHUNKS.load(Relaxed), STAT_DOWNLOADS.load(Relaxed), STAT_MAX_SHARDS.load(Relaxed)
        );
    }
    match r {
        Ok((None, _)) => { println!("no violation found"); 0 },
        Ok((Some(w), _)) => { println!("WITNESS {w}"); 1 },
        Err(e) => { println!("WITNESS config {cfg_name}: the upload / download pipeline panicked or was aborted: {e}"); 1 },
    }
}

fn main() {
    let args: Vec<String> = std::env::args().collect();
    if args.len() == 3 && args[1] == "--child" {
        std::process::exit(child(args[2].parse().unwrap(), 0, None));
    }
    if args.len() == 5 && args[1] == "--child" {
        std::process::exit(child(args[2].parse().unwrap(), args[3].parse().unwrap(), Some(args[4].clone().into())));
    }
    let exe = std::env::current_exe().unwrap();
    let timing = std::env::var("VERIF_C01_TIMING").is_ok();
    // VERIF_C01_ONLY=A,E,... restricts the children (debugging aid)
    let only: Option<Vec<String>> = std::env::var("VERIF_C01_ONLY").ok().map(|s| s.split(',').map(|x| x.trim().to_string()).collect());
    let chosen: Vec<usize> = (0..CONFIGS.len())
        .filter(|&i| match &only {
            Some(o) => o.iter().any(|x| CONFIGS[i].name.starts_with(x.as_str())),
            None => CONFIGS[i].opt_in.map(|v| std::env::var(v).is_ok()).unwrap_or(true),
        })
        .collect();
    let handles: Vec<_> = chosen
        .iter()
        .map(|&i| {
            let spawn = move |exe: &std::path::Path, phase: Option<(u8, &Path)>| {
                let mut cmd = Command::new(exe);
                cmd.arg("--child").arg(i.to_string()).stdout(Stdio::piped()).stderr(Stdio::piped());
                if let Some((ph, dir)) = phase {
                    cmd.arg(ph.to_string()).arg(dir);
                }
                for v in ENV_NAMES {
                    cmd.env_remove(v);
                }
                for (k, v) in CONFIGS[i].env {
                    cmd.env(k, v);
                }
                cmd.spawn().expect("spawn child")
            };
            if CONFIGS[i].phases.is_empty() {
                let c = spawn(&exe, None);
                std::thread::spawn(move || c.wait_with_output())
            } else {
                // the processes of a phased configuration run one after the other over one directory; the first that does not
                // exit with 0 (or the last) gives the result
                let exe = exe.clone();
                std::thread::spawn(move || {
                    let dir = tempfile::tempdir().expect("tempdir");
                    let mut last = None;
                    let mut err = vec![];
                    for &ph in CONFIGS[i].phases {
                        if ph != 1 && CONFIGS[i].env.iter().any(|(k, _)| *k == "HF_XET_MDB_SHARD_LOCAL_CACHE_EXPIRATION_SECS") {
                            // expiry times have a resolution of one second
                            std::thread::sleep(std::time::Duration::from_millis(2100));
                        }
                        let mut out = spawn(&exe, Some((ph, dir.path()))).wait_with_output()?;
                        err.extend_from_slice(&out.stderr);
                        out.stderr = err.clone();
                        let ok = out.status.code() == Some(0);
                        last = Some(out);
                        if !ok {
                            break;
                        }
                    }
                    Ok(last.unwrap())
                })
            }
        })
        .collect();
    let mut verdict = 0;
    let mut lines = vec![];
    for (i, h) in chosen.iter().copied().zip(handles) {
        let out = h.join().unwrap().expect("child output");
        let stdout = String::from_utf8_lossy(&out.stdout).to_string();
        if timing {
            // (run.sh swallows stderr, so this debugging aid goes to stdout)
            for l in String::from_utf8_lossy(&out.stderr).lines().filter(|l| l.starts_with("timing")) {
                println!("{l}");
            }
        }
        match out.status.code() {
            Some(0) => {},
            Some(1) => { verdict = verdict.max(1); lines.extend(stdout.lines().filter(|l| l.starts_with("WITNESS")).map(|s| s.to_string())); },
            Some(2) => { eprintln!("{stdout}"); verdict = 2; },
            _ => {
                let err = String::from_utf8_lossy(&out.stderr);
                let tail: Vec<&str> = err.lines().rev().take(6).collect();
                verdict = verdict.max(1);
                lines.push(format!("WITNESS config {}: the process running the upload / download scenario died ({:?}); last output: {}", CONFIGS[i].name, out.status, tail.into_iter().rev().collect::<Vec<_>>().join(" | ")));
            },
        }
    }
    if verdict == 2 {
        eprintln!("configuration could not be applied");
        std::process::exit(2);
    }
    if let Some(l) = lines.first() {
        println!("{l}");
        std::process::exit(1);
    }
    println!("no violation found");
}
