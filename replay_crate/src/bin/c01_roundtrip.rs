//! Witness search for C01 / C03 (and the pointer-size clause of C02): the REAL `data` crate end to end against a local store.
//! Files are cleaned through FileUploadSession / SingleFileCleaner, the session is finalized, every file is downloaded again from
//! its pointer with FileDownloader::smudge_file_from_pointer (whole file and byte ranges), and
//!   * the downloaded bytes equal the fed bytes (C01),
//!   * the pointer size equals the number of fed bytes, and the pointer hash equals an INDEPENDENT computation from the bytes alone:
//!     reference gear-hash chunking, chunk hashes, the published level-wise aggregate construction, keyed with the repo salt - so it is
//!     the same for every feed partition, session history, store and interleaving (C03).
//! The size limits are lowered through the environment (the constants are read once per process), so the program re-executes itself
//! once per configuration: (A) 64 KiB chunks, 1 MB xorbs, 3 MiB ingestion blocks; (B) 4 KiB chunks, 40-chunk xorbs, 50,000-byte
//! ingestion blocks; (C) 4 KiB chunks, 150,000-byte xorbs, 1 MiB ingestion blocks; (D) 64 KiB chunks, 100,000-byte ingestion blocks.
//! Files are composed from whole chunks of random data (chunks re-chunk identically wherever they are placed), which allows exact
//! dedup structures: empty / one byte / sub-chunk, multi-xorb fresh data, a repeat of chunks of the xorb that was just cut and of
//! chunks pending in the open xorb (runs not starting at chunk 0), files sharing content and identical files in one session,
//! consecutive dedup hits ending at the same chunk index, a byte-limit cut followed by many small chunks and a repeat of the chunk that
//! opened the new xorb, low-entropy data, byte-level (unaligned) self-repeats, edited copies of an earlier file of the SAME session
//! (bytes inserted / deleted / overwritten inside one chunk, two separate edits), near-duplicate runs inside one pending xorb; a second session re-uploading and recombining content
//! of the first; cleaners fed round-robin.  Feed partitions: one call (larger than the ingestion block, not a multiple of it), small
//! calls, mixed calls.  Prints `WITNESS ...` and exits 1 on the first violation.
use std::process::{Command, Stdio};
use std::sync::Arc;

use cas_client::{FileProvider, OutputProvider};
use cas_types::FileRange;
use data::configurations::TranslatorConfig;
use data::{FileDownloader, FileUploadSession, PointerFile};
use merklehash::{compute_data_hash, compute_internal_node_hash, MerkleHash};
use rand::rngs::StdRng;
use rand::{Rng, SeedableRng};
use xet_threadpool::ThreadPool;

const CONFIGS: [(&str, &[(&str, &str)]); 4] = [
    ("A: 64 KiB chunks, xorb limit 1,000,000 bytes, ingestion block 3 MiB", &[("HF_XET_MAX_XORB_BYTES", "1000000"), ("HF_XET_INGESTION_BLOCK_SIZE", "3145728")]),
    ("B: 4 KiB chunks, xorb limit 40 chunks, ingestion block 50,000 bytes", &[("HF_XET_TARGET_CHUNK_SIZE", "4096"), ("HF_XET_MAX_XORB_CHUNKS", "40"), ("HF_XET_INGESTION_BLOCK_SIZE", "50000")]),
    ("C: 4 KiB chunks, xorb limit 150,000 bytes, ingestion block 1 MiB", &[("HF_XET_TARGET_CHUNK_SIZE", "4096"), ("HF_XET_MAX_XORB_BYTES", "150000"), ("HF_XET_INGESTION_BLOCK_SIZE", "1048576")]),
    // an ingestion block SMALLER than the largest chunk (64 KiB target -> 128 KiB maximum chunk)
    ("D: 64 KiB chunks, ingestion block 100,000 bytes (smaller than the largest chunk), xorb limit 2,000,000 bytes", &[("HF_XET_MAX_XORB_BYTES", "2000000"), ("HF_XET_INGESTION_BLOCK_SIZE", "100000")]),
];

// ---------------------------------------------------------------------------------------------------------------------------------
// independent reference: chunk boundaries, file hash
// ---------------------------------------------------------------------------------------------------------------------------------

/// first cut: length == max, or length > min-65 and the gear hash of the bytes from offset max(min-65, 0) meets the mask
fn reference_chunks(data: &[u8], target: usize, div: usize, mult: usize) -> Vec<usize> {
    let mask0 = (target - 1) as u64;
    let mask = mask0 << mask0.leading_zeros();
    let (mn, mx) = (target / div, target * mult);
    let skip = mn.saturating_sub(65);
    let mut out = vec![];
    let mut start = 0usize;
    while start < data.len() {
        let mut h: u64 = 0;
        let mut len = 0usize;
        while start + len < data.len() {
            let b = data[start + len];
            len += 1;
            if len > skip {
                h = (h << 1).wrapping_add(gearhash::DEFAULT_TABLE[b as usize]);
                if h & mask == 0 {
                    break;
                }
            }
            if len == mx {
                break;
            }
        }
        out.push(len);
        start += len;
    }
    out
}

fn reference_root(list: &[(MerkleHash, usize)]) -> MerkleHash {
    let mut level: Vec<(MerkleHash, usize)> = list.to_vec();
    while level.len() > 1 {
        let mut next = vec![];
        let mut start = 0;
        for i in 0..level.len() {
            let earlier = i - start;
            if (earlier >= 2 && level[i].0[3] % 4 == 0) || earlier >= 8 || i + 1 == level.len() {
                let mut text = String::new();
                let mut total = 0;
                for (h, n) in &level[start..=i] {
                    text.push_str(&format!("{} : {}\n", h.hex(), n));
                    total += n;
                }
                next.push((compute_internal_node_hash(text.as_bytes()), total));
                start = i + 1;
            }
        }
        level = next;
    }
    level[0].0
}

struct Limits {
    target: usize,
    div: usize,
    mult: usize,
    xorb_bytes: usize,
    xorb_chunks: usize,
    ingestion: usize,
}

fn reference_file_hash(data: &[u8], l: &Limits, salt: &[u8; 32]) -> MerkleHash {
    if data.is_empty() {
        return MerkleHash::default();
    }
    let mut list = vec![];
    let mut pos = 0;
    for n in reference_chunks(data, l.target, l.div, l.mult) {
        list.push((compute_data_hash(&data[pos..pos + n]), n));
        pos += n;
    }
    let root = reference_root(&list);
    MerkleHash::from(*blake3::keyed_hash(salt, root.as_bytes()).as_bytes())
}

// ---------------------------------------------------------------------------------------------------------------------------------
// inputs
// ---------------------------------------------------------------------------------------------------------------------------------

struct Pool {
    rng: StdRng,
    chunks: Vec<Arc<Vec<u8>>>,
    next: usize,
}
impl Pool {
    fn refill(&mut self, l: &Limits) {
        let mut base = vec![0u8; l.target * 80];
        self.rng.fill(&mut base[..]);
        let lens = reference_chunks(&base, l.target, l.div, l.mult);
        let mut pos = 0;
        for n in &lens[..lens.len() - 1] {
            self.chunks.push(Arc::new(base[pos..pos + n].to_vec()));
            pos += n;
        }
    }
    /// n chunks never handed out before
    fn fresh(&mut self, l: &Limits, n: usize) -> Vec<Arc<Vec<u8>>> {
        while self.chunks.len() < self.next + n {
            self.refill(l);
        }
        let v = self.chunks[self.next..self.next + n].to_vec();
        self.next += n;
        v
    }
    /// fresh chunks filling exactly one xorb (adding one more chunk would exceed a limit), and the count
    fn fresh_xorb(&mut self, l: &Limits) -> Vec<Arc<Vec<u8>>> {
        let mut v: Vec<Arc<Vec<u8>>> = vec![];
        let mut bytes = 0;
        loop {
            let c = self.fresh(l, 1).pop().unwrap();
            if bytes + c.len() > l.xorb_bytes || v.len() + 1 > l.xorb_chunks {
                self.next -= 1;
                return v;
            }
            bytes += c.len();
            v.push(c);
        }
    }
}

fn cat(parts: &[&[Arc<Vec<u8>>]]) -> Vec<u8> {
    let mut o = vec![];
    for p in parts {
        for c in p.iter() {
            o.extend_from_slice(c);
        }
    }
    o
}

struct Spec {
    name: String,
    what: String,
    data: Arc<Vec<u8>>,
}

#[derive(Clone, Debug)]
enum Part {
    One,
    Cycle(Vec<usize>),
}
fn pieces(len: usize, p: &Part) -> Vec<usize> {
    match p {
        Part::One => vec![len],
        Part::Cycle(c) => {
            let mut v = vec![];
            let mut left = len;
            let mut k = 0;
            while left > 0 {
                let n = c[k % c.len()].max(1).min(left);
                v.push(n);
                left -= n;
                k += 1;
            }
            v
        },
    }
}

struct Session {
    files: Vec<usize>,
    round_robin: bool,
}

fn build(l: &Limits, seed: u64) -> (Vec<Spec>, Vec<Session>) {
    let mut pool = Pool { rng: StdRng::seed_from_u64(seed ^ 0xC01), chunks: vec![], next: 0 };
    let mut rng = StdRng::seed_from_u64(seed ^ 0xC03);
    let mut specs: Vec<Spec> = vec![];
    let mut add = |name: &str, what: &str, data: Vec<u8>| -> usize {
        specs.push(Spec { name: name.into(), what: what.into(), data: Arc::new(data) });
        specs.len() - 1
    };
    let f_empty = add("empty", "empty file", vec![]);
    let f_one = add("one-byte", "a single byte", vec![0x42]);
    let sub = pool.fresh(l, 1);
    let f_sub = add("sub-chunk", "less than the minimum chunk size", sub[0][..(l.target / l.div) / 2].to_vec());

    // multi-xorb fresh data: three full xorbs and a bit
    let x1 = pool.fresh_xorb(l);
    let x2 = pool.fresh_xorb(l);
    let x3 = pool.fresh_xorb(l);
    let tail = pool.fresh(l, 3);
    let f_multi = add("multi-xorb", &format!("{} fresh chunks filling three xorbs and a bit", x1.len() + x2.len() + x3.len() + 3), cat(&[&x1, &x2, &x3, &tail]));

    // edited copies of the head of multi-xorb (its first xorb and three more chunks), cleaned later in the SAME session, when that
    // xorb is registered in the session's in-memory shard: a few bytes inserted / deleted / overwritten INSIDE one chunk (the
    // chunking re-synchronises after the edit, so the file lines up with the stored xorb again after one differing chunk)
    let head = cat(&[&x1, &x2[..3.min(x2.len())]]);
    let mid_of = |k: usize| -> usize { x1[..k].iter().map(|c| c.len()).sum::<usize>() + x1[k].len() / 2 };
    let edit = |ops: &[(usize, usize, &[u8])]| -> Vec<u8> {
        // (offset in `head`, bytes removed there, bytes inserted there), offsets ascending
        let mut out = vec![];
        let mut pos = 0;
        for (at, remove, insert) in ops {
            out.extend_from_slice(&head[pos..*at]);
            out.extend_from_slice(insert);
            pos = at + remove;
        }
        out.extend_from_slice(&head[pos..]);
        out
    };
    let last = x1.len() - 2;
    let f_ins = add("edited-insert", &format!("the first xorb of multi-xorb + 3 chunks, with 10 bytes inserted in the middle of its chunk 2 (offset {})", mid_of(2)), edit(&[(mid_of(2), 0, b"0123456789")]));
    let f_del = add("edited-delete", &format!("the same head with 7 bytes deleted in the middle of chunk 3 (offset {})", mid_of(3)), edit(&[(mid_of(3), 7, b"")]));
    let f_ovw = add("edited-overwrite", &format!("the same head with 5 bytes overwritten in the middle of chunk 1 (offset {})", mid_of(1)), edit(&[(mid_of(1), 5, b"\xff\xfe\xfd\xfc\xfb")]));
    let f_two = add("edited-twice", &format!("the same head with 3 bytes inserted in chunk 1 (offset {}) and 4 bytes overwritten in chunk {last} (offset {})", mid_of(1), mid_of(last)), edit(&[(mid_of(1), 0, b"abc"), (mid_of(last), 4, b"WXYZ")]));

    // near-duplicate regions inside one pending xorb: a run of 6 fresh chunks, 2 fresh, the run again with its chunk 1 replaced,
    // 1 fresh, the run again with chunks 2 and 3 replaced
    let run = pool.fresh(l, 6);
    let (n1, n2, n3, n4) = (pool.fresh(l, 2), pool.fresh(l, 1), pool.fresh(l, 1), pool.fresh(l, 2));
    let f_neardup = add(
        "near-duplicate",
        "run R of 6 fresh chunks, 2 fresh, R with its chunk 1 replaced by a fresh chunk, 1 fresh, R with chunks 2 and 3 replaced",
        cat(&[&run, &n1, &run[..1], &n2, &run[2..], &n3, &run[..2], &n4, &run[4..]]),
    );

    // self-repeat: one full xorb A (cut), m more chunks B in the open xorb, then A[1] A[2] (low indices of the xorb just cut),
    // fresh, B[2..5] (a run pending in the open xorb, not starting at its chunk 0), fresh, B[1] B[1], tail
    let a = pool.fresh_xorb(l);
    let m = (a.len() / 2).max(7);
    let b = pool.fresh(l, m);
    let (g1, g2, g3) = (pool.fresh(l, 2), pool.fresh(l, 1), pool.fresh(l, 2));
    let f_selfrep = add(
        "self-repeat",
        &format!("{} fresh chunks (xorb cut after chunk {}), then chunks 1,2 of the cut xorb again, 2 fresh, chunks {}..{} (pending in the open xorb) again, 1 fresh, chunk {} twice, 2 fresh", a.len() + m, a.len(), a.len() + 2, a.len() + 5, a.len() + 1),
        cat(&[&a, &b, &a[1..3], &g1, &b[2..5], &g2, &b[1..2], &b[1..2], &g3]),
    );

    // files sharing content inside one session, and an identical file
    let s = pool.fresh(l, a.len().min(30) + 4);
    let (p1, p2) = (pool.fresh(l, 3), pool.fresh(l, 2));
    let f_share1 = add("shared-1", "fresh chunks S", cat(&[&s]));
    let f_share2 = add("shared-2", "3 fresh chunks, then chunks 2.. of shared-1 except its last two, then 2 fresh", cat(&[&p1, &s[2..s.len() - 2], &p2]));
    let f_share3 = add("shared-3", "identical to shared-1", cat(&[&s]));

    // consecutive dedup hits that end at the same chunk index, against the first xorb of multi-xorb
    let (q1, q2) = (pool.fresh(l, 1), pool.fresh(l, 2));
    let f_samend = add(
        "same-end-hits",
        "chunks 0,1,1,5 of multi-xorb's first xorb, 1 fresh, chunks 2,3,4,3,4 of it, 2 fresh",
        cat(&[&x1[0..2], &x1[1..2], &x1[5..6], &q1, &x1[2..5], &x1[3..5], &q2]),
    );

    // byte-limit cut after N big chunks, then more than N small chunks in the new xorb, then the chunk that opened it again
    let mut cand = pool.fresh(l, 160);
    cand.sort_by_key(|c| std::cmp::Reverse(c.len()));
    let mut bigs = vec![];
    let mut bytes = 0;
    let mut it = cand.iter();
    let opener = loop {
        let c = it.next().unwrap().clone();
        if bytes + c.len() > l.xorb_bytes || bigs.len() + 1 > l.xorb_chunks {
            break c;
        }
        bytes += c.len();
        bigs.push(c);
    };
    let n_small = (bigs.len() + 3).min(cand.len() / 2);
    let smalls: Vec<Arc<Vec<u8>>> = cand[cand.len() - n_small..].to_vec();
    let q3 = pool.fresh(l, 2);
    let f_bigsmall = add(
        "big-then-small",
        &format!("{} large chunks filling a xorb, the chunk that opens the next xorb, {} small chunks, that opening chunk again, 2 fresh", bigs.len(), smalls.len()),
        cat(&[&bigs, std::slice::from_ref(&opener), &smalls, std::slice::from_ref(&opener), &q3]),
    );

    // low entropy: zeros (identical maximum-size chunks), a short period, two symbols
    let xb = l.xorb_bytes.min(l.xorb_chunks * l.target); // bytes after which a xorb of average chunks is cut
    let mut low = vec![0u8; xb * 3 / 2 + 4321];
    low.extend((0..xb / 2).map(|i| (i % 97) as u8));
    low.extend((0..xb / 2).map(|_| rng.random::<u8>() & 1));
    let f_low = add("low-entropy", "zeros, then period-97 bytes, then two-symbol noise", low);

    // byte-level self-repeat, not aligned to chunks
    let mut r = vec![0u8; xb * 6 / 5];
    rng.fill(&mut r[..]);
    let mut un = r.clone();
    un.extend_from_slice(&r[12_345..12_345 + xb * 3 / 5]);
    un.extend_from_slice(&r[..xb / 3]);
    let f_unaligned = add("unaligned-repeat", "random R, then R[12345 .. +0.6 xorb], then R[.. 0.33 xorb]", un);

    // second session: recombination of first-session content
    let (t1, t2) = (pool.fresh(l, 2), pool.fresh(l, 3));
    let f_recomb = add(
        "recombine",
        "chunks 2,3,4,3,4,0,1,1,5 of multi-xorb's first xorb, 2 fresh, the last 6 chunks of its second xorb followed by the first 4 of its third, chunks 3.. of shared-1, 3 fresh",
        cat(&[&x1[2..5], &x1[3..5], &x1[0..2], &x1[1..2], &x1[5..6], &t1, &x2[x2.len() - 6..], &x3[..4], &s[3..], &t2]),
    );

    let s1 = Session { files: vec![f_empty, f_one, f_sub, f_multi, f_ins, f_del, f_ovw, f_two, f_neardup, f_selfrep, f_share1, f_share2, f_share3, f_samend, f_bigsmall, f_low, f_unaligned], round_robin: false };
    let s2 = Session { files: vec![f_multi, f_two, f_recomb, f_selfrep, f_empty, f_sub, f_share2, f_bigsmall], round_robin: false };
    let s3 = Session { files: vec![f_recomb, f_samend, f_share1, f_unaligned], round_robin: true };
    (specs, vec![s1, s2, s3])
}

// ---------------------------------------------------------------------------------------------------------------------------------
// driving the real code
// ---------------------------------------------------------------------------------------------------------------------------------

async fn upload(cfg: Arc<TranslatorConfig>, tp: Arc<ThreadPool>, specs: &[Spec], s: &Session, part: &Part) -> Result<Vec<PointerFile>, String> {
    let session = FileUploadSession::new(cfg, tp, None).await.map_err(|e| format!("FileUploadSession::new fails: {e}"))?;
    let mut pointers = vec![];
    if !s.round_robin {
        for &f in &s.files {
            let spec = &specs[f];
            let mut cleaner = session.start_clean(spec.name.clone());
            let mut pos = 0;
            for n in pieces(spec.data.len(), part) {
                cleaner.add_data(&spec.data[pos..pos + n]).await.map_err(|e| format!("add_data fails on file '{}' at offset {pos} (+{n}): {e}", spec.name))?;
                pos += n;
            }
            let (p, _m) = cleaner.finish().await.map_err(|e| format!("finish fails on file '{}': {e}", spec.name))?;
            pointers.push(p);
        }
    } else {
        let mut cleaners: Vec<_> = s.files.iter().map(|&f| Some(session.start_clean(specs[f].name.clone()))).collect();
        let plans: Vec<Vec<usize>> = s.files.iter().map(|&f| pieces(specs[f].data.len(), part)).collect();
        let mut pos = vec![0usize; s.files.len()];
        let mut step = vec![0usize; s.files.len()];
        let mut out: Vec<Option<PointerFile>> = s.files.iter().map(|_| None).collect();
        let mut live = s.files.len();
        while live > 0 {
            for k in 0..s.files.len() {
                if cleaners[k].is_none() {
                    continue;
                }
                let spec = &specs[s.files[k]];
                if step[k] < plans[k].len() {
                    let n = plans[k][step[k]];
                    cleaners[k].as_mut().unwrap().add_data(&spec.data[pos[k]..pos[k] + n]).await.map_err(|e| format!("add_data fails on file '{}' (fed round-robin) at offset {}: {e}", spec.name, pos[k]))?;
                    pos[k] += n;
                    step[k] += 1;
                } else {
                    let (p, _m) = cleaners[k].take().unwrap().finish().await.map_err(|e| format!("finish fails on file '{}' (fed round-robin): {e}", spec.name))?;
                    out[k] = Some(p);
                    live -= 1;
                }
            }
        }
        pointers = out.into_iter().map(|p| p.unwrap()).collect();
    }
    session.finalize().await.map_err(|e| format!("finalize fails: {e}"))?;
    Ok(pointers)
}

async fn download_check(cfg: Arc<TranslatorConfig>, tp: Arc<ThreadPool>, spec: &Spec, p: &PointerFile, scratch: &std::path::Path) -> Result<(), String> {
    let dl = FileDownloader::new(cfg, tp).await.map_err(|e| format!("FileDownloader::new fails: {e}"))?;
    let len = spec.data.len() as u64;
    let mut ranges: Vec<Option<(u64, u64)>> = vec![None];
    if len > 2 {
        ranges.extend([Some((0, len)), Some((len / 3, 2 * len / 3)), Some((len - 1, len)), Some((1, len.min(70_001)))]);
    }
    for r in ranges {
        let out = scratch.join("download.bin");
        let _ = std::fs::remove_file(&out);
        let prov = OutputProvider::File(FileProvider::new(out.clone()));
        let n = dl
            .smudge_file_from_pointer(p, &prov, r.map(|(a, b)| FileRange { start: a, end: b }), None)
            .await
            .map_err(|e| format!("download of file '{}' ({}; {} bytes) from its pointer fails{}: {e}", spec.name, spec.what, len, r.map(|r| format!(" for byte range {r:?}")).unwrap_or_default()))?;
        let got = std::fs::read(&out).unwrap_or_default();
        let (a, b) = r.unwrap_or((0, len));
        let want = &spec.data[a as usize..b as usize];
        if got != want || n != want.len() as u64 {
            let i = got.iter().zip(want.iter()).position(|(x, y)| x != y).unwrap_or(got.len().min(want.len()));
            return Err(format!(
                "file '{}' ({}; {} bytes): downloading {} returns {} bytes (reported {n}), the fed data has {} there; first difference at offset {} of the requested range",
                spec.name, spec.what, len, r.map(|r| format!("byte range {r:?}")).unwrap_or("the whole file".into()), got.len(), want.len(), i
            ));
        }
    }
    Ok(())
}

async fn run_all(tp: Arc<ThreadPool>, l: Arc<Limits>, specs: Arc<Vec<Spec>>, sessions: Arc<Vec<Session>>, cfg_name: String) -> Option<String> {
    let small = if l.target >= 65536 { 4096 } else { 300 };
    let parts = [
        ("a single add_data call per file", Part::One),
        ("add_data calls of a few hundred / thousand bytes", Part::Cycle(vec![small, 1, small + 333])),
        ("mixed add_data calls, the first larger than two ingestion blocks", Part::Cycle(vec![2 * l.ingestion + 123, 5, 70_000, l.ingestion, 11])),
    ];
    let mut expected: Vec<Option<MerkleHash>> = specs.iter().map(|_| None).collect();
    for (pname, part) in &parts {
        let dir = tempfile::tempdir().unwrap();
        let scratch = tempfile::tempdir().unwrap();
        let mut uploaded: Vec<(usize, PointerFile, usize)> = vec![];
        for (si, s) in sessions.iter().enumerate() {
            let ctx = format!("config {cfg_name}; store filled by sessions 1..{} fed with {pname}{}", si + 1, if s.round_robin { " (this session: all cleaners fed round-robin)" } else { "" });
            let cfg = match TranslatorConfig::local_config(dir.path()) { Ok(c) => c, Err(e) => return Some(format!("{ctx}: local_config fails: {e}")) };
            let salt = cfg.shard_config.repo_salt;
            let pointers = match upload(cfg.clone(), tp.clone(), &specs, s, part).await {
                Ok(p) => p,
                Err(e) => return Some(format!("{ctx}: session {} does not complete: {e}", si + 1)),
            };
            for (&f, p) in s.files.iter().zip(pointers) {
                let spec = &specs[f];
                if p.filesize() != spec.data.len() as u64 {
                    return Some(format!("{ctx}: session {}: pointer of file '{}' ({}) records size {} but {} bytes were fed", si + 1, spec.name, spec.what, p.filesize(), spec.data.len()));
                }
                let want = *expected[f].get_or_insert_with(|| reference_file_hash(&spec.data, &l, &salt));
                if *p.hash_string() != want.hex() {
                    return Some(format!(
                        "{ctx}: session {}: pointer of file '{}' ({}; {} bytes) carries hash {} but the hash computed from the bytes alone (reference chunking, aggregate construction, salt) is {}",
                        si + 1, spec.name, spec.what, spec.data.len(), p.hash_string(), want.hex()
                    ));
                }
                uploaded.push((f, p, si + 1));
            }
            // every file uploaded so far into this store must download correctly
            for (f, p, from) in &uploaded {
                let cfg = TranslatorConfig::local_config(dir.path()).unwrap();
                if let Err(e) = download_check(cfg, tp.clone(), &specs[*f], p, scratch.path()).await {
                    return Some(format!("{ctx}: after session {} (file uploaded in session {from}): {e}", si + 1));
                }
            }
        }
    }
    None
}

fn child(idx: usize) -> i32 {
    let (cfg_name, env) = CONFIGS[idx];
    let l = Limits {
        target: *deduplication::constants::TARGET_CHUNK_SIZE,
        div: *deduplication::constants::MINIMUM_CHUNK_DIVISOR,
        mult: *deduplication::constants::MAXIMUM_CHUNK_MULTIPLIER,
        xorb_bytes: *deduplication::constants::MAX_XORB_BYTES,
        xorb_chunks: *deduplication::constants::MAX_XORB_CHUNKS,
        ingestion: std::env::var("HF_XET_INGESTION_BLOCK_SIZE").ok().and_then(|s| s.parse().ok()).unwrap_or(8 << 20),
    };
    for (k, v) in env {
        let got = match *k { "HF_XET_MAX_XORB_BYTES" => l.xorb_bytes, "HF_XET_MAX_XORB_CHUNKS" => l.xorb_chunks, "HF_XET_TARGET_CHUNK_SIZE" => l.target, _ => continue };
        if got.to_string() != *v {
            println!("infrastructure: {k}={v} was not picked up by this build (value {got})");
            return 2;
        }
    }
    let seed = std::env::var("VERIF_SEED").ok().and_then(|s| s.parse().ok()).unwrap_or(0u64);
    let (specs, sessions) = build(&l, seed);
    let tp = Arc::new(ThreadPool::new().expect("runtime"));
    let tp2 = tp.clone();
    let r = tp.external_run_async_task(run_all(tp2, Arc::new(l), Arc::new(specs), Arc::new(sessions), cfg_name.to_string()));
    match r {
        Ok(None) => { println!("no violation found"); 0 },
        Ok(Some(w)) => { println!("WITNESS {w}"); 1 },
        Err(e) => { println!("WITNESS config {cfg_name}: the upload / download pipeline panicked or was aborted: {e}"); 1 },
    }
}

fn main() {
    let args: Vec<String> = std::env::args().collect();
    if args.len() == 3 && args[1] == "--child" {
        std::process::exit(child(args[2].parse().unwrap()));
    }
    let exe = std::env::current_exe().unwrap();
    let handles: Vec<_> = (0..CONFIGS.len())
        .map(|i| {
            let mut cmd = Command::new(&exe);
            cmd.arg("--child").arg(i.to_string()).stdout(Stdio::piped()).stderr(Stdio::piped());
            for v in ["HF_XET_MAX_XORB_BYTES", "HF_XET_MAX_XORB_CHUNKS", "HF_XET_TARGET_CHUNK_SIZE", "HF_XET_INGESTION_BLOCK_SIZE"] {
                cmd.env_remove(v);
            }
            for (k, v) in CONFIGS[i].1 {
                cmd.env(k, v);
            }
            let c = cmd.spawn().expect("spawn child");
            std::thread::spawn(move || c.wait_with_output())
        })
        .collect();
    let mut verdict = 0;
    let mut lines = vec![];
    for (i, h) in handles.into_iter().enumerate() {
        let out = h.join().unwrap().expect("child output");
        let stdout = String::from_utf8_lossy(&out.stdout).to_string();
        match out.status.code() {
            Some(0) => {},
            Some(1) => { verdict = verdict.max(1); lines.extend(stdout.lines().filter(|l| l.starts_with("WITNESS")).map(|s| s.to_string())); },
            Some(2) => { eprintln!("{stdout}"); verdict = 2; },
            _ => {
                let err = String::from_utf8_lossy(&out.stderr);
                let tail: Vec<&str> = err.lines().rev().take(6).collect();
                verdict = verdict.max(1);
                lines.push(format!("WITNESS config {}: the process running the upload / download scenario died ({:?}); last output: {}", CONFIGS[i].0, out.status, tail.into_iter().rev().collect::<Vec<_>>().join(" | ")));
            },
        }
    }
    if verdict == 2 {
        eprintln!("configuration could not be applied");
        std::process::exit(2);
    }
    if let Some(l) = lines.first() {
        println!("{l}");
        std::process::exit(1);
    }
    println!("no violation found");
}
