//! Witness search for C06 (streaming hasher = one-shot hash): write byte strings through the REAL merklehash::HashedWrite into inner
//! writers with different write granularities (a writer may accept fewer bytes than offered - std::io::Write allows it and
//! write_all then offers the rest again) and compare the streaming hash with compute_data_hash of the bytes that reached the writer.
use std::io::Write;

use merklehash::{compute_data_hash, HashedWrite};

struct Limited {
    out: Vec<u8>,
    max_per_call: usize,
}
impl Write for Limited {
    fn write(&mut self, buf: &[u8]) -> std::io::Result<usize> {
        let n = buf.len().min(self.max_per_call);
        self.out.extend_from_slice(&buf[..n]);
        Ok(n)
    }
    fn flush(&mut self) -> std::io::Result<()> {
        Ok(())
    }
}

fn main() {
    let data: Vec<u8> = (0..10_000u32).map(|i| (i.wrapping_mul(2654435761) >> 13) as u8).collect();
    for &max_per_call in &[usize::MAX, 4096, 7, 1] {
        for pieces in [vec![data.len()], vec![1, 2, 3, 1000], vec![64]] {
            let mut w = HashedWrite::new(Limited { out: vec![], max_per_call });
            let mut pos = 0;
            let mut k = 0;
            while pos < data.len() {
                let n = pieces[k % pieces.len()].min(data.len() - pos);
                k += 1;
                w.write_all(&data[pos..pos + n]).unwrap();
                pos += n;
            }
            let h = w.hash();
            let inner = w.into_inner();
            let want = compute_data_hash(&inner.out);
            if inner.out != data {
                println!("WITNESS HashedWrite over a writer accepting {max_per_call} bytes per call: the inner writer received {} bytes, {} were written", inner.out.len(), data.len());
                std::process::exit(1);
            }
            if h != want {
                println!(
                    "WITNESS HashedWrite over a writer that accepts at most {max_per_call} bytes per write call, fed {} bytes with write_all in pieces {:?}: streaming hash {} != compute_data_hash of the bytes written {}",
                    data.len(), pieces, h.hex(), want.hex()
                );
                std::process::exit(1);
            }
        }
    }
    // the digest observed mid-stream and after more writes: hash() at any point is the one-shot hash of the bytes written so far
    for probe_every in [1usize, 3] {
        let mut w = HashedWrite::new(Limited { out: vec![], max_per_call: 4096 });
        let mut pos = 0;
        let mut k = 0;
        while pos < data.len() {
            let n = 997.min(data.len() - pos);
            w.write_all(&data[pos..pos + n]).unwrap();
            pos += n;
            k += 1;
            if k % probe_every == 0 {
                let h = w.hash();
                let want = compute_data_hash(&data[..pos]);
                if h != want {
                    println!(
                        "WITNESS HashedWrite: hash() after {pos} bytes (asked after every {probe_every} write_all calls of 997 bytes, i.e. also earlier in the same stream) is {} but compute_data_hash of the {pos} bytes written is {}",
                        h.hex(), want.hex()
                    );
                    std::process::exit(1);
                }
            }
        }
    }
    println!("no violation found");
}
