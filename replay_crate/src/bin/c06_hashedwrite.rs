//! Witness search for C06 (streaming hasher = one-shot hash): write byte strings through the REAL merklehash::HashedWrite into inner
//! writers with different write granularities (a writer may accept fewer bytes than offered - std::io::Write allows it and
//! write_all then offers the rest again) and compare the streaming hash with compute_data_hash of the bytes that reached the writer.
use std::io::Write;

use merklehash::{compute_data_hash, HashedWrite};

struct Limited {
    out: Vec<u8>,
    max_per_call: usize,
}
impl Write for Limited {
    fn write(&mut self, buf: &[u8]) -> std::io::Result<usize> {
        let n = buf.len().min(self.max_per_call);
        self.out.extend_from_slice(&buf[..n]);
        Ok(n)
    }
    fn flush(&mut self) -> std::io::Result<()> {
        Ok(())
    }
}

fn main() {
    let data: Vec<u8> = (0..10_000u32).map(|i| (i.wrapping_mul(2654435761) >> 13) as u8).collect();
    for &max_per_call in &[usize::MAX, 4096, 7, 1] {
        for pieces in [vec![data.len()], vec![1, 2, 3, 1000], vec![64]] {
            let mut w = HashedWrite::new(Limited { out: vec![], max_per_call });
            let mut pos = 0;
            let mut k = 0;
            while pos < data.len() {
                let n = pieces[k % pieces.len()].min(data.len() - pos);
                k += 1;
                w.write_all(&data[pos..pos + n]).unwrap();
                pos += n;
            }
            let h = w.hash();
            let inner = w.into_inner();
            let want = compute_data_hash(&inner.out);
            if inner.out != data {
                println!("WITNESS HashedWrite over a writer accepting {max_per_call} bytes per call: the inner writer received {} bytes, {} were written", inner.out.len(), data.len());
                std::process::exit(1);
            }
            if h != want {
                println!(
                    "WITNESS HashedWrite over a writer that accepts at most {max_per_call} bytes per write call, fed {} bytes with write_all in pieces {:?}: streaming hash {} != compute_data_hash of the bytes written {}",
                    data.len(), pieces, h.hex(), want.hex()
                );
                std::process::exit(1);
            }
        }
    }
    // the digest observed mid-stream and after more writes: hash() at any point is the one-shot hash of the bytes written so far
    for probe_every in [1usize, 3] {
        let mut w = HashedWrite::new(Limited { out: vec![], max_per_call: 4096 });
        let mut pos = 0;
        let mut k = 0;
        while pos < data.len() {
            let n = 997.min(data.len() - pos);
            w.write_all(&data[pos..pos + n]).unwrap();
            pos += n;
            k += 1;
            if k % probe_every == 0 {
                let h = w.hash();
                let want = compute_data_hash(&data[..pos]);
                if h != want {
                    println!(
                        "WITNESS HashedWrite: hash() after {pos} bytes (asked after every {probe_every} write_all calls of 997 bytes, i.e. also earlier in the same stream) is {} but compute_data_hash of the {pos} bytes written is {}",
                        h.hex(), want.hex()
                    );
                    std::process::exit(1);
                }
            }
        }
    }
    extended::run();
    println!("no violation found");
}

/// Coverage extension: inner writers that follow a SCRIPT (accept k bytes, accept nothing, fail without taking anything, report
/// `Interrupted`), lengths around blake3's 64-byte block and 1024-byte chunk borders, `flush` pass-through, `write_vectored`,
/// `BufWriter` / `io::copy` on top, `into_inner`, repeated `hash()`.  Oracle in every case: `hash()` == the keyed blake3 of exactly
/// the bytes the INNER writer accepted (own copy of the published data key; also compared with `compute_data_hash`), and the value
/// returned by every `write` call == the value the inner writer returned.
mod extended {
    use std::io::{BufWriter, IoSlice, Write};

    use merklehash::{compute_data_hash, HashedWrite, MerkleHash};

    /// the published key of the leaf / data hash (merklehash::data_hash::DATA_KEY)
    const DATA_KEY: [u8; 32] = [
        102, 151, 245, 119, 91, 149, 80, 222, 49, 53, 203, 172, 165, 151, 24, 28, 157, 228, 33, 16, 155, 235, 43, 88, 180, 208, 176, 75, 147, 173, 242, 41,
    ];

    fn witness(msg: String) -> ! {
        println!("WITNESS {msg}");
        std::process::exit(1);
    }

    fn one_shot(bytes: &[u8]) -> MerkleHash {
        let own = MerkleHash::from(*blake3::keyed_hash(&DATA_KEY, bytes).as_bytes());
        let lib = compute_data_hash(bytes);
        if own != lib {
            witness(format!("compute_data_hash of {} bytes is {} but blake3 keyed with the published data key gives {}", bytes.len(), lib.hex(), own.hex()));
        }
        own
    }

    #[derive(Clone, Copy, Debug, PartialEq)]
    enum Step {
        /// accept at most this many bytes
        Take(usize),
        /// Ok(0) although bytes were offered
        Zero,
        /// Err(Other), nothing taken
        Fail,
        /// Err(Interrupted), nothing taken (write_all retries by itself)
        Interrupted,
    }

    struct Scripted {
        out: Vec<u8>,
        script: Vec<Step>,
        calls: usize,
        flushes: usize,
        fail_flush_at: Option<usize>,
        returned: Vec<Result<usize, std::io::ErrorKind>>,
    }
    impl Scripted {
        fn new(script: Vec<Step>) -> Self {
            Scripted { out: vec![], script, calls: 0, flushes: 0, fail_flush_at: None, returned: vec![] }
        }
    }
    impl Write for Scripted {
        fn write(&mut self, buf: &[u8]) -> std::io::Result<usize> {
            let step = if self.script.is_empty() { Step::Take(usize::MAX) } else { self.script[self.calls % self.script.len()] };
            self.calls += 1;
            let r = match step {
                Step::Take(k) => {
                    let n = k.min(buf.len());
                    self.out.extend_from_slice(&buf[..n]);
                    Ok(n)
                },
                Step::Zero => Ok(0),
                Step::Fail => Err(std::io::Error::new(std::io::ErrorKind::Other, "scripted failure")),
                Step::Interrupted => Err(std::io::Error::new(std::io::ErrorKind::Interrupted, "scripted interruption")),
            };
            self.returned.push(r.as_ref().map(|n| *n).map_err(|e| e.kind()));
            r
        }
        fn flush(&mut self) -> std::io::Result<()> {
            self.flushes += 1;
            if Some(self.flushes) == self.fail_flush_at {
                return Err(std::io::Error::new(std::io::ErrorKind::Other, "scripted flush failure"));
            }
            Ok(())
        }
    }

    fn data(n: usize, salt: u32) -> Vec<u8> {
        (0..n as u32).map(|i| ((i ^ salt).wrapping_mul(2654435761) >> 11) as u8).collect()
    }

    /// Offers `input` through raw `write` calls (offering at most `offer` bytes per call), retrying after every error and after
    /// every Ok(0) (at most `give_up` calls in total); after EVERY call the running hash must be the hash of what the inner writer holds.
    fn drive_raw(what: &str, input: &[u8], script: Vec<Step>, offer: usize, probe_every_call: bool) {
        let mut w = HashedWrite::new(Scripted::new(script.clone()));
        let mut pos = 0;
        let mut calls = 0usize;
        let give_up = 40 * (input.len() + 10);
        let mut accepted_by_return = 0usize;
        while pos < input.len() && calls < give_up {
            let end = pos.saturating_add(offer.max(1)).min(input.len());
            let r = w.write(&input[pos..end]);
            calls += 1;
            if let Ok(n) = &r {
                if *n > end - pos {
                    witness(format!("{what}: HashedWrite::write returned {n} for an offer of {} bytes", end - pos));
                }
                pos += *n;
                accepted_by_return += *n;
            }
            if probe_every_call || calls % 97 == 0 {
                // cannot look into the inner writer while it is wrapped: the bytes accepted so far are input[..pos]
                let h = w.hash();
                let want = one_shot(&input[..pos]);
                if h != want {
                    witness(format!("{what}: after write call #{calls} (which returned {:?}) the inner writer has accepted {pos} bytes, but hash() = {} and the one-shot hash of those {pos} bytes = {}", r.as_ref().map_err(|e| e.kind()), h.hex(), want.hex()));
                }
            }
        }
        let h1 = w.hash();
        let h2 = w.hash();
        let inner = w.into_inner();
        if h1 != h2 {
            witness(format!("{what}: two consecutive hash() calls differ: {} vs {}", h1.hex(), h2.hex()));
        }
        if inner.out[..] != input[..pos] || accepted_by_return != inner.out.len() {
            witness(format!("{what}: into_inner() returns a writer holding {} bytes, the write calls reported {accepted_by_return} accepted bytes", inner.out.len()));
        }
        if inner.calls != calls {
            witness(format!("{what}: {calls} write calls were made on HashedWrite, the inner writer saw {}", inner.calls));
        }
        let want = one_shot(&inner.out);
        if h1 != want {
            witness(format!("{what}: the inner writer accepted {} bytes (per-call results {:?}...), streaming hash {} != one-shot hash of the accepted bytes {}", inner.out.len(), &inner.returned[..inner.returned.len().min(12)], h1.hex(), want.hex()));
        }
    }

    pub fn run() {
        let seed: u64 = std::env::var("VERIF_SEED").ok().and_then(|s| s.parse().ok()).unwrap_or(0);
        let mut x = seed.wrapping_mul(0x9E37_79B9_7F4A_7C15) ^ 0xD1B5_4A32_D192_ED03;
        let mut next = move |m: usize| -> usize {
            x ^= x << 13; x ^= x >> 7; x ^= x << 17;
            (x % m as u64) as usize
        };
        // lengths around blake3's 64-byte block and 1024-byte chunk borders (and the 2- and 4-chunk subtree borders)
        let lengths = [0usize, 1, 2, 3, 31, 32, 33, 63, 64, 65, 127, 128, 129, 1023, 1024, 1025, 1087, 1088, 1089, 2047, 2048, 2049, 3071, 3072, 3073, 4095, 4096, 4097, 8191, 8192, 8193, 16384, 65537];

        // 1. fresh writer, nothing written
        {
            let w = HashedWrite::new(Scripted::new(vec![]));
            let (h, want) = (w.hash(), one_shot(b""));
            if h != want {
                witness(format!("HashedWrite with nothing written: hash() = {} but the one-shot hash of the empty string is {}", h.hex(), want.hex()));
            }
            let mut w = HashedWrite::new(Scripted::new(vec![]));
            for _ in 0..3 {
                match w.write(&[]) {
                    Ok(0) => {},
                    other => witness(format!("HashedWrite::write(&[]) returned {other:?}")),
                }
            }
            w.write_all(&[]).unwrap();
            if w.hash() != want {
                witness(format!("HashedWrite after three empty write calls: hash() = {} but the one-shot hash of the empty string is {}", w.hash().hex(), want.hex()));
            }
        }
        // 2. every length x scripts (one-shot offers and small offers)
        let scripts: Vec<(&str, Vec<Step>)> = vec![
            ("accepts everything", vec![]),
            ("accepts 1 byte per call", vec![Step::Take(1)]),
            ("accepts 63 / 1 / 64 / 65 bytes in turn", vec![Step::Take(63), Step::Take(1), Step::Take(64), Step::Take(65)]),
            ("accepts 1023 / 1 / 1024 / 1025 bytes in turn", vec![Step::Take(1023), Step::Take(1), Step::Take(1024), Step::Take(1025)]),
            ("answers Ok(0) on every other call", vec![Step::Zero, Step::Take(700)]),
            ("answers Ok(0) twice, then takes 3 bytes", vec![Step::Zero, Step::Zero, Step::Take(3)]),
            ("fails on the first call, then accepts", vec![Step::Fail, Step::Take(usize::MAX), Step::Take(usize::MAX), Step::Take(usize::MAX), Step::Take(usize::MAX), Step::Take(usize::MAX), Step::Take(usize::MAX)]),
            ("fails on every third call, takes 500 otherwise", vec![Step::Take(500), Step::Take(500), Step::Fail]),
            ("is interrupted on every second call, takes 100 otherwise", vec![Step::Interrupted, Step::Take(100)]),
        ];
        for &n in &lengths {
            let input = data(n, n as u32);
            for (sname, script) in &scripts {
                for offer in [usize::MAX, 1000, 64, 7] {
                    if n > 10_000 && offer < 64 {
                        continue;
                    }
                    if script.iter().all(|s| *s == Step::Take(1)) && !script.is_empty() && n > 10_000 {
                        continue;
                    }
                    drive_raw(&format!("HashedWrite over a writer that {sname}, {n} bytes offered through write() in offers of at most {offer} bytes"), &input, script.clone(), offer, n <= 4200);
                }
            }
        }
        // 3. random scripts
        for round in 0..60 {
            let n = [next(300), next(5000), 1024 + next(3), 2048 - 1 + next(3)][round % 4];
            let input = data(n, round as u32);
            let script: Vec<Step> = (0..1 + next(9)).map(|_| match next(10) { 0 => Step::Zero, 1 => Step::Fail, 2 => Step::Interrupted, 3 => Step::Take(usize::MAX), _ => Step::Take(1 + next(1100)) }).collect();
            if script.iter().all(|s| matches!(s, Step::Zero | Step::Fail | Step::Interrupted)) {
                continue;
            }
            let offer = [usize::MAX, 1 + next(2000)][next(2)];
            drive_raw(&format!("HashedWrite over a writer with the random script {script:?} (VERIF_SEED={seed}, round {round}), {n} bytes in offers of at most {offer}"), &input, script, offer, true);
        }
        // 4. failing writes at the first / a middle / the last call under write_all: the error comes back, the hash covers exactly
        //    what was accepted, and a retry of the rest completes the stream
        for &n in &[1usize, 64, 1024, 1025, 5000] {
            let input = data(n, 77);
            let per_call = 300usize;
            let total_calls = n.div_ceil(per_call);
            for fail_at in [0usize, total_calls / 2, total_calls - 1] {
                let mut script: Vec<Step> = (0..total_calls + 1).map(|_| Step::Take(per_call)).collect();
                script.insert(fail_at, Step::Fail);
                let what = format!("HashedWrite over a writer taking {per_call} bytes per call that fails once at call #{fail_at}, {n} bytes through write_all");
                let mut w = HashedWrite::new(Scripted::new(script));
                match w.write_all(&input) {
                    Err(e) if e.kind() == std::io::ErrorKind::Other => {},
                    other => witness(format!("{what}: write_all returned {other:?} although the inner writer reported an error")),
                }
                let accepted = (fail_at * per_call).min(n);
                let (h, want) = (w.hash(), one_shot(&input[..accepted]));
                if h != want {
                    witness(format!("{what}: after the failed write_all the inner writer holds {accepted} bytes, hash() = {} but their one-shot hash is {}", h.hex(), want.hex()));
                }
                w.write_all(&input[accepted..]).unwrap_or_else(|e| witness(format!("{what}: the retry of the remaining {} bytes failed: {e}", n - accepted)));
                let h = w.hash();
                let inner = w.into_inner();
                if inner.out != input {
                    witness(format!("{what}: after the retry the inner writer holds {} bytes, {n} were written", inner.out.len()));
                }
                if h != one_shot(&input) {
                    witness(format!("{what}: after failure and retry the inner writer holds exactly the {n} input bytes, but hash() = {} and their one-shot hash = {}", h.hex(), one_shot(&input).hex()));
                }
            }
            // a writer that stops accepting (Ok(0)) in the middle: write_all must report WriteZero, the hash covers the accepted part
            let mut w = HashedWrite::new(Scripted::new(vec![Step::Take(n / 2), Step::Zero]));
            if n >= 2 {
                match w.write_all(&input) {
                    Err(e) if e.kind() == std::io::ErrorKind::WriteZero => {},
                    other => witness(format!("write_all of {n} bytes over a writer that takes {} bytes and then answers Ok(0) returned {other:?}", n / 2)),
                }
                let (h, want) = (w.hash(), one_shot(&input[..n / 2]));
                if h != want {
                    witness(format!("HashedWrite over a writer that took {} of {n} bytes and then answered Ok(0): hash() = {} but the one-shot hash of the accepted bytes is {}", n / 2, h.hex(), want.hex()));
                }
            }
        }
        // 5. flush is passed through (count, error) and does not touch the hash
        {
            let input = data(3000, 5);
            let mut inner = Scripted::new(vec![Step::Take(1000)]);
            inner.fail_flush_at = Some(2);
            let mut w = HashedWrite::new(inner);
            w.write_all(&input[..1500]).unwrap();
            let r1 = w.flush();
            let h_mid = w.hash();
            let r2 = w.flush();
            let r3 = w.flush();
            if r1.is_err() || r2.is_ok() || r3.is_err() {
                witness(format!("HashedWrite::flush over a writer whose 2nd flush fails returned {r1:?}, {r2:?}, {r3:?} for the three calls"));
            }
            if h_mid != one_shot(&input[..1500]) || w.hash() != h_mid {
                witness(format!("HashedWrite: hash() after 1500 bytes and flush calls is {} / {}, the one-shot hash is {}", h_mid.hex(), w.hash().hex(), one_shot(&input[..1500]).hex()));
            }
            w.write_all(&input[1500..]).unwrap();
            let h = w.hash();
            let inner = w.into_inner();
            if inner.flushes != 3 {
                witness(format!("HashedWrite::flush was called 3 times, the inner writer saw {} flush calls", inner.flushes));
            }
            if h != one_shot(&input) || inner.out != input {
                witness(format!("HashedWrite: 3000 bytes written around three flush calls: hash() = {}, one-shot {}", h.hex(), one_shot(&input).hex()));
            }
        }
        // 6. write_vectored, BufWriter on top (as the documentation recommends), io::copy, by_ref
        for &n in &[0usize, 5, 64, 1024, 1025, 20_000] {
            let input = data(n, 9);
            for per_call in [usize::MAX, 1000, 3] {
                let what = format!("{n} bytes over an inner writer accepting at most {per_call} bytes per call");
                // vectored
                let mut w = HashedWrite::new(Scripted::new(vec![Step::Take(per_call)]));
                let mut pos = 0;
                let mut guard = 0;
                while pos < n && guard < 100_000 {
                    guard += 1;
                    let a = (pos + 10).min(n);
                    let b = (a + 700).min(n);
                    let c = (b + 1).min(n);
                    let bufs = [IoSlice::new(&[]), IoSlice::new(&input[pos..a]), IoSlice::new(&input[a..b]), IoSlice::new(&input[b..c])];
                    match w.write_vectored(&bufs) {
                        Ok(k) => pos += k,
                        Err(e) => witness(format!("write_vectored, {what}: error {e}")),
                    }
                }
                let h = w.hash();
                let inner = w.into_inner();
                if inner.out[..] != input[..pos] || h != one_shot(&inner.out) {
                    witness(format!("write_vectored, {what}: the inner writer holds {} bytes (the calls reported {pos}); hash() = {}, one-shot hash of the bytes held = {}", inner.out.len(), h.hex(), one_shot(&inner.out).hex()));
                }
                // BufWriter over &mut HashedWrite
                let mut w = HashedWrite::new(Scripted::new(vec![Step::Take(per_call)]));
                {
                    let mut bw = BufWriter::with_capacity(257, &mut w);
                    for piece in input.chunks(100) {
                        bw.write_all(piece).unwrap();
                    }
                    bw.flush().unwrap();
                }
                let h = w.hash();
                let inner = w.into_inner();
                if inner.out != input || h != one_shot(&input) {
                    witness(format!("BufWriter(257) over HashedWrite, {what}: inner writer holds {} bytes; hash() = {}, one-shot = {}", inner.out.len(), h.hex(), one_shot(&input).hex()));
                }
                // io::copy into by_ref()
                let mut w = HashedWrite::new(Scripted::new(vec![Step::Take(per_call)]));
                let copied = std::io::copy(&mut &input[..], w.by_ref()).unwrap();
                let h = w.hash();
                let inner = w.into_inner();
                if copied as usize != n || inner.out != input || h != one_shot(&input) {
                    witness(format!("io::copy into HashedWrite, {what}: copied {copied}, inner writer holds {} bytes; hash() = {}, one-shot = {}", inner.out.len(), h.hex(), one_shot(&input).hex()));
                }
            }
        }
        // 7. two hashers used alternately do not influence each other; different contents give different hashes
        {
            let (a, b) = (data(5000, 1), data(5000, 2));
            let mut wa = HashedWrite::new(Vec::new());
            let mut wb = HashedWrite::new(Vec::new());
            for i in 0..50 {
                wa.write_all(&a[i * 100..(i + 1) * 100]).unwrap();
                wb.write_all(&b[i * 100..(i + 1) * 100]).unwrap();
            }
            if wa.hash() != one_shot(&a) || wb.hash() != one_shot(&b) || wa.hash() == wb.hash() {
                witness(format!("two HashedWrite instances fed alternately: hashes {} / {}, one-shot hashes {} / {}", wa.hash().hex(), wb.hash().hex(), one_shot(&a).hex(), one_shot(&b).hex()));
            }
            if wa.into_inner() != a {
                witness("into_inner() of a HashedWrite<Vec<u8>> does not return the bytes written".into());
            }
        }
    }
}
