//! Witness search for C10 (shard union / difference / consolidation neither lose nor invent records) and C18 (keyed re-export
//! keeps dedup answers, protects chunk hashes, keeps/drops file records as requested; expiry), with C05-style truthfulness of
//! every dedup answer.  The REAL mdb_shard code is run on generated shards; the expected result is computed by a small reference
//! model (BTreeMap<file hash, record>, BTreeMap<xorb hash, chunk list>) written from the property statements:
//!   A. set operations: union = records of either input (richer variant for a file present in both), difference = records of
//!      the second input that are not in the first; every record retrievable, lookup tables and totals correct;
//!   B. consolidate_shards_in_directory: records preserved, every returned shard exists and is named by its content hash,
//!      only redundant inputs deleted - on random directories and on the "interrupted re-run" directory {A, B, M = A u B, D};
//!   C. export_as_keyed_shard for several keys x all 8 include-flag combinations, queried through ShardFileManager with
//!      unkeyed hashes, including (a) a registered shard file of the earlier-searched key collection deleted from disk and
//!      (b) a truncated-prefix collision in the unkeyed collection;
//!   D. expiry: an expired shard is not loaded and is deleted only after the grace period.
//!   E. (opt-in, C10_ONLY=E, not part of the default run) a probe outside the generated input space: a file segment with
//!      non-zero cas_flags makes export_as_keyed_shard(include_file_info=false) fail; the code base only ever writes 0 there.
//!   F. entry points and input classes not reached by A-D: (1) set operations on shards with zero-chunk xorbs (in the first, the
//!      second, both) and on LOOKUP-LESS operands - the re-serialisation by `MDBMinimalShard::serialize` and the zero-key
//!      `export_as_keyed_shard` with no tables - in every operand position, union and difference; the truthfulness and completeness
//!      of `MDBInMemoryShard::chunk_hash_dedup_query` on in-memory unions / differences; (2) `export_as_keyed_shard_streaming` ==
//!      `export_as_keyed_shard` (all 8 flag combinations x zero key / real key; identical bytes up to the two footer timestamps),
//!      the creation / expiry footer fields for validity 0 s, 1 s, 1 h, 10 years, `MDBShardFile::export_with_expiration` (content
//!      identical, only the expiry changes, name == content hash); (3) the manager entry points `new_in_cache_directory`,
//!      `registered_shard_list`, `shard_is_registered`, `all_file_info`, `refresh_shard_dir`, `register_shards_by_path` (directory
//!      and single file), `clean_expired_shards_if_needed` with the DEFAULT grace period on a directory holding a valid shard, one
//!      expired a day ago and one expired eight days ago: expired shards are never loaded, the valid one and the one inside the
//!      grace period are never deleted, a shard appearing later is found after refresh.
//!      (4) expiry whichever way a shard is NAMED: shards (unkeyed and keyed) whose expiry lies 1000 s in the past / one hour in
//!      the future / is absent (u64::MAX), each handed to `MDBShardFile::load_all_valid` and to
//!      `ShardFileManager::register_shards_by_path` of a manager over another (empty) directory as (i) its directory, (ii) its
//!      absolute file path, (iii) its relative file path (current directory changed for the call; on HEAD this form fails with
//!      an error, which is accepted and noted on stderr): an expired shard is never returned, never registered and none of its
//!      chunks or files is answered by the manager; a shard that is not expired is returned, registered and answers.
//!      (5) ADJACENT chunk entries whose hashes differ but share the first 64 bits: a pair inside a xorb, three in a row at the
//!      start of a xorb, a pair at the very end of a xorb, and a pair ACROSS a xorb boundary (last chunk of one xorb / first chunk
//!      of the next in hash order).  The shard is exported under two non-zero keys with all 8 include-flag combinations through
//!      `export_as_keyed_shard` and `export_as_keyed_shard_streaming`: every chunk entry of the export == hmac(key, the original
//!      entry at that position) and the tables / shard-level queries are right (full shard checker); then a `ShardFileManager`
//!      over the export alone is queried with UNKEYED hashes - every chunk alone, repeated twice, every run to the xorb end
//!      (+ unknown hashes), a run with a foreign hash in second place: each answer must be truthful and equal the answer of the
//!      ORIGINAL shard (`MDBShardInfo::chunk_hash_dedup_query` on its bytes; the manager's own per-collection table keeps one
//!      entry per 64-bit prefix, so an unkeyed manager cannot serve as reference for colliding chunks).
//! Deterministic; seed from VERIF_SEED (default 0); C10_ONLY=A|B|C|D|F selects sections, C10_SKIP=Ca|Cb skips scenario (a)/(b) of C.
//! Prints `WITNESS ...` and exits 1 on the first violation, `no violation found` and exits 0 otherwise.
use std::collections::{BTreeMap, BTreeSet};
use std::io::Cursor;
use std::panic::{catch_unwind, AssertUnwindSafe};
use std::path::{Path, PathBuf};
use std::sync::Arc;
use std::time::{Duration, SystemTime};

use mdb_shard::cas_structs::{CASChunkSequenceEntry, CASChunkSequenceHeader, MDBCASInfo};
use mdb_shard::file_structs::{
    FileDataSequenceEntry, FileDataSequenceHeader, FileMetadataExt, FileVerificationEntry, MDBFileInfo,
};
use mdb_shard::session_directory::consolidate_shards_in_directory;
use mdb_shard::set_operations::{shard_file_difference, shard_file_union, shard_set_difference, shard_set_union};
use mdb_shard::shard_file_reconstructor::FileReconstructor;
use mdb_shard::shard_in_memory::MDBInMemoryShard;
use mdb_shard::utils::{parse_shard_filename, shard_file_name};
use mdb_shard::{MDBShardFile, MDBShardInfo, ShardFileManager};
use merklehash::{compute_data_hash, HMACKey, MerkleHash};

// ---------------------------------------------------------------------------------------------------------------------
// reference model
// ---------------------------------------------------------------------------------------------------------------------
type H = [u64; 4];
const ZERO: H = [0; 4];

fn mh(h: &H) -> MerkleHash {
    MerkleHash::from(*h)
}
fn hh(m: &MerkleHash) -> H {
    **m
}
fn hx(h: &H) -> String {
    format!("{:016x}.{:04x}", h[0], h[1] & 0xffff)
}

#[derive(Clone, Debug, PartialEq, Eq)]
struct FileRec {
    segs: Vec<(H, u32, u32, u32)>, // (xorb hash, bytes, chunk start, chunk end)
    verif: Option<Vec<H>>,
    sha: Option<H>,
}
#[derive(Clone, Debug, PartialEq, Eq)]
struct XorbRec {
    chunks: Vec<(H, u32)>, // (chunk hash, length)
    on_disk: u32,
}
#[derive(Clone, Default, Debug, PartialEq, Eq)]
struct Model {
    files: BTreeMap<H, FileRec>,
    xorbs: BTreeMap<H, XorbRec>,
}

fn richer(a: &FileRec, b: &FileRec) -> FileRec {
    FileRec { segs: a.segs.clone(), verif: a.verif.clone().or(b.verif.clone()), sha: a.sha.or(b.sha) }
}
/// records of either input; the richer variant when both carry the file
fn m_union(a: &Model, b: &Model) -> Model {
    let mut r = a.clone();
    for (h, f) in &b.files {
        let n = match r.files.get(h) {
            Some(o) => richer(o, f),
            None => f.clone(),
        };
        r.files.insert(*h, n);
    }
    for (h, x) in &b.xorbs {
        r.xorbs.entry(*h).or_insert_with(|| x.clone());
    }
    r
}
/// records of `second` that are not in `first`
fn m_diff(first: &Model, second: &Model) -> Model {
    Model {
        files: second.files.iter().filter(|(h, _)| !first.files.contains_key(*h)).map(|(h, f)| (*h, f.clone())).collect(),
        xorbs: second.xorbs.iter().filter(|(h, _)| !first.xorbs.contains_key(*h)).map(|(h, x)| (*h, x.clone())).collect(),
    }
}
/// every record of `small` is present in `big` (a file may be present as a richer variant)
fn m_covered(small: &Model, big: &Model) -> bool {
    small.files.iter().all(|(h, f)| big.files.get(h).map(|g| richer(g, f) == *g).unwrap_or(false))
        && small.xorbs.iter().all(|(h, x)| big.xorbs.get(h) == Some(x))
}
impl Model {
    fn n_chunks(&self) -> usize {
        self.xorbs.values().map(|x| x.chunks.len()).sum()
    }
    fn describe(&self) -> String {
        format!(
            "{{files [{}], xorbs [{}]}}",
            self.files
                .iter()
                .map(|(h, f)| format!(
                    "{}:{}seg{}{}",
                    hx(h),
                    f.segs.len(),
                    if f.verif.is_some() { "+verif" } else { "" },
                    if f.sha.is_some() { "+sha" } else { "" }
                ))
                .collect::<Vec<_>>()
                .join(" "),
            self.xorbs.iter().map(|(h, x)| format!("{}:{}ch", hx(h), x.chunks.len())).collect::<Vec<_>>().join(" ")
        )
    }
}

// ---------------------------------------------------------------------------------------------------------------------
// rng + failure plumbing
// ---------------------------------------------------------------------------------------------------------------------
struct Rng(u64);
impl Rng {
    fn next(&mut self) -> u64 {
        self.0 = self.0.wrapping_add(0x9E3779B97F4A7C15);
        let mut z = self.0;
        z = (z ^ (z >> 30)).wrapping_mul(0xBF58476D1CE4E5B9);
        z = (z ^ (z >> 27)).wrapping_mul(0x94D049BB133111EB);
        z ^ (z >> 31)
    }
    fn below(&mut self, n: usize) -> usize {
        (self.next() % n.max(1) as u64) as usize
    }
    fn coin(&mut self) -> bool {
        self.next() & 1 == 1
    }
    fn hash(&mut self) -> H {
        // never the all-ones bookend nor the all-zero "no file" hash
        [self.next() | 2, self.next() & !4, self.next(), self.next()]
    }
    fn hash_with_prefix(&mut self, p: u64) -> H {
        [p, self.next() & !4, self.next(), self.next()]
    }
}

/// description of the current inputs, appended to a WITNESS line after the finding itself
static DETAILS: std::sync::Mutex<String> = std::sync::Mutex::new(String::new());
fn witness(msg: String) -> ! {
    let msg = format!("{msg}{}", DETAILS.lock().map(|d| d.clone()).unwrap_or_default());
    let one_line: String = msg.chars().map(|c| if c == '\n' { ' ' } else { c }).collect();
    println!("WITNESS {one_line}");
    std::process::exit(1);
}
/// run code under test: a panic or an Err is a violation where the property says the operation must succeed
fn must<T, E: std::fmt::Debug>(what: &str, f: impl FnOnce() -> Result<T, E>) -> T {
    match catch_unwind(AssertUnwindSafe(f)) {
        Ok(Ok(v)) => v,
        Ok(Err(e)) => witness(format!("{what}: returned error {e:?}")),
        Err(p) => {
            let s = p.downcast_ref::<String>().cloned().or(p.downcast_ref::<&str>().map(|s| s.to_string())).unwrap_or_default();
            witness(format!("{what}: panicked: {}", s.chars().take(300).collect::<String>()))
        },
    }
}
fn infra<T, E: std::fmt::Debug>(what: &str, r: Result<T, E>) -> T {
    match r {
        Ok(v) => v,
        Err(e) => {
            eprintln!("infrastructure failure: {what}: {e:?}");
            std::process::exit(3);
        },
    }
}

// ---------------------------------------------------------------------------------------------------------------------
// model -> real shard
// ---------------------------------------------------------------------------------------------------------------------
fn to_mem(m: &Model) -> MDBInMemoryShard {
    let mut s = MDBInMemoryShard::default();
    for (h, x) in &m.xorbs {
        let mut pos = 0u32;
        let mut chunks = Vec::new();
        for (c, len) in &x.chunks {
            chunks.push(CASChunkSequenceEntry::new(mh(c), *len, pos));
            pos += *len;
        }
        let mut header = CASChunkSequenceHeader::new(mh(h), x.chunks.len(), pos);
        header.num_bytes_on_disk = x.on_disk;
        must("MDBInMemoryShard::add_cas_block", || s.add_cas_block(MDBCASInfo { metadata: header, chunks }));
    }
    for (h, f) in &m.files {
        let fi = MDBFileInfo {
            metadata: FileDataSequenceHeader::new(mh(h), f.segs.len(), f.verif.is_some(), f.sha.is_some()),
            segments: f.segs.iter().map(|(x, b, s, e)| FileDataSequenceEntry::new(mh(x), *b, *s, *e)).collect(),
            verification: f.verif.iter().flatten().map(|v| FileVerificationEntry::new(mh(v))).collect(),
            metadata_ext: f.sha.map(|v| FileMetadataExt::new(mh(&v))),
        };
        must("MDBInMemoryShard::add_file_reconstruction_info", || s.add_file_reconstruction_info(fi));
    }
    s
}
fn to_bytes(m: &Model) -> Vec<u8> {
    let mem = to_mem(m);
    let mut out = Vec::new();
    must("MDBShardInfo::serialize_from", || MDBShardInfo::serialize_from(&mut out, &mem));
    out
}
fn file_rec_of(fi: &MDBFileInfo) -> Result<(H, FileRec), String> {
    let h = hh(&fi.metadata.file_hash);
    if fi.metadata.num_entries as usize != fi.segments.len() {
        return Err(format!("file {} header says {} entries, {} read", hx(&h), fi.metadata.num_entries, fi.segments.len()));
    }
    if fi.segments.iter().any(|s| s.cas_flags != 0) {
        return Err(format!("file {} has a segment with invented cas_flags", hx(&h)));
    }
    let verif = if fi.metadata.contains_verification() {
        Some(fi.verification.iter().map(|v| hh(&v.range_hash)).collect::<Vec<_>>())
    } else {
        if !fi.verification.is_empty() {
            return Err(format!("file {} carries verification entries without the flag", hx(&h)));
        }
        None
    };
    if fi.metadata.contains_metadata_ext() != fi.metadata_ext.is_some() {
        return Err(format!("file {} metadata_ext flag and content disagree", hx(&h)));
    }
    Ok((
        h,
        FileRec {
            segs: fi.segments.iter().map(|s| (hh(&s.cas_hash), s.unpacked_segment_bytes, s.chunk_index_start, s.chunk_index_end)).collect(),
            verif,
            sha: fi.metadata_ext.as_ref().map(|e| hh(&e.sha256)),
        },
    ))
}
fn keyed(c: &H, key: &H) -> H {
    if *key == ZERO {
        *c
    } else {
        hh(&mh(c).hmac(mh(key)))
    }
}
/// converts a stored xorb back; `key` is the key the shard is expected to be stored under
fn xorb_rec_of(ci: &MDBCASInfo, key: &H, unkey: &BTreeMap<H, H>) -> Result<(H, XorbRec), String> {
    let h = hh(&ci.metadata.cas_hash);
    if ci.metadata.num_entries as usize != ci.chunks.len() || ci.metadata.cas_flags != 0 {
        return Err(format!("xorb {} header inconsistent", hx(&h)));
    }
    let mut pos = 0u32;
    let mut chunks = Vec::new();
    for c in &ci.chunks {
        if c.chunk_byte_range_start != pos {
            return Err(format!("xorb {} chunk byte offsets changed", hx(&h)));
        }
        pos += c.unpacked_segment_bytes;
        let stored = hh(&c.chunk_hash);
        let raw = if *key == ZERO {
            stored
        } else {
            match unkey.get(&stored) {
                Some(r) => *r,
                None => return Err(format!("xorb {} holds chunk hash {} which is not the keyed form of any original chunk", hx(&h), hx(&stored))),
            }
        };
        chunks.push((raw, c.unpacked_segment_bytes));
    }
    if ci.metadata.num_bytes_in_cas != pos {
        return Err(format!("xorb {} num_bytes_in_cas {} != {}", hx(&h), ci.metadata.num_bytes_in_cas, pos));
    }
    Ok((h, XorbRec { chunks, on_disk: ci.metadata.num_bytes_on_disk }))
}

// ---------------------------------------------------------------------------------------------------------------------
// truthfulness + completeness of a dedup answer against the model (C05 wording)
// ---------------------------------------------------------------------------------------------------------------------
type Answer = Option<(usize, FileDataSequenceEntry)>;
fn validate_answer(m: &Model, q: &[H], ans: &Answer) -> Result<(), String> {
    let present = m.xorbs.values().any(|x| x.chunks.iter().any(|c| c.0 == q[0]));
    match ans {
        None => {
            if present {
                Err(format!("query starting with stored chunk {} answered None", hx(&q[0])))
            } else {
                Ok(())
            }
        },
        Some((n, e)) => {
            let Some(x) = m.xorbs.get(&hh(&e.cas_hash)) else {
                return Err(format!("answer names xorb {} which is not stored", hx(&hh(&e.cas_hash))));
            };
            let (s, t) = (e.chunk_index_start as usize, e.chunk_index_end as usize);
            if *n == 0 || *n > q.len() || t < s || t - s != *n || t > x.chunks.len() {
                return Err(format!("answer n={n} range [{s},{t}) is malformed for a query of {} hashes / xorb of {} chunks", q.len(), x.chunks.len()));
            }
            for i in 0..*n {
                if x.chunks[s + i].0 != q[i] {
                    return Err(format!("answer claims query hash #{i} is chunk {} of xorb {}, but that chunk is different", s + i, hx(&hh(&e.cas_hash))));
                }
            }
            let bytes: u32 = x.chunks[s..t].iter().map(|c| c.1).sum();
            if bytes != e.unpacked_segment_bytes {
                return Err(format!("answer reports {} bytes, the chunks sum to {bytes}", e.unpacked_segment_bytes));
            }
            if t < x.chunks.len() && *n < q.len() && x.chunks[t].0 == q[*n] {
                return Err(format!("answer stops after {n} chunks although the next chunk also matches"));
            }
            Ok(())
        },
    }
}
/// queries for every chunk position: runs of several lengths, a run continued by a wrong hash, a run past the xorb end
fn queries_for(m: &Model, junk: &H) -> Vec<Vec<H>> {
    let mut qs = Vec::new();
    for x in m.xorbs.values() {
        let n = x.chunks.len();
        for j in 0..n {
            for l in [1usize, 2, 3, 5, n - j] {
                if l <= n - j {
                    qs.push(x.chunks[j..j + l].iter().map(|c| c.0).collect::<Vec<_>>());
                }
            }
            let mut past: Vec<H> = x.chunks[j..].iter().map(|c| c.0).collect();
            past.push(*junk);
            past.push(*junk);
            qs.push(past);
            if n - j >= 2 {
                qs.push(vec![x.chunks[j].0, *junk, x.chunks[j + 1].0]);
            }
        }
    }
    qs.sort();
    qs.dedup();
    qs
}

// ---------------------------------------------------------------------------------------------------------------------
// full check of serialized shard bytes against a model
// ---------------------------------------------------------------------------------------------------------------------
#[derive(Clone, Copy)]
struct Expect {
    key: H,
    files: bool,
    cas_lookup: bool,
    chunk_lookup: bool,
}
const PLAIN: Expect = Expect { key: ZERO, files: true, cas_lookup: true, chunk_lookup: true };

fn rd_u64(b: &[u8], at: usize) -> u64 {
    u64::from_le_bytes(b[at..at + 8].try_into().unwrap())
}
fn rd_u32(b: &[u8], at: usize) -> u32 {
    u32::from_le_bytes(b[at..at + 4].try_into().unwrap())
}

fn check_shard_bytes(bytes: &[u8], m: &Model, ex: Expect, negatives: &[H]) -> Result<(), String> {
    match catch_unwind(AssertUnwindSafe(|| check_shard_bytes_impl(bytes, m, ex, negatives))) {
        Ok(r) => r,
        Err(_) => Err("the shard reading code panicked on this shard".into()),
    }
}
fn check_shard_bytes_impl(bytes: &[u8], m: &Model, ex: Expect, negatives: &[H]) -> Result<(), String> {
    let e = |s: &str, e: mdb_shard::error::MDBShardError| format!("{s}: error {e:?}");
    let mut rdr = Cursor::new(bytes);
    let si = MDBShardInfo::load_from_reader(&mut rdr).map_err(|x| e("load_from_reader", x))?;
    let md = &si.metadata;
    if si.num_bytes() != bytes.len() as u64 {
        return Err(format!("footer says {} bytes, shard has {}", si.num_bytes(), bytes.len()));
    }
    // ---- totals
    let n_chunks = m.n_chunks();
    let exp_files = if ex.files { m.files.len() } else { 0 };
    if si.num_file_entries() != exp_files {
        return Err(format!("num_file_entries {} != {}", si.num_file_entries(), exp_files));
    }
    if si.num_cas_entries() != if ex.cas_lookup { m.xorbs.len() } else { 0 } {
        return Err(format!("num_cas_entries {} but {} xorbs expected (cas lookup included: {})", si.num_cas_entries(), m.xorbs.len(), ex.cas_lookup));
    }
    if si.total_num_chunks() != if ex.chunk_lookup { n_chunks } else { 0 } {
        return Err(format!("total_num_chunks {} but {} chunks expected (chunk lookup included: {})", si.total_num_chunks(), n_chunks, ex.chunk_lookup));
    }
    let stored: u64 = m.xorbs.values().map(|x| x.chunks.iter().map(|c| c.1 as u64).sum::<u64>()).sum();
    let on_disk: u64 = m.xorbs.values().map(|x| x.on_disk as u64).sum();
    let mat: u64 = m.files.values().map(|f| f.segs.iter().map(|s| s.1 as u64).sum::<u64>()).sum();
    if si.stored_bytes() != stored || si.stored_bytes_on_disk() != on_disk {
        return Err(format!("stored_bytes {} / on disk {} but the xorbs sum to {stored} / {on_disk}", si.stored_bytes(), si.stored_bytes_on_disk()));
    }
    if ex.files && si.materialized_bytes() != mat {
        return Err(format!("materialized_bytes {} but the file records sum to {mat}", si.materialized_bytes()));
    }
    let want_key = if ex.key == ZERO { None } else { Some(mh(&ex.key)) };
    if si.chunk_hmac_key() != want_key {
        return Err(format!("chunk_hmac_key is {:?}, expected {:?}", si.chunk_hmac_key(), want_key));
    }
    // ---- the records themselves, in hash order
    let got_files = si.read_all_file_info_sections(&mut rdr).map_err(|x| e("read_all_file_info_sections", x))?;
    let mut got_f = Vec::new();
    for fi in &got_files {
        got_f.push(file_rec_of(fi)?);
    }
    let want_f: Vec<(H, FileRec)> = if ex.files { m.files.iter().map(|(h, f)| (*h, f.clone())).collect() } else { vec![] };
    if got_f != want_f {
        let g: BTreeMap<H, FileRec> = got_f.iter().cloned().collect();
        for (h, f) in &want_f {
            match g.get(h) {
                None => return Err(format!("file record {} is missing", hx(h))),
                Some(o) if o != f => {
                    return Err(format!(
                        "file record {} differs: has verification={} metadata_ext={} segs={}, expected verification={} metadata_ext={} segs={}{}",
                        hx(h), o.verif.is_some(), o.sha.is_some(), o.segs.len(), f.verif.is_some(), f.sha.is_some(), f.segs.len(),
                        if o.verif.is_some() == f.verif.is_some() && o.sha.is_some() == f.sha.is_some() { " (same flags, different content)" } else { "" }
                    ))
                },
                _ => {},
            }
        }
        for (h, _) in &got_f {
            if !want_f.iter().any(|w| w.0 == *h) {
                return Err(format!("file record {} was invented (not expected in the result)", hx(h)));
            }
        }
        return Err("file records are not stored in hash order / are duplicated".into());
    }
    let unkey: BTreeMap<H, H> = m.xorbs.values().flat_map(|x| x.chunks.iter().map(|c| (keyed(&c.0, &ex.key), c.0))).collect();
    let got_x = si.read_all_cas_blocks_full(&mut rdr).map_err(|x| e("read_all_cas_blocks_full", x))?;
    let mut got_xr = Vec::new();
    for ci in &got_x {
        got_xr.push(xorb_rec_of(ci, &ex.key, &unkey)?);
        if ex.key != ZERO {
            if let Some(c) = ci.chunks.iter().find(|c| unkey.values().any(|r| *r == hh(&c.chunk_hash))) {
                return Err(format!("keyed shard still exposes raw chunk hash {}", hx(&hh(&c.chunk_hash))));
            }
        }
    }
    let want_x: Vec<(H, XorbRec)> = m.xorbs.iter().map(|(h, x)| (*h, x.clone())).collect();
    if got_xr != want_x {
        let g: BTreeMap<H, XorbRec> = got_xr.iter().cloned().collect();
        for (h, x) in &want_x {
            match g.get(h) {
                None => return Err(format!("xorb record {} is missing", hx(h))),
                Some(o) if o != x => return Err(format!("xorb record {} differs ({} chunks, expected {})", hx(h), o.chunks.len(), x.chunks.len())),
                _ => {},
            }
        }
        for (h, _) in &got_xr {
            if !m.xorbs.contains_key(h) {
                return Err(format!("xorb record {} was invented (not expected in the result)", hx(h)));
            }
        }
        return Err("xorb records are not stored in hash order / are duplicated".into());
    }
    // ---- lookup tables, parsed by hand
    let (fo, co, ko, end) = (md.file_lookup_offset as usize, md.cas_lookup_offset as usize, md.chunk_lookup_offset as usize, md.footer_offset as usize);
    if co != fo + 12 * md.file_lookup_num_entry as usize || ko != co + 12 * md.cas_lookup_num_entry as usize || end != ko + 16 * md.chunk_lookup_num_entry as usize || end + 200 != bytes.len() {
        return Err("lookup table offsets in the footer are inconsistent with the entry counts".into());
    }
    let mut want_fl = Vec::new();
    let mut idx = 0u32;
    for (h, f) in &want_f {
        want_fl.push((h[0], idx));
        idx += 1 + f.segs.len() as u32 * if f.verif.is_some() { 2 } else { 1 } + f.sha.is_some() as u32;
    }
    let got_fl: Vec<(u64, u32)> = (0..md.file_lookup_num_entry as usize).map(|i| (rd_u64(bytes, fo + 12 * i), rd_u32(bytes, fo + 12 * i + 8))).collect();
    if got_fl != want_fl {
        return Err(format!("file lookup table is wrong: {got_fl:x?}, expected {want_fl:x?}"));
    }
    let mut want_cl = Vec::new();
    let mut want_kl = Vec::new();
    let mut idx = 0u32;
    for (h, x) in &want_x {
        want_cl.push((h[0], idx));
        for (j, c) in x.chunks.iter().enumerate() {
            want_kl.push((keyed(&c.0, &ex.key)[0], idx, j as u32));
        }
        idx += 1 + x.chunks.len() as u32;
    }
    if ex.cas_lookup {
        let got_cl: Vec<(u64, u32)> = (0..md.cas_lookup_num_entry as usize).map(|i| (rd_u64(bytes, co + 12 * i), rd_u32(bytes, co + 12 * i + 8))).collect();
        if got_cl != want_cl {
            return Err(format!("xorb lookup table is wrong: {got_cl:x?}, expected {want_cl:x?}"));
        }
    }
    if ex.chunk_lookup {
        let mut got_kl: Vec<(u64, u32, u32)> =
            (0..md.chunk_lookup_num_entry as usize).map(|i| (rd_u64(bytes, ko + 16 * i), rd_u32(bytes, ko + 16 * i + 8), rd_u32(bytes, ko + 16 * i + 12))).collect();
        if got_kl.windows(2).any(|w| w[0].0 > w[1].0) {
            return Err("chunk lookup table is not sorted by truncated hash".into());
        }
        got_kl.sort();
        want_kl.sort();
        if got_kl != want_kl {
            return Err(format!("chunk lookup table is wrong: {} entries, expected {}; first difference {:x?}", got_kl.len(), want_kl.len(), got_kl.iter().zip(want_kl.iter()).find(|(a, b)| a != b)));
        }
    }
    // ---- retrieval through the query API
    for (h, f) in &m.files {
        let got = si.get_file_reconstruction_info(&mut rdr, &mh(h)).map_err(|x| e("get_file_reconstruction_info", x))?;
        match (got, ex.files) {
            (Some(fi), true) => {
                if file_rec_of(&fi)? != (*h, f.clone()) {
                    return Err(format!("get_file_reconstruction_info({}) returns a different record than expected", hx(h)));
                }
            },
            (None, true) => return Err(format!("file {} is stored but get_file_reconstruction_info does not find it", hx(h))),
            (Some(_), false) => return Err(format!("file {} is retrievable although file info was to be dropped", hx(h))),
            (None, false) => {},
        }
    }
    for h in negatives {
        if !m.files.contains_key(h) && si.get_file_reconstruction_info(&mut rdr, &mh(h)).map_err(|x| e("get_file_reconstruction_info", x))?.is_some() {
            return Err(format!("get_file_reconstruction_info finds file {} which is not in the shard", hx(h)));
        }
    }
    if ex.cas_lookup {
        let probe: Vec<H> = m.xorbs.keys().cloned().chain(negatives.iter().cloned()).collect();
        for h in &probe {
            let mut dest = [0u32; 8];
            let n = si.get_cas_info_index_by_hash(&mut rdr, &mh(h), &mut dest).map_err(|x| e("get_cas_info_index_by_hash", x))?;
            let mut found = false;
            for &i in dest.iter().take(n) {
                let at = md.cas_info_offset as usize + 48 * i as usize;
                if at + 48 > bytes.len() {
                    return Err(format!("xorb lookup for {} points outside the shard", hx(h)));
                }
                let ci = MDBCASInfo::deserialize(&mut Cursor::new(&bytes[at..])).map_err(|x| format!("reading cas block: {x:?}"))?;
                if let Some(ci) = ci {
                    if hh(&ci.metadata.cas_hash) == *h {
                        found = true;
                        if m.xorbs.get(h) != Some(&xorb_rec_of(&ci, &ex.key, &unkey)?.1) {
                            return Err(format!("xorb lookup for {} leads to a block with different content", hx(h)));
                        }
                    }
                }
            }
            if found != m.xorbs.contains_key(h) {
                return Err(format!("xorb {}: stored={} but found through the xorb lookup table={}", hx(h), m.xorbs.contains_key(h), found));
            }
        }
    }
    if ex.chunk_lookup {
        let junk = [0x7777_7777_7777_7777u64, 1, 2, 3];
        let mut qs = queries_for(m, &junk);
        for h in negatives {
            qs.push(vec![*h]);
        }
        for x in m.xorbs.values().take(3) {
            if let Some(c) = x.chunks.first() {
                qs.push(vec![[c.0[0], c.0[1] ^ 1, c.0[2], c.0[3]]]); // same truncated prefix, different hash
            }
        }
        for q in qs {
            let qm: Vec<MerkleHash> = q.iter().map(mh).collect();
            let ans = si.chunk_hash_dedup_query(&mut rdr, &qm).map_err(|x| e("chunk_hash_dedup_query", x))?;
            validate_answer(m, &q, &ans).map_err(|s| format!("chunk_hash_dedup_query({} hashes starting {}): {s}", q.len(), hx(&q[0])))?;
        }
    }
    Ok(())
}

// ---------------------------------------------------------------------------------------------------------------------
// input generation: a pool of full records; a shard takes a subset, each file in one of the 4 flag variants
// ---------------------------------------------------------------------------------------------------------------------
struct Pool {
    files: Vec<(H, FileRec)>, // full variant (verification + metadata_ext)
    xorbs: Vec<(H, XorbRec)>,
    negatives: Vec<H>,
}
fn gen_pool(rng: &mut Rng, n_files: usize, n_xorbs: usize, unique_chunks: bool) -> Pool {
    // xorb hashes: some groups share the first u64
    let mut xh: Vec<H> = Vec::new();
    for i in 0..n_xorbs {
        let h = if !xh.is_empty() && i % 4 != 0 { let p = xh[i - 1][0]; rng.hash_with_prefix(p) } else { rng.hash() };
        xh.push(h);
    }
    let mut all_chunks: Vec<H> = Vec::new();
    let mut xorbs = Vec::new();
    for (i, h) in xh.iter().enumerate() {
        let n = match i % 6 { 0 => 1, 1 => 2, 2 => 7, 3 => 12, 4 => 3, _ => 1 + rng.below(9) };
        let mut chunks = Vec::new();
        for _ in 0..n {
            let c = if unique_chunks || all_chunks.is_empty() {
                rng.hash()
            } else {
                match rng.below(8) {
                    0 => all_chunks[rng.below(all_chunks.len())],                                   // duplicate chunk (other or same xorb)
                    1 | 2 => { let p = all_chunks[rng.below(all_chunks.len())][0]; rng.hash_with_prefix(p) }, // truncated-prefix collision
                    _ => rng.hash(),
                }
            };
            // keep the number of chunks with one truncated prefix below the 8-candidate window of the lookup
            let c = if all_chunks.iter().filter(|o| o[0] == c[0]).count() >= 5 { rng.hash() } else { c };
            all_chunks.push(c);
            chunks.push((c, 1 + rng.below(60000) as u32));
        }
        xorbs.push((*h, XorbRec { chunks, on_disk: rng.below(100000) as u32 }));
    }
    let mut fh: Vec<H> = Vec::new();
    for i in 0..n_files {
        let h = if !fh.is_empty() && i % 3 != 0 { let p = fh[i - 1][0]; rng.hash_with_prefix(p) } else { rng.hash() };
        fh.push(h);
    }
    let mut files = Vec::new();
    for (i, h) in fh.iter().enumerate() {
        let n = match i % 5 { 0 => 1, 1 => 0, 2 => 4, _ => 1 + rng.below(6) };
        let segs: Vec<(H, u32, u32, u32)> = (0..n)
            .map(|_| {
                let (xh, x) = &xorbs[rng.below(xorbs.len())];
                let s = rng.below(x.chunks.len());
                let e = s + 1 + rng.below(x.chunks.len() - s);
                (*xh, x.chunks[s..e].iter().map(|c| c.1).sum(), s as u32, e as u32)
            })
            .collect();
        let verif = Some((0..n).map(|_| rng.hash()).collect());
        files.push((*h, FileRec { segs, verif, sha: Some(rng.hash()) }));
    }
    let mut negatives: Vec<H> = (0..4).map(|_| rng.hash()).collect();
    negatives.push(rng.hash_with_prefix(fh[0][0]));
    negatives.push(rng.hash_with_prefix(xh[0][0]));
    negatives.push(rng.hash_with_prefix(all_chunks[0][0]));
    Pool { files, xorbs, negatives }
}
fn variant(f: &FileRec, v: usize) -> FileRec {
    FileRec { segs: f.segs.clone(), verif: if v & 1 != 0 { f.verif.clone() } else { None }, sha: if v & 2 != 0 { f.sha } else { None } }
}
/// subset of the pool; each record taken with probability num/8
fn gen_shard(rng: &mut Rng, p: &Pool, f_num: usize, x_num: usize) -> Model {
    let mut m = Model::default();
    for (h, f) in &p.files {
        if rng.below(8) < f_num {
            m.files.insert(*h, variant(f, rng.below(4)));
        }
    }
    for (h, x) in &p.xorbs {
        if rng.below(8) < x_num {
            m.xorbs.insert(*h, x.clone());
        }
    }
    m
}
fn negatives_for(p: &Pool) -> Vec<H> {
    let mut v = p.negatives.clone();
    v.extend(p.files.iter().map(|f| f.0));
    v.extend(p.xorbs.iter().map(|x| x.0));
    v
}

// ---------------------------------------------------------------------------------------------------------------------
// A. set operations
// ---------------------------------------------------------------------------------------------------------------------
fn check_set_ops(name: &str, a: &Model, b: &Model, neg: &[H], with_files: bool) {
    let ctx = |op: &str| format!("[A {name}] {op}(first, second)");
    *DETAILS.lock().unwrap() = format!(" | inputs: first = {} ; second = {}", a.describe(), b.describe());
    let (ba, bb) = (to_bytes(a), to_bytes(b));
    for (which, bytes, m) in [("first", &ba, a), ("second", &bb, b)] {
        if let Err(s) = check_shard_bytes(bytes, m, PLAIN, neg) {
            witness(format!("[A {name}] the {which} input shard written by MDBShardInfo::serialize_from is already wrong: {s}"));
        }
    }
    let load = |b: &Vec<u8>| must("MDBShardInfo::load_from_reader", || MDBShardInfo::load_from_reader(&mut Cursor::new(b)));
    let (sa, sb) = (load(&ba), load(&bb));
    let want_u = m_union(a, b);
    let want_d = m_diff(a, b);
    // byte-level operations
    let mut out_u = Vec::new();
    let info_u = must(&ctx("shard_set_union"), || shard_set_union(&sa, &mut Cursor::new(&ba), &sb, &mut Cursor::new(&bb), &mut out_u));
    if let Err(s) = check_shard_bytes(&out_u, &want_u, PLAIN, neg) {
        witness(format!("{}: {s}", ctx("shard_set_union")));
    }
    if info_u != load(&out_u) {
        witness(format!("{}: the returned MDBShardInfo differs from the header/footer actually written", ctx("shard_set_union")));
    }
    let mut out_d = Vec::new();
    let info_d = must(&ctx("shard_set_difference"), || shard_set_difference(&sa, &mut Cursor::new(&ba), &sb, &mut Cursor::new(&bb), &mut out_d));
    if let Err(s) = check_shard_bytes(&out_d, &want_d, PLAIN, neg) {
        witness(format!("{} (expected: records of the second not in the first): {s}", ctx("shard_set_difference")));
    }
    if info_d != load(&out_d) {
        witness(format!("{}: the returned MDBShardInfo differs from the header/footer actually written", ctx("shard_set_difference")));
    }
    // in-memory operations (serialized for inspection)
    let (ma, mb) = (to_mem(a), to_mem(b));
    let mu = must(&ctx("MDBInMemoryShard::union"), || ma.union(&mb));
    let mut o = Vec::new();
    must("MDBShardInfo::serialize_from", || MDBShardInfo::serialize_from(&mut o, &mu));
    if let Err(s) = check_shard_bytes(&o, &want_u, PLAIN, neg) {
        witness(format!("{}: {s}", ctx("MDBInMemoryShard::union")));
    }
    let mdf = must(&ctx("MDBInMemoryShard::difference"), || ma.difference(&mb));
    let mut o = Vec::new();
    must("MDBShardInfo::serialize_from", || MDBShardInfo::serialize_from(&mut o, &mdf));
    if let Err(s) = check_shard_bytes(&o, &want_d, PLAIN, neg) {
        witness(format!("{}: {s}", ctx("MDBInMemoryShard::difference")));
    }
    // file-level operations
    if with_files {
        let dir = infra("tempdir", tempfile::tempdir());
        let (p1, p2) = (dir.path().join("in1.mdb"), dir.path().join("in2.mdb"));
        infra("write", std::fs::write(&p1, &ba));
        infra("write", std::fs::write(&p2, &bb));
        for (op, want) in [("shard_file_union", &want_u), ("shard_file_difference", &want_d)] {
            let outp = dir.path().join(format!("{op}.out"));
            let (h, info) = must(&ctx(op), || if op == "shard_file_union" { shard_file_union(&p1, &p2, &outp) } else { shard_file_difference(&p1, &p2, &outp) });
            let Ok(bytes) = std::fs::read(&outp) else { witness(format!("{}: the output file does not exist", ctx(op))) };
            if let Err(s) = check_shard_bytes(&bytes, want, PLAIN, neg) {
                witness(format!("{}: {s}", ctx(op)));
            }
            if h != compute_data_hash(&bytes) || info != load(&bytes) {
                witness(format!("{}: returned hash / info do not describe the bytes written", ctx(op)));
            }
            let left: Vec<_> = infra("read_dir", std::fs::read_dir(dir.path())).map(|e| e.unwrap().file_name().to_string_lossy().to_string()).filter(|n| n.ends_with("mdb_temp")).collect();
            if !left.is_empty() {
                witness(format!("{}: temporary file {left:?} left behind", ctx(op)));
            }
        }
    }
}

fn section_a(seed: u64) {
    let mut rng = Rng(seed.wrapping_mul(0xA5A5_1234_5678_9ABD) ^ 0xA);
    let pool = gen_pool(&mut rng, 14, 12, false);
    let neg = negatives_for(&pool);
    let empty = Model::default();
    let full = Model { files: pool.files.iter().cloned().collect(), xorbs: pool.xorbs.iter().cloned().collect() };
    // hand-picked: empty, identical, identical content with every pair of flag variants, disjoint halves, subset
    check_set_ops("empty/empty", &empty, &empty, &neg, true);
    check_set_ops("empty/full", &empty, &full, &neg, true);
    check_set_ops("full/empty", &full, &empty, &neg, true);
    check_set_ops("identical", &full, &full, &neg, true);
    for v1 in 0..4 {
        for v2 in 0..4 {
            let mk = |v: usize, skip: usize| Model {
                files: pool.files.iter().enumerate().filter(|(i, _)| i % 5 != skip).map(|(_, (h, f))| (*h, variant(f, v))).collect(),
                xorbs: pool.xorbs.iter().enumerate().filter(|(i, _)| i % 4 != skip).map(|(_, x)| x.clone()).collect(),
            };
            check_set_ops(&format!("same files, flag variant {v1} vs {v2} (bit0 = verification, bit1 = metadata_ext)"), &mk(v1, 1), &mk(v2, 2), &neg, v1 == 3 - v2);
        }
    }
    let half = |lo: bool| Model {
        files: pool.files.iter().enumerate().filter(|(i, _)| (*i < 7) == lo).map(|(_, f)| f.clone()).collect(),
        xorbs: pool.xorbs.iter().enumerate().filter(|(i, _)| (*i < 6) == lo).map(|(_, x)| x.clone()).collect(),
    };
    check_set_ops("disjoint halves", &half(true), &half(false), &neg, true);
    check_set_ops("disjoint halves reversed", &half(false), &half(true), &neg, false);
    check_set_ops("subset", &half(true), &full, &neg, false);
    check_set_ops("superset", &full, &half(false), &neg, false);
    // random overlapping pairs with mixed flag variants per file
    for i in 0..40 {
        let (fa, xa, fb, xb) = (1 + rng.below(8), 1 + rng.below(8), 1 + rng.below(8), 1 + rng.below(8));
        let a = gen_shard(&mut rng, &pool, fa, xa);
        let b = gen_shard(&mut rng, &pool, fb, xb);
        check_set_ops(&format!("random pair #{i}"), &a, &b, &neg, i % 8 == 0);
    }
    // sequences: fold a union over several shards, feeding outputs back in
    for i in 0..6 {
        let shards: Vec<Model> = (0..4).map(|_| gen_shard(&mut rng, &pool, 3, 3)).collect();
        *DETAILS.lock().unwrap() = format!(" | chain of shards: {}", shards.iter().map(|s| s.describe()).collect::<Vec<_>>().join(" ; "));
        let mut acc_m = shards[0].clone();
        let mut acc_b = to_bytes(&acc_m);
        for s in &shards[1..] {
            let sb = to_bytes(s);
            let (i1, i2) = (
                must("load_from_reader", || MDBShardInfo::load_from_reader(&mut Cursor::new(&acc_b))),
                must("load_from_reader", || MDBShardInfo::load_from_reader(&mut Cursor::new(&sb))),
            );
            let mut out = Vec::new();
            must("shard_set_union (chained)", || shard_set_union(&i1, &mut Cursor::new(&acc_b), &i2, &mut Cursor::new(&sb), &mut out));
            acc_m = m_union(&acc_m, s);
            if let Err(e) = check_shard_bytes(&out, &acc_m, PLAIN, &neg) {
                witness(format!("[A chain #{i}] union of a previous union output with {}: {e}", s.describe()));
            }
            acc_b = out;
        }
    }
    DETAILS.lock().unwrap().clear();
}

// ---------------------------------------------------------------------------------------------------------------------
// B. consolidation
// ---------------------------------------------------------------------------------------------------------------------
/// a shard written once into a staging directory (the library caches path -> mtime, so test directories get fresh copies)
struct Staged {
    model: Model,
    path: PathBuf,
    size: u64,
    /// false when the library's own (debug-build, order-sensitive) self-check rejects this shard only because two chunks share
    /// a truncated hash and the unstable sort ordered the tie differently; directories with such a shard are not consolidated
    /// in debug builds, where every load re-runs that self-check and would panic
    self_check_ok: bool,
}
fn has_ties(m: &Model) -> bool {
    let p: Vec<u64> = m.xorbs.values().flat_map(|x| x.chunks.iter().map(|c| c.0[0])).collect();
    p.iter().collect::<BTreeSet<_>>().len() != p.len()
}
fn stage(dir: &Path, m: &Model) -> Staged {
    let mut self_check_ok = true;
    let path = if has_ties(m) {
        let bytes = to_bytes(m);
        let p = dir.join(shard_file_name(&compute_data_hash(&bytes)));
        infra("write", std::fs::write(&p, &bytes));
        if cfg!(debug_assertions) {
            self_check_ok = catch_unwind(AssertUnwindSafe(|| MDBShardFile::load_from_file(&p).map(|s| s.verify_shard_integrity()).is_ok())).unwrap_or(false);
        }
        p
    } else {
        let mem = to_mem(m);
        must("MDBInMemoryShard::write_to_directory", || mem.write_to_directory(dir))
    };
    let size = infra("metadata", std::fs::metadata(&path)).len();
    Staged { model: m.clone(), path, size, self_check_ok }
}
fn mdb_files(dir: &Path) -> BTreeSet<String> {
    infra("read_dir", std::fs::read_dir(dir)).map(|e| e.unwrap().file_name().to_string_lossy().to_string()).filter(|n| n.ends_with(".mdb")).collect()
}
const T0: u64 = 1_700_000_000;
/// copies the staged shards into a fresh directory; `order[i]` is the mtime rank of shard i (equal ranks = equal mtimes)
fn populate(shards: &[&Staged], order: &[usize]) -> tempfile::TempDir {
    let dir = infra("tempdir", tempfile::tempdir());
    for (s, rank) in shards.iter().zip(order) {
        let dst = dir.path().join(s.path.file_name().unwrap());
        infra("copy", std::fs::copy(&s.path, &dst));
        let f = infra("open", std::fs::OpenOptions::new().write(true).open(&dst));
        infra("set_modified", f.set_modified(SystemTime::UNIX_EPOCH + Duration::from_secs(T0 + 100 * *rank as u64)));
    }
    dir
}
/// runs the real consolidation and checks the C10 consolidation clause; returns the returned shard names for further checks
fn run_consolidation(ctx: &str, shards: &[&Staged], order: &[usize], t: u64, neg: &[H]) -> Vec<String> {
    if shards.iter().any(|s| !s.self_check_ok) {
        return Vec::new();
    }
    let dir = populate(shards, order);
    let before = mdb_files(dir.path());
    let ctx = format!(
        "[B {ctx}] consolidate_shards_in_directory(dir, target_max_size={t}) on shards {} (name:size:mtime-rank)",
        shards.iter().zip(order).map(|(s, r)| format!("{}:{}:{}", &s.path.file_name().unwrap().to_string_lossy()[..8], s.size, r)).collect::<Vec<_>>().join(", ")
    );
    let ret: Vec<Arc<MDBShardFile>> = must(&ctx, || consolidate_shards_in_directory(dir.path(), t));
    let want = shards.iter().fold(Model::default(), |acc, s| m_union(&acc, &s.model));
    let mut observed = Model::default();
    let mut names = Vec::new();
    for sf in &ret {
        let name = sf.path.file_name().map(|n| n.to_string_lossy().to_string()).unwrap_or_default();
        if !sf.path.exists() {
            witness(format!("{ctx}: returned shard {name} does not exist on disk (returned {} shards; directory now holds {:?})", ret.len(), mdb_files(dir.path()).iter().map(|n| n[..8].to_string()).collect::<Vec<_>>()));
        }
        if sf.path.parent().map(|p| p != std::path::absolute(dir.path()).unwrap()).unwrap_or(true) {
            witness(format!("{ctx}: returned shard {:?} is not in the session directory", sf.path));
        }
        let bytes = infra("read", std::fs::read(&sf.path));
        let h = compute_data_hash(&bytes);
        if parse_shard_filename(&sf.path) != Some(h) || sf.shard_hash != h || name != shard_file_name(&h) {
            witness(format!("{ctx}: returned shard file {name} / shard_hash {} does not match its content hash {}", sf.shard_hash.hex(), h.hex()));
        }
        // what this returned shard holds, read record by record
        let inf = must(&ctx, || MDBShardInfo::load_from_reader(&mut Cursor::new(&bytes)));
        if inf != sf.shard {
            witness(format!("{ctx}: returned MDBShardFile {name} carries header/footer different from the file content"));
        }
        let mut m = Model::default();
        for fi in must(&ctx, || inf.read_all_file_info_sections(&mut Cursor::new(&bytes))) {
            match file_rec_of(&fi) {
                Ok((h, f)) => { m.files.insert(h, f); },
                Err(e) => witness(format!("{ctx}: returned shard {name}: {e}")),
            }
        }
        for ci in must(&ctx, || inf.read_all_cas_blocks_full(&mut Cursor::new(&bytes))) {
            match xorb_rec_of(&ci, &ZERO, &BTreeMap::new()) {
                Ok((h, x)) => { m.xorbs.insert(h, x); },
                Err(e) => witness(format!("{ctx}: returned shard {name}: {e}")),
            }
        }
        // ... and it is a well-formed shard for exactly these records (lookup tables, totals, queries)
        if let Err(e) = check_shard_bytes(&bytes, &m, PLAIN, neg) {
            witness(format!("{ctx}: returned shard {name} is not a consistent shard: {e}"));
        }
        // the library's own self-check compares the chunk lookup table order-sensitively, so it is only meaningful when no two
        // chunks share a truncated hash (ties are ordered by an unstable sort)
        let prefixes: Vec<u64> = m.xorbs.values().flat_map(|x| x.chunks.iter().map(|c| c.0[0])).collect();
        let no_ties = prefixes.iter().collect::<BTreeSet<_>>().len() == prefixes.len();
        if no_ties && catch_unwind(AssertUnwindSafe(|| sf.verify_shard_integrity())).is_err() {
            witness(format!("{ctx}: verify_shard_integrity panics on returned shard {name}"));
        }
        observed = m_union(&observed, &m);
        names.push(name);
    }
    if observed != want {
        for (h, f) in &want.files {
            match observed.files.get(h) {
                None => witness(format!("{ctx}: file record {} is no longer retrievable from the returned shards", hx(h))),
                Some(o) if o != f => witness(format!("{ctx}: file record {} lost information (verification {}->{}, metadata_ext {}->{})", hx(h), f.verif.is_some(), o.verif.is_some(), f.sha.is_some(), o.sha.is_some())),
                _ => {},
            }
        }
        for h in want.xorbs.keys() {
            if observed.xorbs.get(h) != want.xorbs.get(h) {
                witness(format!("{ctx}: xorb record {} is no longer retrievable (or changed) in the returned shards", hx(h)));
            }
        }
        witness(format!("{ctx}: the returned shards hold records that no input shard had: {} vs expected {}", observed.describe(), want.describe()));
    }
    // deleted inputs must be redundant; nothing else may have been touched
    let after = mdb_files(dir.path());
    for s in shards {
        let name = s.path.file_name().unwrap().to_string_lossy().to_string();
        if !after.contains(&name) && !m_covered(&s.model, &observed) {
            witness(format!("{ctx}: input shard {name} was deleted although its records are not all present in a returned shard"));
        }
    }
    for n in &after {
        if !before.contains(n) && !names.contains(n) {
            witness(format!("{ctx}: new shard file {n} was created but not returned"));
        }
    }
    // every record is also reachable through the per-shard query API of the returned handles
    for (h, f) in &want.files {
        let mut acc: Option<FileRec> = None;
        for sf in &ret {
            if let Some(fi) = must(&ctx, || sf.get_file_reconstruction_info(&mh(h))) {
                match file_rec_of(&fi) {
                    Ok((_, g)) => acc = Some(match acc { Some(a) => richer(&a, &g), None => g }),
                    Err(e) => witness(format!("{ctx}: {e}")),
                }
            }
        }
        if acc.as_ref() != Some(f) {
            witness(format!("{ctx}: get_file_reconstruction_info({}) over the returned shards gives {:?}, expected the full record", hx(h), acc.map(|a| (a.segs.len(), a.verif.is_some(), a.sha.is_some()))));
        }
    }
    for x in want.xorbs.values() {
        for (j, c) in x.chunks.iter().enumerate().step_by(3) {
            let q: Vec<H> = x.chunks[j..(j + 2).min(x.chunks.len())].iter().map(|c| c.0).collect();
            let qm: Vec<MerkleHash> = q.iter().map(mh).collect();
            let mut hit = false;
            for sf in &ret {
                let ans = must(&ctx, || sf.chunk_hash_dedup_query(&qm));
                if ans.is_some() {
                    hit = true;
                    if let Err(e) = validate_answer(&want, &q, &ans) {
                        witness(format!("{ctx}: dedup query on a returned shard: {e}"));
                    }
                }
            }
            if !hit {
                witness(format!("{ctx}: chunk {} is in no returned shard's dedup index", hx(&c.0)));
            }
        }
    }
    names
}

fn perms4() -> Vec<[usize; 4]> {
    let mut v = Vec::new();
    for a in 0..4 {
        for b in 0..4 {
            for c in 0..4 {
                for d in 0..4 {
                    if [a, b, c, d].iter().collect::<BTreeSet<_>>().len() == 4 {
                        v.push([a, b, c, d]);
                    }
                }
            }
        }
    }
    v
}

fn section_b(seed: u64) {
    let mut rng = Rng(seed.wrapping_mul(0x1234_5678_9ABC_DEF1) ^ 0xB);
    let staging = infra("tempdir", tempfile::tempdir());
    // ---- (1) ordinary directories
    for round in 0..4 {
        // pools with duplicate / prefix-colliding chunk hashes are kept at <= 20 chunks: debug builds of the library re-verify
        // every loaded shard with an order-sensitive comparison that trips over ties once the unstable sort reorders them
        let pool = if round % 2 == 0 { gen_pool(&mut rng, 12, 10, true) } else { gen_pool(&mut rng, 12, 3, false) };
        let neg = negatives_for(&pool);
        let k = 3 + rng.below(5);
        let mut models: Vec<Model> = (0..k).map(|_| { let (f, x) = (rng.below(5), rng.below(5)); gen_shard(&mut rng, &pool, f, x) }).collect();
        if round == 1 {
            models.push(Model::default()); // an empty shard
            let sub = Model { files: models[0].files.iter().take(1).map(|(h, f)| (*h, f.clone())).collect(), xorbs: models[0].xorbs.iter().take(1).map(|(h, x)| (*h, x.clone())).collect() };
            models.insert(1, sub); // a shard whose records are all in its neighbour
        }
        let mut staged: Vec<Staged> = Vec::new();
        for m in &models {
            let s = stage(staging.path(), m);
            if !staged.iter().any(|o| o.path == s.path) {
                staged.push(s);
            }
        }
        let refs: Vec<&Staged> = staged.iter().collect();
        let mut sizes: Vec<u64> = staged.iter().map(|s| s.size).collect();
        sizes.sort();
        let total: u64 = sizes.iter().sum();
        let mut ts = vec![0, 1, sizes[0], sizes[0] + sizes[1], sizes[0] + sizes[1] + 1, total / 2, total, total + 1, 4 * total];
        ts.dedup();
        for (i, t) in ts.iter().enumerate() {
            // mtime order: as generated, reversed, rotated, all equal
            let n = refs.len();
            let order: Vec<usize> = match (i + round) % 4 {
                0 => (0..n).collect(),
                1 => (0..n).rev().collect(),
                2 => (0..n).map(|j| (j + 2) % n).collect(),
                _ => vec![0; n],
            };
            run_consolidation(&format!("random directory #{round}"), &refs, &order, *t, &neg);
        }
    }
    // ---- (2) the interrupted re-run: A, B, M = A u B (written by an earlier, interrupted consolidation), later shard D
    for round in 0..3 {
        let pool = gen_pool(&mut rng, 12, 10, true);
        let neg = negatives_for(&pool);
        let a = stage(staging.path(), &gen_shard(&mut rng, &pool, 4, 4));
        let mut bm = gen_shard(&mut rng, &pool, 3, 3);
        if round == 2 {
            bm = m_diff(&a.model, &bm); // disjoint from A
        }
        let b = stage(staging.path(), &bm);
        if a.path == b.path || a.model.files.is_empty() {
            continue;
        }
        // M is produced by the real code: consolidate a copy of {A, B} with a threshold that merges them
        let m_name = {
            let names = run_consolidation("producing M = A u B", &[&a, &b], &[0, 1], a.size + b.size + 1, &neg);
            if names.len() != 1 {
                witness(format!("[B interrupted] consolidating two shards of {} + {} bytes under threshold {} returned {} shards", a.size, b.size, a.size + b.size + 1, names.len()));
            }
            names[0].clone()
        };
        // reproduce M's bytes in the staging directory through the same union, to have a file to copy from
        let m_model = m_union(&a.model, &b.model);
        let m_path = {
            let (ba, bb) = (infra("read", std::fs::read(&a.path)), infra("read", std::fs::read(&b.path)));
            let (ia, ib) = (must("load", || MDBShardInfo::load_from_reader(&mut Cursor::new(&ba))), must("load", || MDBShardInfo::load_from_reader(&mut Cursor::new(&bb))));
            let mut out = Vec::new();
            must("shard_set_union", || shard_set_union(&ia, &mut Cursor::new(&ba), &ib, &mut Cursor::new(&bb), &mut out));
            let p = staging.path().join(shard_file_name(&compute_data_hash(&out)));
            infra("write", std::fs::write(&p, &out));
            p
        };
        if m_path.file_name().unwrap().to_string_lossy() != m_name {
            witness(format!("[B interrupted] the union of the same two shards produced two different shard files ({m_name} vs {:?}): union output is not deterministic", m_path.file_name().unwrap()));
        }
        let m = Staged { model: m_model, size: infra("metadata", std::fs::metadata(&m_path)).len(), path: m_path, self_check_ok: true };
        let d_models = [Model::default(), gen_shard(&mut rng, &pool, 1, 1), gen_shard(&mut rng, &pool, 2, 2), m_diff(&m.model, &gen_shard(&mut rng, &pool, 3, 3))];
        for dm in d_models.iter() {
            let d = stage(staging.path(), dm);
            if [&a.path, &b.path, &m.path].contains(&&d.path) {
                continue;
            }
            let (lo, hi) = (a.size + b.size + 1, a.size + b.size + m.size);
            let mut ts: Vec<u64> = vec![lo, (lo + hi) / 2, hi, m.size + d.size + 1, hi + d.size + 1];
            ts.sort();
            ts.dedup();
            let shards = [&a, &b, &m, &d];
            // all 24 mtime orders of the four shards (A,B < M < D is the interrupted-run order)
            for order in perms4() {
                for t in &ts {
                    run_consolidation(&format!("interrupted re-run #{round}: A, B, M = A u B, D"), &shards, &order, *t, &neg);
                }
            }
        }
    }
}

// ---------------------------------------------------------------------------------------------------------------------
// C. keyed re-export, queried through the shard manager
// ---------------------------------------------------------------------------------------------------------------------
struct Mgr {
    rt: tokio::runtime::Runtime,
}
impl Mgr {
    fn open(&self, what: &str, dir: &Path) -> Arc<ShardFileManager> {
        must(&format!("{what}: ShardFileManager::new_in_session_directory"), || self.rt.block_on(ShardFileManager::new_in_session_directory(dir)))
    }
    fn query(&self, what: &str, m: &ShardFileManager, q: &[H]) -> Answer {
        let qm: Vec<MerkleHash> = q.iter().map(mh).collect();
        must(&format!("{what}: ShardFileManager::chunk_hash_dedup_query({} hashes starting {})", q.len(), hx(&q[0])), || self.rt.block_on(m.chunk_hash_dedup_query(&qm)))
    }
    fn file(&self, what: &str, m: &ShardFileManager, h: &H) -> Option<FileRec> {
        let r = must(&format!("{what}: ShardFileManager::get_file_reconstruction_info"), || self.rt.block_on(m.get_file_reconstruction_info(&mh(h))));
        r.map(|(fi, _)| match file_rec_of(&fi) {
            Ok((g, f)) if g == *h => f,
            _ => witness(format!("{what}: get_file_reconstruction_info({}) returned a malformed / different file record", hx(h))),
        })
    }
}
fn flags_of(i: usize) -> (bool, bool, bool) {
    (i & 1 != 0, i & 2 != 0, i & 4 != 0)
}
fn flag_str(i: usize) -> String {
    let (f, c, k) = flags_of(i);
    format!("include_file_info={f}, include_cas_lookup_table={c}, include_chunk_lookup_table={k}")
}
/// real export of a staged shard; returns the path of the export inside `out_dir`
fn export(src: &Path, out_dir: &Path, key: &H, flags: usize) -> PathBuf {
    let (f, c, k) = flags_of(flags);
    let what = format!("[C] export_as_keyed_shard(key {}, {})", hx(key), flag_str(flags));
    let sf = must(&what, || MDBShardFile::load_from_file(src));
    let out = must(&what, || sf.export_as_keyed_shard(out_dir, mh(key), Duration::from_secs(3600), f, c, k));
    if !out.path.exists() || out.path.parent() != Some(std::path::absolute(out_dir).unwrap().as_path()) {
        witness(format!("{what}: returned shard {:?} does not exist in the target directory", out.path));
    }
    out.path.clone()
}
fn fresh_dir_with<P: AsRef<Path>>(files: &[P]) -> tempfile::TempDir {
    let dir = infra("tempdir", tempfile::tempdir());
    for (i, p) in files.iter().enumerate() {
        let p = p.as_ref();
        let dst = dir.path().join(p.file_name().unwrap());
        infra("copy", std::fs::copy(p, &dst));
        let f = infra("open", std::fs::OpenOptions::new().write(true).open(&dst));
        infra("set_modified", f.set_modified(SystemTime::UNIX_EPOCH + Duration::from_secs(T0 + 100 * i as u64)));
    }
    dir
}
/// all dedup queries + file lookups through a manager, against the model and (optionally) against another manager's answers
#[allow(clippy::too_many_arguments)]
fn check_manager(mg: &Mgr, what: &str, m: &ShardFileManager, model: &Model, files_expected: &BTreeMap<H, FileRec>, files_forbidden: &[H], reference: Option<&ShardFileManager>, neg: &[H]) {
    let junk = [0x5555_5555_5555_5555u64, 9, 9, 9];
    let mut qs = queries_for(model, &junk);
    for h in neg {
        qs.push(vec![*h]);
        qs.push(vec![*h, junk]);
    }
    for q in &qs {
        let ans = mg.query(what, m, q);
        if let Err(e) = validate_answer(model, q, &ans) {
            witness(format!("{what}: query of {} unkeyed hashes starting with {}: {e}", q.len(), hx(&q[0])));
        }
        if let Some(r) = reference {
            let orig = mg.query(&format!("{what} (manager over the original shards)"), r, q);
            if orig != ans {
                witness(format!("{what}: query of {} unkeyed hashes starting with {}: keyed directory answers {:?}, the original answers {:?}", q.len(), hx(&q[0]), ans.map(|a| (a.0, hx(&hh(&a.1.cas_hash)), a.1.chunk_index_start)), orig.map(|a| (a.0, hx(&hh(&a.1.cas_hash)), a.1.chunk_index_start))));
            }
        }
    }
    for (h, f) in files_expected {
        let got = mg.file(what, m, h);
        if got.as_ref() != Some(f) {
            witness(format!("{what}: file record {} was to be kept but the manager returns {:?}", hx(h), got.map(|g| (g.segs.len(), g.verif.is_some(), g.sha.is_some()))));
        }
    }
    for h in files_forbidden {
        if !files_expected.contains_key(h) && mg.file(what, m, h).is_some() {
            witness(format!("{what}: file record {} is retrievable although it was to be dropped / is not stored", hx(h)));
        }
    }
}

fn section_c(seed: u64) {
    let mut rng = Rng(seed.wrapping_mul(0x0F0F_1357_9BDF_2469) ^ 0xC);
    let mg = Mgr { rt: infra("tokio runtime", tokio::runtime::Builder::new_current_thread().build()) };
    let staging = infra("tempdir", tempfile::tempdir());
    let exports = infra("tempdir", tempfile::tempdir());
    let pool = gen_pool(&mut rng, 9, 8, true);
    let neg = negatives_for(&pool);
    let keys: [H; 3] = [ZERO, rng.hash(), rng.hash()];
    // S: the shard to export (unique chunk hashes, files in all four flag variants); S2, S3: further disjoint shards
    let s_model = Model {
        files: pool.files.iter().take(6).enumerate().map(|(i, (h, f))| (*h, variant(f, i % 4))).collect(),
        xorbs: pool.xorbs.iter().take(5).cloned().collect(),
    };
    let s2_model = Model { files: pool.files.iter().skip(6).map(|(h, f)| (*h, f.clone())).collect(), xorbs: pool.xorbs.iter().skip(5).take(2).cloned().collect() };
    let s3_model = Model { files: BTreeMap::new(), xorbs: pool.xorbs.iter().skip(7).cloned().collect() };
    let (s, s2, s3) = (stage(staging.path(), &s_model), stage(staging.path(), &s2_model), stage(staging.path(), &s3_model));
    let all_files: Vec<H> = pool.files.iter().map(|f| f.0).collect();
    *DETAILS.lock().unwrap() = format!(" | S = {}", s_model.describe());

    // ---- every key x every flag combination: the exported shard itself, then alone in a manager vs the original alone
    let orig_dir = fresh_dir_with(&[&s.path]);
    let orig_mgr = mg.open("[C] original shard", orig_dir.path());
    check_manager(&mg, "[C] manager over the original shard", &orig_mgr, &s_model, &s_model.files, &neg, None, &neg);
    let mut exp: BTreeMap<(usize, usize), PathBuf> = BTreeMap::new();
    for (ki, key) in keys.iter().enumerate() {
        for fl in 0..8 {
            let p = export(&s.path, exports.path(), key, fl);
            let what = format!("[C] shard S re-exported with key {} ({}), {}", hx(key), if ki == 0 { "zero key = unkeyed" } else { "keyed" }, flag_str(fl));
            let (f, c, k) = flags_of(fl);
            let bytes = infra("read", std::fs::read(&p));
            if parse_shard_filename(&p) != Some(compute_data_hash(&bytes)) {
                witness(format!("{what}: exported file name does not equal its content hash"));
            }
            if let Err(e) = check_shard_bytes(&bytes, &s_model, Expect { key: *key, files: f, cas_lookup: c, chunk_lookup: k }, &neg) {
                witness(format!("{what}: {e}"));
            }
            let dir = fresh_dir_with(&[&p]);
            let m = mg.open(&what, dir.path());
            let kept: BTreeMap<H, FileRec> = if f { s_model.files.clone() } else { BTreeMap::new() };
            let dropped: Vec<H> = if f { neg.clone() } else { all_files.clone() };
            check_manager(&mg, &format!("{what}, alone in a manager directory"), &m, &s_model, &kept, &dropped, Some(&orig_mgr), &neg);
            exp.insert((ki, fl), p);
        }
    }
    // ---- a directory mixing shards under several keys (S under K1, S2 under K2, S3 unkeyed / under K1) vs the originals
    let all_model = m_union(&m_union(&s_model, &s2_model), &s3_model);
    let orig3_dir = fresh_dir_with(&[&s.path, &s2.path, &s3.path]);
    let orig3 = mg.open("[C] originals", orig3_dir.path());
    for round in 0..8usize {
        let (f1, f2, f3) = (round, (round * 3 + 1) % 8, (round * 5 + 2) % 8);
        let k3 = if round % 2 == 0 { 0 } else { 1 };
        let p2 = export(&s2.path, exports.path(), &keys[2], f2);
        let p3 = export(&s3.path, exports.path(), &keys[k3], f3);
        let files: Vec<&PathBuf> = match round % 3 {
            0 => vec![&exp[&(1, f1)], &p2, &p3],
            1 => vec![&p3, &exp[&(1, f1)], &p2],
            _ => vec![&p2, &p3, &exp[&(1, f1)]],
        };
        let dir = fresh_dir_with(&files);
        let what = format!("[C] mixed directory: S under K1 ({}), S2 under K2 ({}), S3 under {} ({})", flag_str(f1), flag_str(f2), if k3 == 0 { "the zero key" } else { "K1" }, flag_str(f3));
        let m = mg.open(&what, dir.path());
        let mut kept = BTreeMap::new();
        let mut dropped = neg.clone();
        for (model, fl) in [(&s_model, f1), (&s2_model, f2)] {
            for (h, f) in &model.files {
                if flags_of(fl).0 { kept.insert(*h, f.clone()); } else { dropped.push(*h); }
            }
        }
        check_manager(&mg, &what, &m, &all_model, &kept, &dropped, Some(&orig3), &neg);
    }
    // ---- (a) the same chunks under two keys; the shard file of one key collection is deleted after registration
    let skip = std::env::var("C10_SKIP").unwrap_or_default();
    for (ka, kb) in [(0usize, 2usize), (1, 2), (2, 1), (1, 0)] {
        if skip.contains("Ca") {
            break;
        }
        for fl in 0..8usize {
            for a_first in [true, false] {
                let (fa, fb) = (fl, (fl * 3 + 5) % 8);
                let (pa, pb) = (&exp[&(ka, fa)], &exp[&(kb, fb)]);
                let dir = if a_first { fresh_dir_with(&[pa, pb]) } else { fresh_dir_with(&[pb, pa]) };
                let what = format!(
                    "[C a] directory with shard S under key #{ka} ({}) and under key #{kb} ({}) (key #0 = unkeyed; mtime order {}); manager created, then the key #{ka} shard FILE deleted from disk",
                    flag_str(fa), flag_str(fb), if a_first { "first older" } else { "first newer" }
                );
                let m = mg.open(&what, dir.path());
                infra("remove", std::fs::remove_file(dir.path().join(pa.file_name().unwrap())));
                let kept: BTreeMap<H, FileRec> = if flags_of(fb).0 { s_model.files.clone() } else { BTreeMap::new() };
                check_manager(&mg, &what, &m, &s_model, &kept, &neg, Some(&orig_mgr), &neg);
            }
        }
    }
    // ---- (b) truncated-prefix collision: the unkeyed collection holds chunk Z with Z[0] == X[0] for a chunk X of keyed S
    if !skip.contains("Cb") {
        let mut u_model = Model::default();
        let mut zs = Vec::new();
        for (i, x) in s_model.xorbs.values().enumerate() {
            // collide with the first, a middle and the last chunk of every xorb of S
            let mut chunks = Vec::new();
            for j in [0, x.chunks.len() / 2, x.chunks.len() - 1] {
                let z = rng.hash_with_prefix(x.chunks[j].0[0]);
                if !chunks.iter().any(|c: &(H, u32)| c.0[0] == z[0]) {
                    chunks.push((z, 100 + i as u32));
                    zs.push(z);
                }
            }
            chunks.push((rng.hash(), 7));
            u_model.xorbs.insert(rng.hash(), XorbRec { chunks, on_disk: 5 });
        }
        let u = stage(staging.path(), &u_model);
        let both = m_union(&s_model, &u_model);
        for fl in 0..8usize {
            for u_exported in [false, true] {
                let pu = if u_exported { export(&u.path, exports.path(), &ZERO, (fl + 3) % 8) } else { u.path.clone() };
                for ki in [1usize, 2] {
                    let dir = fresh_dir_with(&[&pu, &exp[&(ki, fl)]]);
                    let what = format!(
                        "[C b] directory with an unkeyed shard U{} holding chunks whose hashes share the first u64 with chunks of S (e.g. {} vs {}), and S under key #{ki} ({})",
                        if u_exported { " (zero-key export)" } else { "" }, hx(&zs[0]), hx(&s_model.xorbs.values().next().unwrap().chunks[0].0), flag_str(fl)
                    );
                    let m = mg.open(&what, dir.path());
                    let kept: BTreeMap<H, FileRec> = if flags_of(fl).0 { s_model.files.clone() } else { BTreeMap::new() };
                    check_manager(&mg, &what, &m, &both, &kept, &neg, None, &neg);
                    // and the answers for S's chunks equal the original's
                    for q in queries_for(&s_model, &[1, 2, 3, 4]) {
                        let (a, o) = (mg.query(&what, &m, &q), mg.query("[C b] original", &orig_mgr, &q));
                        if a != o {
                            witness(format!("{what}: query of {} unkeyed hashes starting with {}: answered {:?}, the manager over the original S answers {:?}", q.len(), hx(&q[0]), a.map(|a| (a.0, hx(&hh(&a.1.cas_hash)), a.1.chunk_index_start)), o.map(|a| (a.0, hx(&hh(&a.1.cas_hash)), a.1.chunk_index_start))));
                        }
                    }
                }
            }
        }
    }
    // ---- a shard with duplicate chunk hashes and prefix collisions inside: truthfulness only (location may legitimately differ)
    {
        let pool2 = gen_pool(&mut rng, 3, 6, false);
        let dm = Model { files: BTreeMap::new(), xorbs: pool2.xorbs.iter().cloned().collect() };
        let d = stage(staging.path(), &dm);
        for fl in [0usize, 3, 4, 7] {
            let p = export(&d.path, exports.path(), &keys[1], fl);
            let bytes = infra("read", std::fs::read(&p));
            let (f, c, k) = flags_of(fl);
            if let Err(e) = check_shard_bytes(&bytes, &dm, Expect { key: keys[1], files: f, cas_lookup: c, chunk_lookup: k }, &neg) {
                witness(format!("[C] shard with duplicate/colliding chunks {} re-exported under a key, {}: {e}", dm.describe(), flag_str(fl)));
            }
            let dir = fresh_dir_with(&[&p]);
            let what = format!("[C] shard with duplicate chunks {} under a key, {}", dm.describe(), flag_str(fl));
            let m = mg.open(&what, dir.path());
            check_manager(&mg, &what, &m, &dm, &BTreeMap::new(), &neg, None, &neg);
        }
    }
}

// ---------------------------------------------------------------------------------------------------------------------
// D. expiry (C18 last sentence): no sleeping - the footer's expiry field is rewritten and the file renamed to its new hash
// ---------------------------------------------------------------------------------------------------------------------
fn section_d(seed: u64) {
    let mut rng = Rng(seed ^ 0xD);
    let pool = gen_pool(&mut rng, 4, 3, true);
    let model = Model { files: pool.files.iter().cloned().collect(), xorbs: pool.xorbs.iter().cloned().collect() };
    let bytes = to_bytes(&model);
    let now = SystemTime::now().duration_since(SystemTime::UNIX_EPOCH).unwrap().as_secs();
    // (expiry relative to now, grace period, expected loaded, expected deleted by clean_expired_shards(grace))
    let cases: [(i64, u64, bool, bool); 6] = [(100_000, 0, true, false), (-1000, 5000, false, false), (-1000, 500, false, true), (-1000, 0, false, true), (-100_000, 200_000, false, false), (100_000, 1_000, true, false)];
    for (rel, grace, want_loaded, want_deleted) in cases {
        let dir = infra("tempdir", tempfile::tempdir());
        let mut info = must("load", || MDBShardInfo::load_from_reader(&mut Cursor::new(&bytes)));
        info.metadata.shard_key_expiry = (now as i64 + rel) as u64;
        let mut b = bytes[..info.metadata.footer_offset as usize].to_vec();
        must("MDBShardFileFooter::serialize", || info.metadata.serialize(&mut b));
        let path = dir.path().join(shard_file_name(&compute_data_hash(&b)));
        infra("write", std::fs::write(&path, &b));
        let what = format!("[D] shard whose expiry is now{rel:+} s");
        let loaded = must(&format!("{what}: MDBShardFile::load_all_valid"), || MDBShardFile::load_all_valid(dir.path()));
        if (loaded.len() == 1) != want_loaded || loaded.len() > 1 {
            witness(format!("{what}: load_all_valid returned {} shards, expected {}", loaded.len(), want_loaded as usize));
        }
        must(&format!("{what}: clean_expired_shards"), || MDBShardFile::clean_expired_shards(dir.path(), grace));
        if path.exists() == want_deleted {
            witness(format!("{what}: after clean_expired_shards(grace {grace} s) the file {}, expected {}", if path.exists() { "still exists" } else { "was deleted" }, if want_deleted { "deleted" } else { "kept" }));
        }
    }
}

// ---------------------------------------------------------------------------------------------------------------------
// E. (only with C10_ONLY=E) probe outside the generated input space: a file segment with non-zero cas_flags, exported without
//    file info.  The export skips dropped file records entry by entry by re-reading each 48-byte entry as a header.
// ---------------------------------------------------------------------------------------------------------------------
fn section_e(seed: u64) {
    let mut rng = Rng(seed ^ 0xE);
    let pool = gen_pool(&mut rng, 3, 3, true);
    let model = Model { files: pool.files.iter().map(|(h, f)| (*h, variant(f, 0))).collect(), xorbs: pool.xorbs.iter().cloned().collect() };
    let mut mem = to_mem(&model);
    let fh = *model.files.iter().find(|f| !f.1.segs.is_empty()).unwrap().0;
    mem.file_content.get_mut(&mh(&fh)).unwrap().segments[0].cas_flags = 1 << 31;
    let dir = infra("tempdir", tempfile::tempdir());
    let path = must("[E] write_to_directory", || mem.write_to_directory(dir.path()));
    let out = infra("tempdir", tempfile::tempdir());
    let key = rng.hash();
    let p = export(&path, out.path(), &key, 6);
    let bytes = infra("read", std::fs::read(&p));
    if let Err(e) = check_shard_bytes(&bytes, &model, Expect { key, files: false, cas_lookup: true, chunk_lookup: true }, &[]) {
        witness(format!("[E] shard with a file segment whose cas_flags = 0x80000000, exported without file info: {e}"));
    }
}

// ---------------------------------------------------------------------------------------------------------------------
// F. entry points and input classes not reached by A-D
// ---------------------------------------------------------------------------------------------------------------------
fn bare_copy(bytes: &[u8], how: usize) -> Vec<u8> {
    let mut out = Vec::new();
    if how == 0 {
        let min = must("[F] MDBMinimalShard::from_reader", || mdb_shard::streaming_shard::MDBMinimalShard::from_reader(&mut &bytes[..], true, true));
        must("[F] MDBMinimalShard::serialize", || min.serialize(&mut out));
    } else {
        let info = must("[F] load_from_reader", || MDBShardInfo::load_from_reader(&mut Cursor::new(bytes)));
        must("[F] export_as_keyed_shard(zero key, file info only)", || info.export_as_keyed_shard(&mut Cursor::new(bytes), &mut out, mh(&ZERO), Duration::from_secs(3600), true, false, false));
    }
    out
}
fn section_f(seed: u64) {
    let mut rng = Rng(seed.wrapping_mul(0x0BAD_5EED_1234_5677) ^ 0xF);
    let load = |b: &Vec<u8>| must("[F] MDBShardInfo::load_from_reader", || MDBShardInfo::load_from_reader(&mut Cursor::new(b)));
    // ---- (1) zero-chunk xorbs, lookup-less operands, in-memory dedup answers
    let pool = gen_pool(&mut rng, 12, 10, true);
    let neg = negatives_for(&pool);
    for round in 0..4 {
        let mut a = gen_shard(&mut rng, &pool, 4, 4);
        let mut b = gen_shard(&mut rng, &pool, 4, 4);
        let (z1, z2, z3) = (rng.hash(), rng.hash(), rng.hash_with_prefix(pool.xorbs[0].0[0]));
        let empty_xorb = XorbRec { chunks: vec![], on_disk: 0 };
        a.xorbs.insert(z1, empty_xorb.clone());
        b.xorbs.insert(z2, empty_xorb.clone());
        a.xorbs.insert(z3, empty_xorb.clone());
        b.xorbs.insert(z3, empty_xorb.clone());
        check_set_ops(&format!("F zero-chunk xorbs in the first, the second and both (#{round})"), &a, &b, &neg, round == 0);
        check_set_ops(&format!("F zero-chunk xorbs, operands swapped (#{round})"), &b, &a, &neg, false);
        // lookup-less operands
        *DETAILS.lock().unwrap() = format!(" | inputs: first = {} ; second = {}", a.describe(), b.describe());
        let (ba, bb) = (to_bytes(&a), to_bytes(&b));
        for how in 0..2 {
            let what = if how == 0 { "re-serialised by MDBMinimalShard::serialize (no lookup tables)" } else { "re-exported with the zero key, file info but no lookup tables" };
            let (la, lb) = (bare_copy(&ba, how), bare_copy(&bb, how));
            for (name, x, y) in [("first operand", &la, &bb), ("second operand", &ba, &lb), ("both operands", &la, &lb)] {
                let (ix, iy) = (load(x), load(y));
                let mut out = Vec::new();
                must(&format!("[F] shard_set_union, {name} {what}"), || shard_set_union(&ix, &mut Cursor::new(x), &iy, &mut Cursor::new(y), &mut out));
                if let Err(e) = check_shard_bytes(&out, &m_union(&a, &b), PLAIN, &neg) {
                    witness(format!("[F] shard_set_union(first, second) with the {name} {what}: {e}"));
                }
                let mut out = Vec::new();
                must(&format!("[F] shard_set_difference, {name} {what}"), || shard_set_difference(&ix, &mut Cursor::new(x), &iy, &mut Cursor::new(y), &mut out));
                if let Err(e) = check_shard_bytes(&out, &m_diff(&a, &b), PLAIN, &neg) {
                    witness(format!("[F] shard_set_difference(first, second) (expected: records of the second not in the first) with the {name} {what}: {e}"));
                }
            }
        }
        // in-memory dedup answers on the results of the in-memory operations
        let (ma, mb) = (to_mem(&a), to_mem(&b));
        let junk = [0x3333_3333_3333_3333u64, 4, 4, 4];
        for (op, mem, want) in [
            ("MDBInMemoryShard::union", must("[F] union", || ma.union(&mb)), m_union(&a, &b)),
            ("MDBInMemoryShard::difference", must("[F] difference", || ma.difference(&mb)), m_diff(&a, &b)),
        ] {
            let mut qs = queries_for(&want, &junk);
            for h in &neg {
                qs.push(vec![*h]);
            }
            for q in qs {
                let qm: Vec<MerkleHash> = q.iter().map(mh).collect();
                let ans = match catch_unwind(AssertUnwindSafe(|| mem.chunk_hash_dedup_query(&qm))) {
                    Ok(a) => a,
                    Err(_) => witness(format!("[F] {op}(first, second).chunk_hash_dedup_query panicked")),
                };
                if let Err(e) = validate_answer(&want, &q, &ans) {
                    witness(format!("[F] {op}(first, second), then chunk_hash_dedup_query on the in-memory result ({} hashes starting {}): {e}", q.len(), hx(&q[0])));
                }
            }
        }
    }
    DETAILS.lock().unwrap().clear();

    // ---- (2) streaming export, timestamps, export_with_expiration
    let model = gen_shard(&mut rng, &pool, 6, 6);
    *DETAILS.lock().unwrap() = format!(" | S = {}", model.describe());
    let bytes = to_bytes(&model);
    let info = load(&bytes);
    let now = || SystemTime::now().duration_since(SystemTime::UNIX_EPOCH).unwrap().as_secs();
    let key = rng.hash();
    for k in [ZERO, key] {
        for fl in 0..8 {
            let (f, c, kk) = flags_of(fl);
            let what = format!("[F] key {}, {}", hx(&k), flag_str(fl));
            let (mut o1, mut o2) = (Vec::new(), Vec::new());
            let t0 = now();
            let n1 = must(&format!("{what}: export_as_keyed_shard"), || info.export_as_keyed_shard(&mut Cursor::new(&bytes), &mut o1, mh(&k), Duration::from_secs(3600), f, c, kk));
            let n2 = must(&format!("{what}: export_as_keyed_shard_streaming"), || MDBShardInfo::export_as_keyed_shard_streaming(&mut Cursor::new(&bytes), &mut o2, mh(&k), Duration::from_secs(3600), f, c, kk));
            let t1 = now();
            if n1 != o1.len() || n2 != o2.len() {
                witness(format!("{what}: the exports report {n1} / {n2} bytes written but wrote {} / {}", o1.len(), o2.len()));
            }
            if let Err(e) = check_shard_bytes(&o2, &model, Expect { key: k, files: f, cas_lookup: c, chunk_lookup: kk }, &neg) {
                witness(format!("{what}: export_as_keyed_shard_streaming: {e}"));
            }
            let (i1, i2) = (load(&o1), load(&o2));
            let fo = i1.metadata.footer_offset as usize;
            if o1.len() != o2.len() || o1[..fo] != o2[..fo] {
                witness(format!("{what}: export_as_keyed_shard and export_as_keyed_shard_streaming of the same shard differ before the footer"));
            }
            let (mut m1, mut m2) = (i1.metadata.clone(), i2.metadata.clone());
            for m in [&m1, &m2] {
                if m.shard_creation_timestamp < t0 || m.shard_creation_timestamp > t1 || m.shard_key_expiry < t0 + 3600 || m.shard_key_expiry > t1 + 3600 {
                    witness(format!("{what}: exported between {t0} and {t1} for 3600 s, the footer says created {} / expires {}", m.shard_creation_timestamp, m.shard_key_expiry));
                }
            }
            m1.shard_creation_timestamp = 0;
            m2.shard_creation_timestamp = 0;
            m1.shard_key_expiry = 0;
            m2.shard_key_expiry = 0;
            if m1 != m2 {
                witness(format!("{what}: the footers written by export_as_keyed_shard and export_as_keyed_shard_streaming differ in more than the timestamps"));
            }
        }
    }
    for valid in [0u64, 1, 3600, 315_360_000] {
        let mut o = Vec::new();
        let t0 = now();
        must("[F] export_as_keyed_shard", || info.export_as_keyed_shard(&mut Cursor::new(&bytes), &mut o, mh(&key), Duration::from_secs(valid), true, true, true));
        let t1 = now();
        let m = load(&o).metadata;
        if m.shard_key_expiry < t0 + valid || m.shard_key_expiry > t1 + valid || m.shard_creation_timestamp < t0 || m.shard_creation_timestamp > t1 {
            witness(format!("[F] export_as_keyed_shard with validity {valid} s between {t0} and {t1}: the footer says created {} / expires {}", m.shard_creation_timestamp, m.shard_key_expiry));
        }
    }
    {
        let src = infra("tempdir", tempfile::tempdir());
        let dst = infra("tempdir", tempfile::tempdir());
        let st = stage(src.path(), &model);
        let sf = must("[F] load_from_file", || MDBShardFile::load_from_file(&st.path));
        let t0 = now();
        let out = must("[F] MDBShardFile::export_with_expiration(1 h)", || sf.export_with_expiration(dst.path(), Duration::from_secs(3600)));
        let t1 = now();
        let ob = infra("read", std::fs::read(&out.path));
        let sb = infra("read", std::fs::read(&st.path));
        let (oi, si) = (load(&ob), load(&sb));
        let fo = si.metadata.footer_offset as usize;
        let mut om = oi.metadata.clone();
        let exp = om.shard_key_expiry;
        om.shard_key_expiry = si.metadata.shard_key_expiry;
        if ob.len() != sb.len() || ob[..fo] != sb[..fo] || om != si.metadata || exp < t0 + 3600 || exp > t1 + 3600 {
            witness(format!("[F] MDBShardFile::export_with_expiration(1 h): the output must equal the source except for the expiry in [{}, {}]; expiry written {exp}, same length {}, same content before the footer {}", t0 + 3600, t1 + 3600, ob.len() == sb.len(), ob.len() == sb.len() && ob[..fo] == sb[..fo]));
        }
        if parse_shard_filename(&out.path) != Some(compute_data_hash(&ob)) || out.shard_hash != compute_data_hash(&ob) || !st.path.exists() {
            witness("[F] MDBShardFile::export_with_expiration: the output is not named by its content hash, or the source is gone".into());
        }
        if let Err(e) = check_shard_bytes(&ob, &model, PLAIN, &neg) {
            witness(format!("[F] MDBShardFile::export_with_expiration: {e}"));
        }
    }
    DETAILS.lock().unwrap().clear();

    // ---- (3) manager entry points, default grace period
    let mg = Mgr { rt: infra("tokio runtime", tokio::runtime::Builder::new_current_thread().build()) };
    let upool = gen_pool(&mut rng, 12, 12, true);
    let uneg = negatives_for(&upool);
    let part = |lo: usize, hi: usize| Model {
        files: upool.files.iter().skip(lo).take(hi - lo).map(|(h, f)| (*h, f.clone())).collect(),
        xorbs: upool.xorbs.iter().skip(lo).take(hi - lo).cloned().collect(),
    };
    let (m_valid, m_day, m_week, m_later, m_single) = (part(0, 3), part(3, 5), part(5, 7), part(7, 9), part(9, 12));
    let dir = infra("tempdir", tempfile::tempdir());
    let t = now();
    let write_with_expiry = |m: &Model, expiry: u64| -> PathBuf {
        let b = to_bytes(m);
        let mut info = load(&b);
        info.metadata.shard_key_expiry = expiry;
        let mut out = b[..info.metadata.footer_offset as usize].to_vec();
        must("[F] MDBShardFileFooter::serialize", || info.metadata.serialize(&mut out));
        let p = dir.path().join(shard_file_name(&compute_data_hash(&out)));
        infra("write", std::fs::write(&p, &out));
        p
    };
    let p_valid = write_with_expiry(&m_valid, t + 3600);
    let p_day = write_with_expiry(&m_day, t - 86_400);
    let p_week = write_with_expiry(&m_week, t - 8 * 86_400);
    let what = "[F] cache directory holding a shard valid for another hour, one expired a day ago and one expired eight days ago";
    let mgr = must(&format!("{what}: ShardFileManager::new_in_cache_directory"), || mg.rt.block_on(ShardFileManager::new_in_cache_directory(dir.path())));
    let registered: BTreeSet<String> = must(&format!("{what}: registered_shard_list"), || mg.rt.block_on(mgr.registered_shard_list())).iter().map(|s| s.shard_hash.hex()).collect();
    let name_of = |p: &PathBuf| p.file_stem().unwrap().to_string_lossy().to_string();
    if registered != BTreeSet::from([name_of(&p_valid)]) {
        witness(format!("{what}: new_in_cache_directory registered {registered:?}, expected exactly the valid shard {}", name_of(&p_valid)));
    }
    for (p, want) in [(&p_valid, true), (&p_day, false), (&p_week, false)] {
        let h = parse_shard_filename(p).unwrap();
        if mg.rt.block_on(mgr.shard_is_registered(&h)) != want {
            witness(format!("{what}: shard_is_registered({}) is {}", name_of(p), !want));
        }
    }
    let expired_files: Vec<H> = m_day.files.keys().chain(m_week.files.keys()).cloned().collect();
    check_manager(&mg, what, &mgr, &m_valid, &m_valid.files, &expired_files, None, &uneg);
    for m in [&m_day, &m_week] {
        for x in m.xorbs.values() {
            if let Some(a) = mg.query(what, &mgr, &[x.chunks[0].0]) {
                witness(format!("{what}: a chunk recorded only in an expired shard is answered from xorb {}", hx(&hh(&a.1.cas_hash))));
            }
        }
    }
    let all = must(&format!("{what}: all_file_info"), || mg.rt.block_on(mgr.all_file_info()));
    let got: BTreeSet<H> = all.iter().map(|f| hh(&f.metadata.file_hash)).collect();
    if got != m_valid.files.keys().cloned().collect() {
        witness(format!("{what}: all_file_info lists {} file records, the valid shard holds {}", got.len(), m_valid.files.len()));
    }
    for call in 1..=3 {
        must(&format!("{what}: clean_expired_shards_if_needed (call {call})"), || mgr.clean_expired_shards_if_needed());
        if !p_valid.exists() || !p_day.exists() {
            witness(format!("{what}: after call {call} of clean_expired_shards_if_needed (default grace period of 7 days) the {} was deleted", if !p_valid.exists() { "valid shard" } else { "shard that expired only a day ago" }));
        }
    }
    eprintln!("[F] after three clean_expired_shards_if_needed calls the shard expired 8 days ago {}", if p_week.exists() { "still exists" } else { "is deleted" });
    must("[F] MDBShardFile::clean_expired_shards(grace 0)", || MDBShardFile::clean_expired_shards(dir.path(), 0));
    if !p_valid.exists() || p_day.exists() || p_week.exists() {
        witness(format!("{what}: after clean_expired_shards(grace 0): valid shard exists = {}, expired shards exist = {} / {}", p_valid.exists(), p_day.exists(), p_week.exists()));
    }
    // a shard appearing later: refresh_shard_dir, register_shards_by_path (directory and single file), a later manager
    let p_later = write_with_expiry(&m_later, t + 3600);
    must("[F] refresh_shard_dir", || mg.rt.block_on(mgr.refresh_shard_dir()));
    let both = m_union(&m_valid, &m_later);
    check_manager(&mg, "[F] a second valid shard appears in the cache directory; refresh_shard_dir", &mgr, &both, &both.files, &expired_files, None, &uneg);
    let p_single = write_with_expiry(&m_single, u64::MAX);
    must("[F] register_shards_by_path(single file)", || mg.rt.block_on(mgr.register_shards_by_path(&[std::path::absolute(&p_single).unwrap()])));
    must("[F] register_shards_by_path(directory, again)", || mg.rt.block_on(mgr.register_shards_by_path(&[dir.path()])));
    let three = m_union(&both, &m_single);
    check_manager(&mg, "[F] a third shard registered with register_shards_by_path(file), then the whole directory registered again", &mgr, &three, &three.files, &expired_files, None, &uneg);
    let n = mg.rt.block_on(mgr.registered_shard_list()).map(|l| l.len()).unwrap_or(0);
    if n != 3 {
        witness(format!("[F] after registering the same three shards through refresh_shard_dir / register_shards_by_path (file) / register_shards_by_path (directory) the manager lists {n} registered shards"));
    }
    let again = must("[F] ShardFileManager::new_in_cache_directory (second call)", || mg.rt.block_on(ShardFileManager::new_in_cache_directory(dir.path())));
    check_manager(&mg, "[F] new_in_cache_directory called a second time for the directory", &again, &three, &three.files, &expired_files, None, &uneg);
    let fresh = mg.open("[F] new_in_session_directory over the same directory", dir.path());
    check_manager(&mg, "[F] new_in_session_directory over the same directory", &fresh, &three, &three.files, &expired_files, None, &uneg);
    let _ = &p_later;

    // ---- (4) expiry whichever way the shard is named
    let npool = gen_pool(&mut rng, 12, 12, true);
    let nneg = negatives_for(&npool);
    let npart = |i: usize| Model {
        files: npool.files.iter().skip(2 * i).take(2).map(|(h, f)| (*h, f.clone())).collect(),
        xorbs: npool.xorbs.iter().skip(2 * i).take(2).cloned().collect(),
    };
    let nkey = rng.hash();
    let mut case = 0usize;
    for keyed_shard in [false, true] {
        for (kind, expired) in [("expired 1000 s ago", true), ("valid for another hour", false), ("without expiry (u64::MAX)", false)] {
            let model = npart(case);
            case += 1;
            let t = now();
            let expiry = match kind {
                "expired 1000 s ago" => t - 1000,
                "valid for another hour" => t + 3600,
                _ => u64::MAX,
            };
            // the shard bytes: plain or re-exported under a key, footer expiry rewritten
            let plain = to_bytes(&model);
            let base = if keyed_shard {
                let mut o = Vec::new();
                let pi = load(&plain);
                must("[F4] export_as_keyed_shard", || pi.export_as_keyed_shard(&mut Cursor::new(&plain), &mut o, mh(&nkey), Duration::from_secs(3600), true, true, true));
                o
            } else {
                plain
            };
            let mut info = load(&base);
            info.metadata.shard_key_expiry = expiry;
            let mut bytes = base[..info.metadata.footer_offset as usize].to_vec();
            must("[F4] MDBShardFileFooter::serialize", || info.metadata.serialize(&mut bytes));
            let hash = compute_data_hash(&bytes);
            let fname = shard_file_name(&hash);
            for way in ["its directory", "its absolute file path", "its relative file path (current directory = the shard's directory)"] {
                let what = format!("[F4] {} shard {kind}, named by {way}", if keyed_shard { "keyed" } else { "unkeyed" });
                *DETAILS.lock().unwrap() = format!(" | shard = {}", model.describe());
                let sdir = infra("tempdir", tempfile::tempdir());
                let mdir = infra("tempdir", tempfile::tempdir());
                let fpath = std::path::absolute(sdir.path().join(&fname)).unwrap();
                infra("write", std::fs::write(&fpath, &bytes));
                let relative = way.starts_with("its relative");
                let arg: PathBuf = if way == "its directory" { sdir.path().to_path_buf() } else if relative { PathBuf::from(&fname) } else { fpath.clone() };
                let old_cwd = std::env::current_dir().ok();
                if relative {
                    infra("set_current_dir", std::env::set_current_dir(sdir.path()));
                }
                let loaded = catch_unwind(AssertUnwindSafe(|| MDBShardFile::load_all_valid(&arg)));
                let mgr = mg.open(&what, mdir.path());
                let registered = catch_unwind(AssertUnwindSafe(|| mg.rt.block_on(mgr.register_shards_by_path(&[arg.clone()]))));
                if let (true, Some(d)) = (relative, old_cwd) {
                    infra("set_current_dir", std::env::set_current_dir(d));
                }
                let loaded = loaded.unwrap_or_else(|_| witness(format!("{what}: MDBShardFile::load_all_valid panicked")));
                let registered = registered.unwrap_or_else(|_| witness(format!("{what}: register_shards_by_path panicked")));
                match &loaded {
                    Ok(list) => {
                        let has = list.iter().any(|s| s.shard_hash == hash);
                        if expired && has {
                            witness(format!("{what}: MDBShardFile::load_all_valid returns the expired shard (expiry {expiry}, now {t})"));
                        }
                        if !expired && (!has || list.len() != 1) {
                            witness(format!("{what}: MDBShardFile::load_all_valid returns {} shards, expected exactly this one", list.len()));
                        }
                    },
                    Err(e) if relative => eprintln!("note: {what}: load_all_valid fails: {e:?}"),
                    Err(e) => witness(format!("{what}: MDBShardFile::load_all_valid fails: {e:?}")),
                }
                match &registered {
                    Ok(()) => {},
                    Err(e) if relative => eprintln!("note: {what}: register_shards_by_path fails: {e:?}"),
                    Err(e) => witness(format!("{what}: register_shards_by_path fails: {e:?}")),
                }
                let is_reg = mg.rt.block_on(mgr.shard_is_registered(&hash));
                let what = format!("{what}; manager over another (empty) directory after register_shards_by_path");
                if expired {
                    if is_reg {
                        witness(format!("{what}: the expired shard (expiry {expiry}, now {t}) is registered"));
                    }
                    for x in model.xorbs.values() {
                        for c in [x.chunks.first(), x.chunks.last()].into_iter().flatten() {
                            if let Some(a) = mg.query(&what, &mgr, &[c.0]) {
                                witness(format!("{what}: a chunk of the expired shard (expiry {expiry}, now {t}) is answered from xorb {}", hx(&hh(&a.1.cas_hash))));
                            }
                        }
                    }
                    for h in model.files.keys() {
                        if mg.file(&what, &mgr, h).is_some() {
                            witness(format!("{what}: file record {} of the expired shard is served", hx(h)));
                        }
                    }
                } else if registered.is_ok() {
                    if !is_reg {
                        witness(format!("{what}: the shard is not registered although it is not expired"));
                    }
                    check_manager(&mg, &what, &mgr, &model, &model.files, &nneg, None, &nneg);
                }
            }
        }
    }
    DETAILS.lock().unwrap().clear();

    // ---- (5) adjacent chunk entries sharing the truncated prefix, under non-zero keys
    {
        let mut m = Model::default();
        let mut rng2 = Rng(seed ^ 0xF5);
        let (pa, pb, pc, pd) = (rng2.next() | 2, rng2.next() | 2, rng2.next() | 2, rng2.next() | 2);
        // chunk list from first words: 0 = a fresh random hash, p = a hash whose first 64 bits are p
        fn chunks_of(rng: &mut Rng, firsts: &[u64]) -> Vec<(H, u32)> {
            firsts.iter().map(|w| { let h = if *w == 0 { rng.hash() } else { [*w, rng.next() & !4, rng.next(), rng.next()] }; (h, 1 + rng.below(60000) as u32) }).collect()
        }
        let x = |w: u64| -> H { [w, 7, 7, 7] };
        // X1: a pair in the middle; X2: three in a row at the start; X3 / X4: adjacent in hash order, the pair straddles the boundary;
        // X5: a pair at the very end; X6: a single chunk colliding with nothing
        m.xorbs.insert(x(1 << 60), XorbRec { chunks: chunks_of(&mut rng2, &[0, pa, pa, 0]), on_disk: 11 });
        m.xorbs.insert(x(2 << 60), XorbRec { chunks: chunks_of(&mut rng2, &[pb, pb, pb, 0, 0]), on_disk: 22 });
        m.xorbs.insert(x(3 << 60), XorbRec { chunks: chunks_of(&mut rng2, &[0, 0, pc]), on_disk: 33 });
        m.xorbs.insert(x((3 << 60) + 1), XorbRec { chunks: chunks_of(&mut rng2, &[pc, 0]), on_disk: 44 });
        m.xorbs.insert(x(5 << 60), XorbRec { chunks: chunks_of(&mut rng2, &[0, pd, pd]), on_disk: 55 });
        m.xorbs.insert(x(6 << 60), XorbRec { chunks: chunks_of(&mut rng2, &[0]), on_disk: 66 });
        for i in 0..3u64 {
            let (xh, xr) = m.xorbs.iter().nth(i as usize).map(|(h, r)| (*h, r.clone())).unwrap();
            m.files.insert(rng2.hash(), FileRec { segs: vec![(xh, xr.chunks[0].1, 0, 1)], verif: if i % 2 == 0 { Some(vec![rng2.hash()]) } else { None }, sha: if i > 0 { Some(rng2.hash()) } else { None } });
        }
        *DETAILS.lock().unwrap() = format!(" | S = {} (chunk prefixes shared: chunks 1,2 of xorb #0; 0,1,2 of #1; last of #2 with first of #3; 1,2 of #4)", m.describe());
        let neg5: Vec<H> = chunks_of(&mut rng2, &[0, 0, 0, 0, pa, pc]).into_iter().map(|c| c.0).collect();
        let obytes = to_bytes(&m);
        if let Err(e) = check_shard_bytes(&obytes, &m, PLAIN, &neg5) {
            witness(format!("[F5] the unkeyed shard with adjacent prefix-colliding chunks written by serialize_from: {e}"));
        }
        let oinfo = load(&obytes);
        let junk = [0x1212_1212_1212_1212u64, 3, 3, 3];
        let mut qs: Vec<Vec<H>> = Vec::new();
        for xr in m.xorbs.values() {
            for j in 0..xr.chunks.len() {
                let c = xr.chunks[j].0;
                qs.push(vec![c]);
                qs.push(vec![c, c]);
                let mut run: Vec<H> = xr.chunks[j..].iter().map(|c| c.0).collect();
                qs.push(run.clone());
                run.push(junk);
                run.push(junk);
                qs.push(run);
                if j + 1 < xr.chunks.len() {
                    qs.push(vec![c, junk, xr.chunks[j + 1].0]);
                    qs.push(vec![c, xr.chunks[j + 1].0]);
                }
            }
        }
        for h in &neg5 {
            qs.push(vec![*h]);
        }
        let show = |a: &Answer| a.as_ref().map(|(n, e)| (*n, hx(&hh(&e.cas_hash)), e.chunk_index_start, e.chunk_index_end, e.unpacked_segment_bytes));
        let keys5 = [rng2.hash(), rng2.hash()];
        for key in keys5 {
            for fl in 0..8 {
                let (f, c, k) = flags_of(fl);
                for streaming in [false, true] {
                    let what = format!("[F5] shard with adjacent prefix-colliding chunks exported with {} under key {}, {}", if streaming { "export_as_keyed_shard_streaming" } else { "export_as_keyed_shard" }, hx(&key), flag_str(fl));
                    let mut out = Vec::new();
                    must(&what, || {
                        if streaming {
                            MDBShardInfo::export_as_keyed_shard_streaming(&mut Cursor::new(&obytes), &mut out, mh(&key), Duration::from_secs(3600), f, c, k)
                        } else {
                            oinfo.export_as_keyed_shard(&mut Cursor::new(&obytes), &mut out, mh(&key), Duration::from_secs(3600), f, c, k)
                        }
                    });
                    // (a) entry by entry, before the structural check, for a precise message
                    let ei = load(&out);
                    let got = must(&format!("{what}: read_all_cas_blocks_full"), || ei.read_all_cas_blocks_full(&mut Cursor::new(&out)));
                    for (gi, (xh, xr)) in got.iter().zip(m.xorbs.iter()) {
                        for (j, (gc, oc)) in gi.chunks.iter().zip(xr.chunks.iter()).enumerate() {
                            if hh(&gc.chunk_hash) != keyed(&oc.0, &key) {
                                witness(format!("{what}: chunk entry {j} of xorb {} holds {} but hmac(key, original entry {}) is {}{}", hx(xh), hx(&hh(&gc.chunk_hash)), hx(&oc.0), hx(&keyed(&oc.0, &key)),
                                    if j > 0 && hh(&gc.chunk_hash) == keyed(&xr.chunks[j - 1].0, &key) { " - it holds the keyed hash of the PREVIOUS entry, whose raw hash shares the first 64 bits" } else { "" }));
                            }
                        }
                    }
                    if let Err(e) = check_shard_bytes(&out, &m, Expect { key, files: f, cas_lookup: c, chunk_lookup: k }, &neg5) {
                        witness(format!("{what}: {e}"));
                    }
                    // (b) manager over the export alone, unkeyed queries, against the original shard's own answers
                    let dir = infra("tempdir", tempfile::tempdir());
                    let p = dir.path().join(shard_file_name(&compute_data_hash(&out)));
                    infra("write", std::fs::write(&p, &out));
                    let mgr = mg.open(&what, dir.path());
                    for q in &qs {
                        let qm: Vec<MerkleHash> = q.iter().map(mh).collect();
                        let ans = mg.query(&what, &mgr, q);
                        let orig: Answer = must("[F5] chunk_hash_dedup_query on the original shard", || oinfo.chunk_hash_dedup_query(&mut Cursor::new(&obytes), &qm));
                        if let Err(e) = validate_answer(&m, q, &ans) {
                            witness(format!("{what}; manager over the export alone, query of {} unkeyed hashes starting with {}: {e}; the original shard answers {:?}", q.len(), hx(&q[0]), show(&orig)));
                        }
                        if ans != orig {
                            witness(format!("{what}; manager over the export alone, query of {} unkeyed hashes starting with {}: answers {:?}, the original shard answers {:?}", q.len(), hx(&q[0]), show(&ans), show(&orig)));
                        }
                    }
                }
            }
        }
        DETAILS.lock().unwrap().clear();
    }
}

fn main() {
    let seed: u64 = std::env::var("VERIF_SEED").ok().and_then(|s| s.parse().ok()).unwrap_or(0);
    let only = std::env::var("C10_ONLY").unwrap_or_default().to_uppercase();
    let sel = |s: &str| only.is_empty() || only.contains(s);
    // panics of the code under test are caught and reported; keep their default message out of stdout (stderr is logged)
    if sel("A") {
        section_a(seed);
    }
    if sel("B") {
        section_b(seed);
    }
    if sel("C") {
        section_c(seed);
    }
    if sel("D") {
        section_d(seed);
    }
    if sel("F") {
        section_f(seed);
    }
    if only.contains('E') {
        section_e(seed);
    }
    println!("no violation found");
}
