//! Witness search for C14 (and the size clause of C03): feed the REAL FileDeduper dedup patterns (fragmented histories that switch
//! the fragmentation prevention on and off, in-xorb repeats, stored runs, xorb cuts, shards arriving through the global-dedup restart
//! path) through a truthful mock store and compare the reported metrics, per process_chunks call and cumulatively, with what was fed:
//!   total == fed; new + deduped == total (bytes and chunks); withheld-by-defrag <= new, and never more than the new chunks that were
//!   already known somewhere (a first-ever chunk cannot have been "withheld from dedup"); new == what physically went into the
//!   registered xorbs + the remaining-data aggregator; the sum of the per-call metrics == the file metrics (all 13 fields);
//!   segment bytes == fed bytes; DeduplicationMetrics::merge_in == field-wise sums.
//! The fragmentation constants and MAX_XORB_CHUNKS are read once per process: the program re-executes itself per configuration.
//! Prints `WITNESS <description>` and exits 1 when a conservation law is violated, exits 0 otherwise.
//! Opt-in (fails on HEAD, not part of C14 as stated): VERIF_C14_GLOBAL_LE_DEDUPED=1 also demands deduped_*_by_global_dedup <= deduped_*.
use std::collections::{HashMap, HashSet, VecDeque};
use std::panic::{catch_unwind, AssertUnwindSafe};
use std::sync::{Arc, Mutex};

use deduplication::constants::MAX_XORB_CHUNKS;
use deduplication::{Chunk, DeduplicationDataInterface, DeduplicationMetrics, FileDeduper, RawXorbData};
use mdb_shard::file_structs::FileDataSequenceEntry;
use merklehash::{compute_data_hash, MerkleHash};
use rand::rngs::StdRng;
use rand::{Rng, SeedableRng};

/// (NRANGES_IN_STREAMING_FRAGMENTATION_ESTIMATOR, MIN_N_CHUNKS_PER_RANGE, HYSTERESIS_FACTOR, MAX_XORB_CHUNKS); None = default
/// (128, 8.0, 0.5, 8192).  The first three live in a private module: their pickup is verified by behaviour (probe()).
const CONFIGS: [Option<(usize, f32, f32, usize)>; 7] = [
    None,
    Some((4, 8.0, 0.5, 16)),
    Some((16, 3.0, 0.9, 8192)),
    Some((8, 64.0, 0.5, 50)),
    Some((2, 8.0, 0.5, 3)),
    Some((32, 1.0, 0.5, 8192)), // low threshold 0.5 chunks per range: can never refuse
    Some((1, 8.0, 0.5, 7)),
];

type HL = (MerkleHash, usize);

#[derive(Default)]
struct Store {
    xorbs: HashMap<MerkleHash, Vec<HL>>,
    first: HashMap<MerkleHash, (MerkleHash, usize)>,
    late: VecDeque<(MerkleHash, Vec<HL>)>,
    caps: Vec<usize>,
    calls: usize,
    new_chunks: usize, // what was handed over through register_new_xorb
    new_bytes: usize,
    restarts: usize,
}
impl Store {
    fn add(&mut self, x: MerkleHash, chunks: Vec<HL>) {
        for (i, (h, _)) in chunks.iter().enumerate() {
            self.first.entry(*h).or_insert((x, i));
        }
        self.xorbs.insert(x, chunks);
    }
}
struct Mock {
    store: Arc<Mutex<Store>>,
    outstanding: usize,
    restart: bool,
}

#[async_trait::async_trait]
impl DeduplicationDataInterface for Mock {
    type ErrorType = String;
    async fn chunk_hash_dedup_query(&self, q: &[MerkleHash]) -> Result<Option<(usize, FileDataSequenceEntry)>, String> {
        let mut s = self.store.lock().unwrap();
        let cap = if s.caps.is_empty() { usize::MAX } else { s.caps[s.calls % s.caps.len()] }.max(1);
        s.calls += 1;
        if let Some((x, i)) = s.first.get(&q[0]) {
            let list = &s.xorbs[x];
            let mut n = 0;
            let mut bytes = 0;
            while n < q.len() && n < cap && i + n < list.len() && list[i + n].0 == q[n] {
                bytes += list[i + n].1;
                n += 1;
            }
            return Ok(Some((n, FileDataSequenceEntry::new(*x, bytes, *i, *i + n))));
        }
        Ok(None)
    }
    async fn register_global_dedup_query(&mut self, _h: MerkleHash) -> Result<(), String> {
        self.outstanding += 1;
        Ok(())
    }
    async fn complete_global_dedup_queries(&mut self) -> Result<bool, String> {
        let had = std::mem::take(&mut self.outstanding);
        if !self.restart || had == 0 {
            return Ok(false);
        }
        let mut s = self.store.lock().unwrap();
        s.restarts += 1;
        if let Some((x, list)) = s.late.pop_front() {
            s.add(x, list);
        }
        Ok(true)
    }
    async fn register_new_xorb(&mut self, x: RawXorbData) -> Result<(), String> {
        let mut s = self.store.lock().unwrap();
        let list: Vec<HL> = x.cas_info.chunks.iter().map(|c| (c.chunk_hash, c.unpacked_segment_bytes as usize)).collect();
        s.new_chunks += list.len();
        s.new_bytes += x.data.iter().map(|d| d.len()).sum::<usize>();
        s.add(x.hash(), list);
        Ok(())
    }
}

fn chunk(tag: u64, len: usize) -> Chunk {
    let mut d = vec![0u8; len.max(8)];
    d[..8].copy_from_slice(&tag.to_le_bytes());
    Chunk { hash: compute_data_hash(&d), data: Arc::from(d) }
}

fn fields(m: &DeduplicationMetrics) -> [usize; 13] {
    [
        m.total_bytes, m.deduped_bytes, m.new_bytes, m.deduped_bytes_by_global_dedup, m.defrag_prevented_dedup_bytes, m.total_chunks, m.deduped_chunks, m.new_chunks,
        m.deduped_chunks_by_global_dedup, m.defrag_prevented_dedup_chunks, m.xorb_bytes_uploaded, m.shard_bytes_uploaded, m.total_bytes_uploaded,
    ]
}
const FIELD_NAMES: [&str; 13] = [
    "total_bytes", "deduped_bytes", "new_bytes", "deduped_bytes_by_global_dedup", "defrag_prevented_dedup_bytes", "total_chunks", "deduped_chunks", "new_chunks",
    "deduped_chunks_by_global_dedup", "defrag_prevented_dedup_chunks", "xorb_bytes_uploaded", "shard_bytes_uploaded", "total_bytes_uploaded",
];

/// the conservation laws on one metrics value for `chunks` fed chunks of `bytes` bytes
fn laws(m: &DeduplicationMetrics, chunks: usize, bytes: usize, restarted: bool) -> Vec<String> {
    let mut bad = vec![];
    if m.total_bytes != bytes {
        bad.push(format!("total_bytes={} but {} bytes were fed", m.total_bytes, bytes));
    }
    if m.total_chunks != chunks {
        bad.push(format!("total_chunks={} but {} chunks were fed", m.total_chunks, chunks));
    }
    if m.new_bytes + m.deduped_bytes != m.total_bytes {
        bad.push(format!("new_bytes {} + deduped_bytes {} != total_bytes {}", m.new_bytes, m.deduped_bytes, m.total_bytes));
    }
    if m.new_chunks + m.deduped_chunks != m.total_chunks {
        bad.push(format!("new_chunks {} + deduped_chunks {} != total_chunks {}", m.new_chunks, m.deduped_chunks, m.total_chunks));
    }
    if m.defrag_prevented_dedup_bytes > m.new_bytes || m.defrag_prevented_dedup_chunks > m.new_chunks {
        bad.push(format!(
            "withheld-from-dedup exceeds new data: defrag_prevented_dedup_chunks {} vs new_chunks {}, defrag_prevented_dedup_bytes {} vs new_bytes {}",
            m.defrag_prevented_dedup_chunks, m.new_chunks, m.defrag_prevented_dedup_bytes, m.new_bytes
        ));
    }
    if (m.defrag_prevented_dedup_bytes == 0) != (m.defrag_prevented_dedup_chunks == 0) || (m.new_bytes == 0) != (m.new_chunks == 0) || (m.deduped_bytes == 0) != (m.deduped_chunks == 0) {
        bad.push(format!(
            "byte and chunk counters disagree about being zero: new {}/{}, deduped {}/{}, withheld {}/{} (bytes/chunks; every chunk has >= 8 bytes)",
            m.new_bytes, m.new_chunks, m.deduped_bytes, m.deduped_chunks, m.defrag_prevented_dedup_bytes, m.defrag_prevented_dedup_chunks
        ));
    }
    if m.deduped_bytes_by_global_dedup > m.total_bytes || m.deduped_chunks_by_global_dedup > m.total_chunks || (!restarted && (m.deduped_bytes_by_global_dedup != 0 || m.deduped_chunks_by_global_dedup != 0)) {
        bad.push(format!(
            "deduped_by_global_dedup = {} bytes / {} chunks of {} / {} in total, store {} announced new shards",
            m.deduped_bytes_by_global_dedup, m.deduped_chunks_by_global_dedup, m.total_bytes, m.total_chunks, if restarted { "has" } else { "never" }
        ));
    }
    // opt-in (not part of C14 as stated; violated on HEAD: a second-pass hit is counted before the fragmentation prevention decides)
    if std::env::var("VERIF_C14_GLOBAL_LE_DEDUPED").is_ok() && (m.deduped_bytes_by_global_dedup > m.deduped_bytes || m.deduped_chunks_by_global_dedup > m.deduped_chunks) {
        bad.push(format!(
            "deduped_by_global_dedup ({} chunks / {} bytes) exceeds deduped ({} chunks / {} bytes)",
            m.deduped_chunks_by_global_dedup, m.deduped_bytes_by_global_dedup, m.deduped_chunks, m.deduped_bytes
        ));
    }
    if m.xorb_bytes_uploaded != 0 || m.shard_bytes_uploaded != 0 || m.total_bytes_uploaded != 0 {
        bad.push(format!("the deduper reports uploads ({} xorb / {} shard / {} total bytes) although it uploads nothing", m.xorb_bytes_uploaded, m.shard_bytes_uploaded, m.total_bytes_uploaded));
    }
    bad
}

#[derive(Clone)]
struct Case {
    name: String,
    file: Vec<Chunk>,
    remote: Vec<Vec<Chunk>>,
    late: Vec<Vec<Chunk>>,
    blocks: Vec<usize>, // 0 = empty call
    caps: Vec<usize>,
    restart: bool,
}

#[derive(Default)]
struct Cov {
    withheld: usize,
    deduped: usize,
    global: usize,
    restarts: usize,
    cuts: usize,
    files_with_withheld_and_later_dedup: usize,
}

fn panic_msg(e: Box<dyn std::any::Any + Send>) -> String {
    e.downcast_ref::<String>().cloned().or_else(|| e.downcast_ref::<&str>().map(|s| s.to_string())).unwrap_or_default()
}

fn run(c: &Case, cov: &mut Cov) -> Option<String> {
    let what = format!(
        "{} [file of {} chunks fed in blocks {:?} (0 = empty call), {} stored xorbs, {} arriving xorbs, store answers capped at {:?}, restarts {}]",
        c.name, c.file.len(), c.blocks, c.remote.len(), c.late.len(), c.caps, if c.restart { "on" } else { "off" }
    );
    let store = Arc::new(Mutex::new(Store::default()));
    let mut known: HashSet<MerkleHash> = HashSet::new();
    {
        let mut s = store.lock().unwrap();
        s.caps = c.caps.clone();
        for (k, r) in c.remote.iter().enumerate() {
            s.add(compute_data_hash(format!("remote{k}").as_bytes()), r.iter().map(|c| (c.hash, c.data.len())).collect());
            known.extend(r.iter().map(|c| c.hash));
        }
        for (k, r) in c.late.iter().enumerate() {
            s.late.push_back((compute_data_hash(format!("late{k}").as_bytes()), r.iter().map(|c| (c.hash, c.data.len())).collect()));
            known.extend(r.iter().map(|c| c.hash));
        }
    }
    // chunks that nobody has seen before their position in the file: they must be new and cannot count as withheld from dedup
    let (mut first_chunks, mut first_bytes) = (0usize, 0usize);
    for ch in &c.file {
        if known.insert(ch.hash) {
            first_chunks += 1;
            first_bytes += ch.data.len();
        }
    }
    let rt = tokio::runtime::Builder::new_current_thread().build().unwrap();
    let mut d = FileDeduper::new(Mock { store: store.clone(), outstanding: 0, restart: c.restart });
    let mut sum = DeduplicationMetrics::default();
    let mut sum_ref = [0usize; 13];
    let (mut pos, mut k) = (0usize, 0usize);
    let mut withheld_then_dedup = false;
    while pos < c.file.len() {
        let n = c.blocks[k % c.blocks.len()].min(c.file.len() - pos);
        k += 1;
        let b = &c.file[pos..pos + n];
        let m = match catch_unwind(AssertUnwindSafe(|| rt.block_on(d.process_chunks(b)))) {
            Ok(Ok(m)) => m,
            Ok(Err(e)) => return Some(format!("{what}: process_chunks failed on chunks [{pos}, {}): {e}", pos + n)),
            Err(e) => return Some(format!("{what}: process_chunks panicked on chunks [{pos}, {}): {}", pos + n, panic_msg(e))),
        };
        let restarted = store.lock().unwrap().restarts > 0;
        let bad = laws(&m, n, b.iter().map(|c| c.data.len()).sum(), restarted);
        if !bad.is_empty() {
            return Some(format!("{what}: the metrics returned by process_chunks for chunks [{pos}, {}): {}", pos + n, bad.join("; ")));
        }
        if sum.defrag_prevented_dedup_chunks > 0 && m.deduped_chunks > 0 {
            withheld_then_dedup = true;
        }
        sum.merge_in(&m);
        for (a, b) in sum_ref.iter_mut().zip(fields(&m)) {
            *a += b;
        }
        if fields(&sum) != sum_ref {
            return Some(format!("{what}: DeduplicationMetrics::merge_in is not the field-wise sum: {:?} vs {:?}", fields(&sum), sum_ref));
        }
        pos += n;
    }
    let (_h, agg, m, xorbs) = match catch_unwind(AssertUnwindSafe(|| d.finalize([0u8; 32], None))) {
        Ok(r) => r,
        Err(e) => return Some(format!("{what}: finalize panicked: {}", panic_msg(e))),
    };
    let s = store.lock().unwrap();
    let fed_bytes: usize = c.file.iter().map(|c| c.data.len()).sum();
    let mut bad = laws(&m, c.file.len(), fed_bytes, s.restarts > 0);
    if fields(&m) != sum_ref {
        let i = (0..13).find(|&i| fields(&m)[i] != sum_ref[i]).unwrap();
        bad.push(format!("file metrics differ from the sum of the per-call metrics: {} = {} vs {}", FIELD_NAMES[i], fields(&m)[i], sum_ref[i]));
    }
    let seg_bytes = agg.pending_file_info[0].0.file_size();
    if seg_bytes != fed_bytes {
        bad.push(format!("segment bytes {} != fed bytes {}", seg_bytes, fed_bytes));
    }
    let (stored_chunks, stored_bytes) = (s.new_chunks + agg.num_chunks(), s.new_bytes + agg.num_bytes());
    if m.new_chunks != stored_chunks || m.new_bytes != stored_bytes {
        bad.push(format!("new_chunks {} / new_bytes {} but {} chunks / {} bytes went into the {} registered xorbs and the remaining-data aggregator", m.new_chunks, m.new_bytes, stored_chunks, stored_bytes, xorbs.len()));
    }
    if m.new_chunks < first_chunks || m.new_bytes < first_bytes {
        bad.push(format!("new_chunks {} / new_bytes {} although {first_chunks} chunks / {first_bytes} bytes of the file were never seen before", m.new_chunks, m.new_bytes));
    } else if m.defrag_prevented_dedup_chunks > m.new_chunks - first_chunks || m.defrag_prevented_dedup_bytes > m.new_bytes - first_bytes {
        bad.push(format!(
            "defrag_prevented_dedup_chunks {} / bytes {} but only {} new chunks / {} new bytes were known anywhere before (new {} / {}, of which {first_chunks} / {first_bytes} never seen before)",
            m.defrag_prevented_dedup_chunks, m.defrag_prevented_dedup_bytes, m.new_chunks - first_chunks, m.new_bytes - first_bytes, m.new_chunks, m.new_bytes
        ));
    }
    cov.withheld += m.defrag_prevented_dedup_chunks;
    cov.deduped += m.deduped_chunks;
    cov.global += m.deduped_chunks_by_global_dedup;
    cov.restarts += s.restarts;
    cov.cuts += xorbs.len();
    cov.files_with_withheld_and_later_dedup += withheld_then_dedup as usize;
    if bad.is_empty() {
        None
    } else {
        Some(format!("{what}: {}; defrag_prevented_dedup_chunks={}", bad.join("; "), m.defrag_prevented_dedup_chunks))
    }
}

struct Gen {
    tag: u64,
    xorb: usize,
}
impl Gen {
    fn fresh(&mut self, n: usize, len: usize) -> Vec<Chunk> {
        (0..n).map(|k| { self.tag += 1; chunk(self.tag, len + k % 5) }).collect()
    }
    fn eligible(&mut self) -> Chunk {
        loop {
            self.tag += 1;
            let c = chunk(self.tag, 77);
            if mdb_shard::hash_is_global_dedup_eligible(&c.hash) {
                return c;
            }
        }
    }
}

/// `pairs` x ([k new chunks][a stored run of `run` chunks, each run in its own xorb])
fn fragmented(g: &mut Gen, remote: &mut Vec<Vec<Chunk>>, pairs: usize, k: usize, run: usize) -> Vec<Chunk> {
    let mut f = vec![];
    for _ in 0..pairs {
        f.extend(g.fresh(k, 100));
        let r = g.fresh(run, 200);
        g.xorb += 1;
        f.extend(r.iter().cloned());
        remote.push(r);
    }
    f
}

/// behavioural check that the private fragmentation constants were picked up
fn probe(cfg: (usize, f32, f32, usize)) -> Result<(), String> {
    let (n, m, h, _) = cfg;
    let mut g = Gen { tag: 1 << 50, xorb: 0 };
    let mut remote = vec![];
    let cpr = if n == 1 { 3.0 } else { 2.0 };
    let pairs = if m * h > cpr { n + 4 } else { 80 };
    let file = fragmented(&mut g, &mut remote, pairs, 3, 1);
    let mut cov = Cov::default();
    let c = Case { name: "probe".into(), file, remote, late: vec![], blocks: vec![usize::MAX], caps: vec![], restart: false };
    if let Some(w) = run(&c, &mut cov) {
        println!("WITNESS {w}");
        std::process::exit(1);
    }
    // with [3 new][1 stored] ranges the window holds 2 chunks per range (3 for a window of one range): refusals start once the window is full (n ranges) iff the
    // low threshold m*h exceeds 2; with the defaults (128 ranges) a file of fewer than 64 pairs is never refused anything
    if (m * h > cpr) != (cov.withheld > 0) {
        return Err(format!("{pairs} x ([3 new][1 stored chunk]): {} chunks withheld from dedup, expected {}", cov.withheld, if m * h > cpr { "some" } else { "none" }));
    }
    Ok(())
}

fn child(idx: usize) -> i32 {
    let cfg = CONFIGS[idx];
    let (nr, minc, hyst, maxc) = cfg.unwrap_or((128, 8.0, 0.5, 8192));
    if *MAX_XORB_CHUNKS != maxc {
        println!("infrastructure: HF_XET_MAX_XORB_CHUNKS={maxc} was not picked up (value {})", *MAX_XORB_CHUNKS);
        return 2;
    }
    if let Some(c) = cfg {
        if let Err(e) = probe(c) {
            println!("infrastructure: the fragmentation constants {c:?} do not seem to be in force: {e}");
            return 2;
        }
    }
    let seed: u64 = std::env::var("VERIF_SEED").ok().and_then(|s| s.parse().ok()).unwrap_or(0);
    let mut g = Gen { tag: (idx as u64 + 1) << 40, xorb: 0 };
    let mut cases: Vec<Case> = vec![];
    let base = Case { name: String::new(), file: vec![], remote: vec![], late: vec![], blocks: vec![usize::MAX], caps: vec![], restart: false };
    let thr = (minc.ceil() as usize).max(2); // a stored run at least this long is never refused

    // A. the two original scenarios (default constants: 64+ pairs needed; scaled by the window length otherwise)
    for run_len in [2usize, 3, 5] {
        for n_pairs in [nr / 2 + 6, nr + 12] {
            for tail in [1usize, 2] {
                let mut remote = vec![];
                let mut f = fragmented(&mut g, &mut remote, n_pairs, run_len, run_len);
                let t = g.fresh(tail, 300);
                f.extend(t.iter().cloned());
                remote.push(t);
                f.extend(g.fresh(3, 400));
                let mut c = base.clone();
                c.name = format!("{n_pairs} x ({run_len} new chunks, a stored run of {run_len}) then a stored run of {tail} then 3 new");
                c.file = f;
                c.remote = remote;
                cases.push(c);
            }
        }
    }
    for (long, short) in [(4usize, 3usize), (6, 5), (3, 2)] {
        for reps in [2usize, 3] {
            let mut remote = vec![];
            let mut f = vec![];
            for _ in 0..nr / 2 {
                let a = g.fresh(long, 100);
                let b = g.fresh(short, 100);
                f.extend(a.iter().cloned());
                f.extend(b.iter().cloned());
                remote.push(a);
                remote.push(b);
            }
            let r = g.fresh(short, 100);
            for _ in 0..reps {
                f.extend(r.iter().cloned());
            }
            remote.push(r);
            let mut c = base.clone();
            c.name = format!("{} x (stored run of {long}, stored run of {short}) then {reps} x the same stored run of {short}", nr / 2);
            c.file = f;
            c.remote = remote;
            cases.push(c);
        }
    }
    // B. hysteresis: fragmented phase (refusals start), a long stretch of new data (chunks per range rises above the target: dedup
    //    allowed again at the low threshold), fragmented again, a long stored run (never refused), the SAME short stored runs offered
    //    while refusing and again after recovery, in-xorb repeats of chunks stored while refusing
    for (k, run_len) in [(3usize, 1usize), (5, 2), (1, 1), (7, 3)] {
        let mut remote = vec![];
        let mut f = fragmented(&mut g, &mut remote, nr + 6, k, run_len);
        let x = g.fresh(run_len, 210);
        let y = g.fresh(thr + 3, 220);
        f.extend(g.fresh(2, 100));
        f.extend(x.iter().cloned()); // offered while refusing
        f.extend(g.fresh(2, 100));
        f.extend(y.iter().cloned()); // long run: accepted whatever the state
        f.extend(g.fresh(nr * thr + 5, 100)); // recovery
        f.extend(x.iter().cloned()); // offered again
        f.extend(fragmented(&mut g, &mut remote, nr / 2 + 3, k, run_len));
        let back = f.len();
        f.extend(f[back - 2 * (k + run_len)..back - (k + run_len)].to_vec()); // repeat of one (new, stored) period
        f.extend(fragmented(&mut g, &mut remote, nr + 3, k, run_len));
        f.extend(x.iter().cloned());
        f.extend(y[1..].iter().cloned());
        remote.push(x);
        remote.push(y);
        let mut c = base.clone();
        c.name = format!(
            "hysteresis: {} x ({k} new, stored run of {run_len}), 2 new, stored run X of {run_len}, 2 new, stored run Y of {}, {} new chunks, X again, {} more periods, one period repeated, {} more periods, X, Y[1..]",
            nr + 6, thr + 3, nr * thr + 5, nr / 2 + 3, nr + 3
        );
        c.file = f;
        c.remote = remote;
        cases.push(c);
    }
    // C. in-xorb repeats as the only source of dedup (fragmented), across xorb cuts
    {
        let a = g.fresh(3 * nr + 20 + thr, 100);
        let mut f = a.clone();
        for j in 0..nr + 10 {
            f.extend(g.fresh(3, 110));
            f.push(a[2 * j + 1].clone());
        }
        for j in 0..nr + 10 {
            f.push(a[2 * j].clone());
            f.push(a[2 * j + 1].clone());
            f.extend(g.fresh(1, 120));
        }
        f.extend(a[5..5 + thr + 2].iter().cloned());
        let mut c = base.clone();
        c.name = format!("{} new chunks A, {} x (3 new, A[2j+1]), {} x (A[2j], A[2j+1], 1 new), A[5..{}]", a.len(), nr + 10, nr + 10, 5 + thr + 2);
        c.file = f;
        cases.push(c);
    }
    // D. global dedup restart: hash-eligible chunks inside a fragmented history; the arriving shards hold stretches of the file
    {
        let mut remote = vec![];
        let mut f = vec![];
        let mut late = vec![];
        for j in 0..nr + 8 {
            let start = f.len();
            f.push(g.eligible());
            f.extend(g.fresh(2, 100));
            if j % 2 == 0 {
                late.push(f[start..start + 1 + j % 3].to_vec());
            }
            let r = g.fresh(1 + j % 2, 200);
            f.extend(r.iter().cloned());
            remote.push(r);
        }
        let mut c = base.clone();
        c.name = format!("{} x (hash-eligible chunk, 2 new, stored run of 1 or 2); every other period's first 1-3 chunks arrive in a shard on a restart", nr + 8);
        c.file = f;
        c.remote = remote;
        c.late = late;
        c.restart = true;
        cases.push(c);
    }
    // F. a chunk-limit cut, then a fragmented history of repeats of chunks of the cut xorb (answered by the store) and of the
    //    pending xorb (answered locally)
    {
        let a = g.fresh(maxc + 2 * nr + 30, 100);
        let mut f = a.clone();
        for j in 0..nr + 10 {
            f.extend(g.fresh(3, 110));
            f.push(a[(7 * j) % maxc].clone());
            f.extend(g.fresh(2, 110));
            f.push(a[maxc + j].clone());
        }
        f.extend(a[maxc.saturating_sub(thr)..maxc + 3].iter().cloned());
        let mut c = base.clone();
        c.name = format!("MAX_XORB_CHUNKS + {} new chunks A, {} x (3 new, A[7j mod MAX_XORB_CHUNKS] (cut xorb), 2 new, A[MAX_XORB_CHUNKS + j] (pending xorb)), A[MAX-{thr}..MAX+3]", 2 * nr + 30, nr + 10);
        c.file = f;
        cases.push(c);
    }
    let mut cov = Cov::default();
    for c in &cases {
        for blocks in [vec![usize::MAX], vec![1usize], vec![7], vec![3, 0, 50, 1]] {
            for caps in [vec![], vec![1]] {
                if !caps.is_empty() && blocks.len() == 1 && blocks[0] == 7 {
                    continue;
                }
                let mut c = c.clone();
                c.blocks = blocks.clone();
                c.caps = caps;
                if let Some(w) = run(&c, &mut cov) {
                    println!("WITNESS [fragmentation window {nr} ranges, MIN_N_CHUNKS_PER_RANGE {minc}, hysteresis {hyst}, MAX_XORB_CHUNKS {maxc}] {w}");
                    return 1;
                }
            }
        }
    }
    let directed = (cov.withheld, cov.files_with_withheld_and_later_dedup);
    // E. random files (VERIF_SEED)
    let mut rng = StdRng::seed_from_u64(seed.wrapping_mul(7919).wrapping_add(idx as u64));
    let elig: Vec<Chunk> = (0..10).map(|_| g.eligible()).collect();
    let rounds = if cfg.is_none() { 60 } else { 250 };
    for round in 0..rounds {
        let remote: Vec<Vec<Chunk>> = (0..rng.random_range(1..6)).map(|_| { let n = rng.random_range(1..14); g.fresh(n, 150) }).collect();
        let mut f: Vec<Chunk> = vec![];
        let mut late: Vec<Vec<Chunk>> = vec![];
        let ops = if cfg.is_none() { rng.random_range(150..500) } else { rng.random_range(1..(6 * nr + 30)) };
        let style = rng.random_range(0..3); // 0 short pieces, 1 mixed, 2 with long stretches
        let mut desc = String::new();
        for _ in 0..ops {
            let long = style == 2 && rng.random_range(0..12) == 0;
            let op = rng.random_range(0..8);
            match op {
                0..=2 => {
                    let n = if long { rng.random_range(10..(nr * thr / 2 + 12)) } else { rng.random_range(1..(2 + 3 * style)) };
                    f.extend(g.fresh(n, 100));
                    if desc.len() < 300 { desc.push_str(&format!(" new{n}")); }
                },
                3 | 4 => {
                    let x = rng.random_range(0..remote.len());
                    let a = rng.random_range(0..remote[x].len());
                    let b = if style == 0 { a + 1 } else { rng.random_range(a + 1..=remote[x].len()) };
                    f.extend(remote[x][a..b].iter().cloned());
                    if desc.len() < 300 { desc.push_str(&format!(" R{x}[{a}..{b}]")); }
                },
                5 | 6 if !f.is_empty() => {
                    let a = rng.random_range(0..f.len());
                    let b = rng.random_range(a + 1..=f.len().min(a + 1 + 3 * style));
                    let v = f[a..b].to_vec();
                    f.extend(v);
                    if desc.len() < 300 { desc.push_str(&format!(" self[{a}..{b}]")); }
                },
                7 => {
                    f.push(elig[rng.random_range(0..elig.len())].clone());
                    if rng.random_range(0..3) == 0 && f.len() > 3 {
                        late.push(f[f.len() - 3..].to_vec());
                    }
                    if desc.len() < 300 { desc.push_str(" E"); }
                },
                _ => f.extend(g.fresh(1, 100)),
            }
        }
        let mut c = base.clone();
        c.name = format!("random file #{round} (VERIF_SEED={seed}):{desc}{}", if desc.len() >= 300 { " ..." } else { "" });
        c.file = f;
        c.remote = remote;
        c.late = late;
        c.restart = rng.random_range(0..2) == 0;
        c.blocks = match rng.random_range(0..5) { 0 => vec![usize::MAX], 1 => vec![1], 2 => vec![0, 2, 9], _ => (0..rng.random_range(1..4)).map(|_| rng.random_range(1..40)).collect() };
        c.caps = match rng.random_range(0..3) { 0 => vec![1], 1 => vec![2, usize::MAX], _ => vec![] };
        if let Some(w) = run(&c, &mut cov) {
            println!("WITNESS [fragmentation window {nr} ranges, MIN_N_CHUNKS_PER_RANGE {minc}, hysteresis {hyst}, MAX_XORB_CHUNKS {maxc}] {w}");
            return 1;
        }
    }
    if std::env::var("VERIF_STATS").is_ok() {
        println!(
            "STATS config {cfg:?}: {} directed cases, {rounds} random; withheld {} chunks (directed {}), deduped {}, by global dedup {}, restarts {}, xorb cuts {}, files with refusals followed by accepted dedup {} (directed {})",
            cases.len(), cov.withheld, directed.0, cov.deduped, cov.global, cov.restarts, cov.cuts, cov.files_with_withheld_and_later_dedup, directed.1
        );
    }
    let can_refuse = minc * hyst > 1.0;
    if cov.deduped == 0 || cov.restarts == 0 || cov.global == 0 || (can_refuse && (directed.0 == 0 || directed.1 == 0)) {
        println!("infrastructure: the scenarios did not reach what they are built for (withheld {}, refusal-then-dedup files {}, deduped {}, restarts {}, by global dedup {})", directed.0, directed.1, cov.deduped, cov.restarts, cov.global);
        return 2;
    }
    0
}

fn check_merge_in() -> Option<String> {
    // merge_in of metrics == field-wise sums, on values that tell the fields apart
    let mk = |k: usize| DeduplicationMetrics {
        total_bytes: 1009 * k + 1, deduped_bytes: 1013 * k + 2, new_bytes: 1019 * k + 3, deduped_bytes_by_global_dedup: 1021 * k + 4, defrag_prevented_dedup_bytes: 1031 * k + 5,
        total_chunks: 1033 * k + 6, deduped_chunks: 1039 * k + 7, new_chunks: 1049 * k + 8, deduped_chunks_by_global_dedup: 1051 * k + 9, defrag_prevented_dedup_chunks: 1061 * k + 10,
        xorb_bytes_uploaded: 1063 * k + 11, shard_bytes_uploaded: 1069 * k + 12, total_bytes_uploaded: 1087 * k + 13,
    };
    let mut acc = DeduplicationMetrics::default();
    if fields(&acc) != [0usize; 13] {
        return Some(format!("DeduplicationMetrics::default() is not all zero: {:?}", fields(&acc)));
    }
    let mut want = [0usize; 13];
    for k in [1usize, 0, 5, 977, 1 << 30] {
        let m = mk(k);
        let before = fields(&m);
        acc.merge_in(&m);
        for (a, b) in want.iter_mut().zip(before) {
            *a += b;
        }
        if fields(&acc) != want || fields(&m) != before {
            let i = (0..13).find(|&i| fields(&acc)[i] != want[i]).unwrap_or(0);
            return Some(format!("DeduplicationMetrics::merge_in: after merging the value built from k={k}, field {} is {} but the sum of the merged values is {}", FIELD_NAMES[i], fields(&acc)[i], want[i]));
        }
    }
    None
}

fn main() {
    let args: Vec<String> = std::env::args().collect();
    if args.len() == 3 && args[1] == "--child" {
        let idx: usize = args[2].parse().unwrap();
        let rc = catch_unwind(|| child(idx)).unwrap_or_else(|e| {
            println!("WITNESS [configuration {:?}] the search itself panicked outside a guarded call: {}", CONFIGS[idx], panic_msg(e));
            1
        });
        std::process::exit(rc);
    }
    if let Some(w) = check_merge_in() {
        println!("WITNESS {w}");
        std::process::exit(1);
    }
    let exe = std::env::current_exe().unwrap();
    const VARS: [&str; 4] = ["HF_XET_NRANGES_IN_STREAMING_FRAGMENTATION_ESTIMATOR", "HF_XET_MIN_N_CHUNKS_PER_RANGE", "HF_XET_MIN_N_CHUNKS_PER_RANGE_HYSTERESIS_FACTOR", "HF_XET_MAX_XORB_CHUNKS"];
    let handles: Vec<_> = (0..CONFIGS.len())
        .map(|i| {
            let mut cmd = std::process::Command::new(&exe);
            cmd.arg("--child").arg(i.to_string()).stdout(std::process::Stdio::piped()).stderr(std::process::Stdio::piped());
            for v in VARS {
                cmd.env_remove(v);
            }
            if let Some((n, m, h, c)) = CONFIGS[i] {
                cmd.env(VARS[0], n.to_string()).env(VARS[1], m.to_string()).env(VARS[2], h.to_string()).env(VARS[3], c.to_string());
            }
            let c = cmd.spawn().expect("spawn child");
            std::thread::spawn(move || c.wait_with_output())
        })
        .collect();
    let mut witness: Option<String> = None;
    let mut trouble: Option<String> = None;
    for (i, h) in handles.into_iter().enumerate() {
        let out = h.join().unwrap().expect("child output");
        let stdout = String::from_utf8_lossy(&out.stdout).to_string();
        stdout.lines().filter(|l| l.starts_with("STATS")).for_each(|l| println!("{l}"));
        match out.status.code() {
            Some(0) => {},
            Some(1) => witness = witness.or(stdout.lines().find(|l| l.starts_with("WITNESS")).map(|s| s.to_string())),
            Some(2) => trouble = trouble.or(Some(stdout)),
            _ => {
                let err = String::from_utf8_lossy(&out.stderr);
                let tail: Vec<&str> = err.lines().rev().take(4).collect();
                witness = witness.or(Some(format!("WITNESS configuration {:?} (fragmentation window, min chunks per range, hysteresis, MAX_XORB_CHUNKS; None = defaults): the process died ({:?}): {}", CONFIGS[i], out.status, tail.into_iter().rev().collect::<Vec<_>>().join(" | "))));
            },
        }
    }
    if let Some(w) = witness {
        println!("{w}");
        std::process::exit(1);
    }
    if let Some(t) = trouble {
        eprintln!("{t}");
        std::process::exit(2);
    }
    println!("no violation found");
}
