//! Witness search for C14 (and the size clause of C03): feed the REAL FileDeduper a fragmented dedup pattern through a
//! truthful mock store and compare the reported metrics with what was fed.
//! Prints `WITNESS <description>` and exits 1 when a conservation law is violated, exits 0 otherwise.
use std::collections::HashMap;
use std::sync::Arc;

use deduplication::{Chunk, DeduplicationDataInterface, FileDeduper, RawXorbData};
use mdb_shard::file_structs::FileDataSequenceEntry;
use merklehash::{compute_data_hash, MerkleHash};

struct MockStore {
    // first chunk hash of a stored run -> (xorb hash, start index, hashes of the xorb from that index, lengths)
    runs: HashMap<MerkleHash, (MerkleHash, usize, Vec<(MerkleHash, usize)>)>,
}

#[async_trait::async_trait]
impl DeduplicationDataInterface for MockStore {
    type ErrorType = String;
    async fn chunk_hash_dedup_query(&self, q: &[MerkleHash]) -> Result<Option<(usize, FileDataSequenceEntry)>, String> {
        if let Some((xorb, start, rest)) = self.runs.get(&q[0]) {
            let mut n = 0;
            let mut bytes = 0usize;
            while n < q.len() && n < rest.len() && rest[n].0 == q[n] {
                bytes += rest[n].1;
                n += 1;
            }
            return Ok(Some((n, FileDataSequenceEntry::new(*xorb, bytes, *start, *start + n))));
        }
        Ok(None)
    }
    async fn register_global_dedup_query(&mut self, _h: MerkleHash) -> Result<(), String> {
        Ok(())
    }
    async fn complete_global_dedup_queries(&mut self) -> Result<bool, String> {
        Ok(false)
    }
    async fn register_new_xorb(&mut self, _x: RawXorbData) -> Result<(), String> {
        Ok(())
    }
}

fn chunk(tag: u64, len: usize) -> Chunk {
    let mut d = vec![0u8; len];
    d[..8].copy_from_slice(&tag.to_le_bytes());
    Chunk { hash: compute_data_hash(&d), data: Arc::from(d) }
}

fn run_case(run_len: usize, n_pairs: usize, tail_dedup_len: usize, block: usize) -> Option<String> {
    let mut store = MockStore { runs: HashMap::new() };
    let mut file: Vec<Chunk> = Vec::new();
    let mut tag = 1u64;
    let mut mk = |len: usize| {
        tag += 1;
        chunk(tag, len)
    };
    for i in 0..n_pairs {
        // a stored run of `run_len` chunks in its own xorb
        let run: Vec<Chunk> = (0..run_len).map(|k| mk(100 + k)).collect();
        let xorb = compute_data_hash(format!("xorb{i}").as_bytes());
        let hl: Vec<_> = run.iter().map(|c| (c.hash, c.data.len())).collect();
        store.runs.insert(run[0].hash, (xorb, 0, hl));
        file.extend(run);
        for k in 0..run_len {
            file.push(mk(200 + k));
        }
    }
    // a short stored run that fragmentation prevention may reject
    let run: Vec<Chunk> = (0..tail_dedup_len).map(|k| mk(300 + k)).collect();
    let xorb = compute_data_hash(b"xorb-tail");
    let hl: Vec<_> = run.iter().map(|c| (c.hash, c.data.len())).collect();
    store.runs.insert(run[0].hash, (xorb, 0, hl));
    file.extend(run);
    for k in 0..3 {
        file.push(mk(400 + k));
    }

    let fed_bytes: usize = file.iter().map(|c| c.data.len()).sum();
    let fed_chunks = file.len();
    let rt = tokio::runtime::Builder::new_current_thread().build().unwrap();
    let mut deduper = FileDeduper::new(store);
    let mut sum = deduplication::DeduplicationMetrics::default();
    for b in file.chunks(block) {
        let m = rt.block_on(deduper.process_chunks(b)).unwrap();
        sum.merge_in(&m);
    }
    let (_h, agg, m, _x) = deduper.finalize([0u8; 32], None);
    let seg_bytes = agg.pending_file_info[0].0.file_size();
    let mut bad = vec![];
    if m.total_bytes != fed_bytes {
        bad.push(format!("total_bytes={} but {} bytes were fed", m.total_bytes, fed_bytes));
    }
    if m.total_chunks != fed_chunks {
        bad.push(format!("total_chunks={} but {} chunks were fed", m.total_chunks, fed_chunks));
    }
    if m.new_bytes + m.deduped_bytes != m.total_bytes {
        bad.push(format!("new_bytes {} + deduped_bytes {} != total_bytes {}", m.new_bytes, m.deduped_bytes, m.total_bytes));
    }
    if m.new_chunks + m.deduped_chunks != m.total_chunks {
        bad.push(format!("new_chunks {} + deduped_chunks {} != total_chunks {}", m.new_chunks, m.deduped_chunks, m.total_chunks));
    }
    if m.defrag_prevented_dedup_bytes > m.new_bytes {
        bad.push(format!("defrag_prevented_dedup_bytes {} > new_bytes {}", m.defrag_prevented_dedup_bytes, m.new_bytes));
    }
    if seg_bytes != fed_bytes {
        bad.push(format!("segment bytes {} != fed bytes {}", seg_bytes, fed_bytes));
    }
    if sum.total_bytes != m.total_bytes {
        bad.push(format!("sum of per-call metrics {} != file metrics {}", sum.total_bytes, m.total_bytes));
    }
    if bad.is_empty() {
        None
    } else {
        Some(format!(
            "FileDeduper fed {n_pairs} x ({run_len} stored chunks, {run_len} fresh chunks) then a stored run of {tail_dedup_len} then 3 fresh, in blocks of {block}: {}; defrag_prevented_dedup_chunks={}",
            bad.join("; "),
            m.defrag_prevented_dedup_chunks
        ))
    }
}


/// Scenario 2: the fragmentation window is filled by accepted dedup ranges only (no new data), then a short stored run that
/// is rejected appears twice, so that its second appearance is also found in the file's own new data.
fn run_case_repeat(long: usize, short: usize, reps: usize, block: usize) -> Option<String> {
    let mut store = MockStore { runs: HashMap::new() };
    let mut file: Vec<Chunk> = Vec::new();
    let mut tag = 1_000_000u64;
    let mut mk = |len: usize| {
        tag += 1;
        chunk(tag, len)
    };
    let mut add_run = |store: &mut MockStore, name: String, n: usize, mk: &mut dyn FnMut(usize) -> Chunk| -> Vec<Chunk> {
        let run: Vec<Chunk> = (0..n).map(|k| mk(100 + k)).collect();
        let xorb = compute_data_hash(name.as_bytes());
        let hl: Vec<_> = run.iter().map(|c| (c.hash, c.data.len())).collect();
        store.runs.insert(run[0].hash, (xorb, 0, hl));
        run
    };
    for i in 0..64 {
        file.extend(add_run(&mut store, format!("a{i}"), long, &mut mk));
        file.extend(add_run(&mut store, format!("b{i}"), short, &mut mk));
    }
    let r = add_run(&mut store, "r".to_string(), short, &mut mk);
    for _ in 0..reps {
        file.extend(r.iter().cloned());
    }
    let fed_bytes: usize = file.iter().map(|c| c.data.len()).sum();
    let rt = tokio::runtime::Builder::new_current_thread().build().unwrap();
    let mut deduper = FileDeduper::new(store);
    for b in file.chunks(block) {
        rt.block_on(deduper.process_chunks(b)).unwrap();
    }
    let (_h, _agg, m, _x) = deduper.finalize([0u8; 32], None);
    let mut bad = vec![];
    if m.total_bytes != fed_bytes {
        bad.push(format!("total_bytes={} but {} bytes were fed", m.total_bytes, fed_bytes));
    }
    if m.new_bytes + m.deduped_bytes != m.total_bytes {
        bad.push(format!("new_bytes {} + deduped_bytes {} != total_bytes {}", m.new_bytes, m.deduped_bytes, m.total_bytes));
    }
    if m.defrag_prevented_dedup_bytes > m.new_bytes || m.defrag_prevented_dedup_chunks > m.new_chunks {
        bad.push(format!(
            "withheld-from-dedup exceeds new data: defrag_prevented_dedup_chunks {} > new_chunks {} (bytes {} vs {})",
            m.defrag_prevented_dedup_chunks, m.new_chunks, m.defrag_prevented_dedup_bytes, m.new_bytes
        ));
    }
    if bad.is_empty() {
        None
    } else {
        Some(format!(
            "FileDeduper fed 64 x (stored run of {long}, stored run of {short}) then {reps} x the same stored run of {short}, blocks of {block}: {}",
            bad.join("; ")
        ))
    }
}

fn main() {
    for (long, short) in [(4usize, 3usize), (6, 5), (3, 2)] {
        for reps in [2usize, 3] {
            for block in [10_000usize, 1] {
                if let Some(w) = run_case_repeat(long, short, reps, block) {
                    println!("WITNESS {w}");
                    std::process::exit(1);
                }
            }
        }
    }
    for run_len in [2usize, 3, 5] {
        for n_pairs in [70usize, 140] {
            for tail in [1usize, 2] {
                for block in [1usize, 7, 10_000] {
                    if let Some(w) = run_case(run_len, n_pairs, tail, block) {
                        println!("WITNESS {w}");
                        std::process::exit(1);
                    }
                }
            }
        }
    }
    println!("no violation found");
}
