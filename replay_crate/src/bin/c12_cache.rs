//! Witness search for C12 (a chunk-cache hit returns exactly the bytes that were put) and C13 (the cache's item count and
//! byte total are exact and bounded by the capacity), against the REAL `chunk_cache::DiskCache` through its public API
//! (`initialize`, `put`, `get`, `num_items`, `total_bytes`) plus direct inspection / damage of the cache directory.
//!
//! Reference model (independent of the code under test): the bytes of chunk `i` of key `k` are a fixed function of (k, i), as
//! the real client guarantees (a xorb is immutable), so overlapping and nested puts are consistent.  A hit for (k, [s,e)) must
//! return range == [s,e), data == concatenation of the model chunks s..e, offsets == their prefix sums starting at 0, and some
//! earlier put must have covered [s,e).  A miss or an error is always acceptable; wrong data, a panic or a hit for a range that
//! was never stored is not.  Accounting oracle: the regular files below the cache root, counted and summed by walking the directory.
//!
//! Scenarios (in this order; the first violation is printed as `WITNESS ...` and the program exits 1):
//!  S1 sequential histories of overlapping / nested / repeated puts and sub-range gets over several keys, chunks of 1..3000 bytes,
//!     with a huge and with a small capacity (constant eviction), re-opening the directory with the same capacity in between;
//!     after every operation num_items/total_bytes == files on disk, after every put total_bytes <= capacity; an item of
//!     exactly the capacity.
//!  S2 8 threads released together putting the SAME item (optionally subsuming smaller items, optionally with a small capacity):
//!     exactly one more item is counted, totals == files on disk, <= capacity.
//!  S3 a key with two disjoint entries A and B; A's file is deleted behind the cache's back; 2..4 threads released together
//!     `get` A (or re-`put` A): after the race and after reading back every entry, totals == files on disk, no wrap-around.
//!  S4 damage while closed, same config throughout: one flipped byte in the header / data region, truncation, extension,
//!     deletion, renaming, junk files and directories; plus the two histories in which the re-open scan does NOT load the
//!     damaged file - (a) the item is larger than the capacity, (b) the directory holds >= 2x the (lowered) capacity, every file
//!     damaged - followed by get (miss), re-put of the identical data, get.
//!  S6 8 threads doing random puts/gets of a few disjoint ranges of 5 keys under a capacity of a handful of items (3 s): every
//!     hit equals the model; after joining and reading back every entry, totals == files on disk.
//!  S7 names of every decoded length, planted while closed, one length per re-open: KEY-level directories `<p>/<name>` whose
//!     URL-safe base64 name decodes to 1..=40 bytes (zero bytes -> prefix directory "AA"; 0xFF bytes -> "__"; and, from 2 bytes on,
//!     bytes chosen so that the name starts with the 2 characters of the GENUINE key's prefix directory and sits next to it) -
//!     in particular the 44-character names ending in `==` (31 bytes, one short of a hash), `=` (32 bytes: a key with an empty
//!     prefix) and longer ones (hash + prefix bytes, UTF-8 or not); each planted directory holds a stray file and a well-formed
//!     item file.  And ITEM-level files in the genuine key directory whose name decodes to 19 / 21 / 24 bytes (a genuine item
//!     name is 20 bytes), built from the genuine item's name.  Re-open must not panic or fail, the genuine entry must still be a
//!     correct hit, the planted ranges must not be hits.  (Renaming a genuine file to another range of the same width or moving
//!     it to another key directory is NOT done here: on HEAD such a file is served - recorded finding
//!     /verif/findings/c12_renamed_same_width_served_as_hit.rs.)
//!  S8 histories through the PUBLIC `chunk_cache::get_cache` (the per-directory CacheManager; this is how cas_client::RemoteClient
//!     opens the cache) in ONE process.  (a) put through a handle from get_cache, get (hit: the entry is now marked verified), drop
//!     every handle (= cache closed), damage the item file (one bit flipped in the data region / in the header, truncated by one
//!     byte, content replaced by other bytes of the same length, deleted), get_cache for the same directory again, get: a miss or
//!     an error, never bytes that were not put; re-put, get.  Control: the same history with DiskCache::initialize.  (b) one
//!     accountant per directory across generations: get_cache + put + drop every handle; get_cache again (h2); get_cache a third
//!     time while h2 is alive (h3); 40 puts of items of a few hundred bytes alternating through h2 and h3 under a capacity of
//!     about five items: after every insertion the cache files on disk total <= capacity, and every item whose file is on disk is
//!     a hit through h2 AND through h3 (a file on disk that a handle does not serve is a file its instance does not track);
//!     finally h2 and h3 must be the same instance (`Arc::ptr_eq`).  Also two get_cache calls in the first generation.
//!     No file is renamed or planted here (see the recorded finding mentioned under S7).
//!  S9 API edges and histories, sequential: (a) `DiskCache::initialize` / `get_cache` with cache_size 0 (no panic) and on a
//!     directory path that does not exist yet (three levels deep); (b) eleven malformed puts (empty / inverted range, offsets too
//!     few / too many / not starting at 0 / not ending at the data length / not strictly increasing / empty) and inverted gets: no
//!     panic, counters == directory afterwards, a whole-range hit after a put that was ACCEPTED returns exactly the data and
//!     offsets put, the neighbours stay correct; (c) adjacent ranges [0,4) + [4,8): gets spanning the seam are never hits, then
//!     the encompassing [0,8) replaces both, then nested [2,6) adds nothing; (d) a re-put of a cached range with DIFFERENT bytes
//!     of the same lengths, and of a sub-range with other chunk lengths: whatever the put returns, a later hit equals what the
//!     last ACCEPTED put stored; (e) put A, fill a small cache until A's file has been evicted, re-open, put A again, get A;
//!     (f) re-open with leftovers: empty key directory, empty prefix directory, a key directory holding only a `.x.tmp` leftover,
//!     dangling symlinks / symlinks to a directory / to a genuine item file at root, prefix and key level, a copy of the genuine key
//!     directory under the prefix directory with swapped letter case.
//!     (g) a sparse file of 10 GiB + 1 byte (beyond DEFAULT_CHUNK_CACHE_CAPACITY) with a well-formed item name next to six valid
//!     items: the re-open may fail as a whole, but if it succeeds its counters must equal what it serves.
//!  S10 several threads read a ~9 MiB item for the FIRST time after a re-open (unverified entry) while one bit near the end of its
//!     file is flipped, started 0.3 ms apart: nobody may get a hit (the crc of the whole file is wrong); 3 rounds.
//!  S11 one key holding 3..5 ranges whose in-memory order is NOT sorted by range: every put order of the three ranges [10,12), [0,2),
//!     [5,7), two 5-range orders, and "one item loaded by a re-open, then lower / higher ranges put"; for every item of the key in
//!     turn: (i) its file deleted while the cache is open, (ii) one bit flipped while closed + re-open (list in readdir order);
//!     then get of the item, of a sub-range, a covered put of identical data, gets of the other items: miss / error for the
//!     damaged one, correct hits for the others, counters == directory afterwards - and every call RETURNS.
//!  S12 early-stop re-open: 45 items of 9 keys put under a huge capacity; re-opened with a capacity so small that the directory
//!     holds >= 2x of it (the scan stops early); every file bit-flipped (variant A) / deleted while open (variant B) / intact
//!     (variant C); then EVERYTHING is read first (all loaded entries heal or stay), then every item is put again, then read
//!     again; then 40 fresh items are put (evictions).  Judged: no panic, no lock left poisoned (a later call must not fail with
//!     an error where data was just put), no wrong data, every call returns; the totals are NOT judged (capacity changed).
//!  WATCHDOG every call into the cache code (all scenarios) is registered while it runs; a call that has not returned after 25 s
//!     is reported as `WITNESS <call> did not return within 25 s` (C12: a damaged entry turns into a miss or an error).
//!  S5 (last, can be skipped with VERIF_C12_SKIP_FOREIGN_DIRS=1) directories with foreign names inside a prefix directory.
//!
//! Deterministic inputs from VERIF_SEED (default 0); thread schedules are whatever the machine produces, so the races are
//! repeated many times (bounded by time).  VERIF_C12_ONLY=S3,S4a,... restricts the search to the named scenarios.  Exits 0 with `no violation found`, 1 with `WITNESS ...`, 2 on harness trouble.
use std::collections::HashMap;
use std::panic::{catch_unwind, AssertUnwindSafe};
use std::path::{Path, PathBuf};
use std::sync::atomic::{AtomicUsize, Ordering};
use std::sync::Arc;
use std::time::{Duration, Instant};

use cas_types::{ChunkRange, Key};
use chunk_cache::{CacheConfig, CacheRange, ChunkCache, DiskCache};
use merklehash::MerkleHash;

type W = Result<(), String>;

fn infra(msg: String) -> ! {
    eprintln!("harness failure: {msg}");
    println!("harness failure: {msg}");
    std::process::exit(2)
}

// ---------------------------------------------------------------- deterministic numbers
fn splitmix(mut z: u64) -> u64 {
    z = z.wrapping_add(0x9E3779B97F4A7C15);
    z = (z ^ (z >> 30)).wrapping_mul(0xBF58476D1CE4E5B9);
    z = (z ^ (z >> 27)).wrapping_mul(0x94D049BB133111EB);
    z ^ (z >> 31)
}
fn mix(a: u64, b: u64) -> u64 {
    splitmix(a ^ splitmix(b.wrapping_add(0x51ED)))
}
struct Rng(u64);
impl Rng {
    fn next(&mut self) -> u64 {
        self.0 = self.0.wrapping_add(0x9E3779B97F4A7C15);
        splitmix(self.0)
    }
    fn below(&mut self, n: u64) -> u64 {
        self.next() % n.max(1)
    }
}

// ---------------------------------------------------------------- reference model: what chunk i of key k is
const PREFIXES: [&str; 3] = ["default", "", "xorbs-v2"];
const SCALES: [u64; 3] = [12, 150, 3000];

fn key_of(k: u64) -> Key {
    let mut b = [0u8; 32];
    for j in 0..4 {
        b[j * 8..j * 8 + 8].copy_from_slice(&mix(k, j as u64).to_le_bytes());
    }
    let hash = MerkleHash::from_slice(&b).unwrap_or_else(|_| infra("MerkleHash::from_slice".into()));
    Key { prefix: PREFIXES[(k / 3 % 3) as usize].to_string(), hash }
}
fn chunk_len(k: u64, i: u32) -> usize {
    let h = mix(k ^ 0xC0FFEE, i as u64);
    match h & 7 {
        0 => 1,
        1 => 2,
        _ => 1 + ((h >> 8) % SCALES[(k % 3) as usize]) as usize,
    }
}
fn chunk_bytes(k: u64, i: u32) -> Vec<u8> {
    let mut x = mix(k ^ 0xDA7A, i as u64) | 1;
    (0..chunk_len(k, i))
        .map(|_| {
            x ^= x << 13;
            x ^= x >> 7;
            x ^= x << 17;
            (x >> 24) as u8
        })
        .collect()
}
/// (offsets, data) of chunks s..e of key k
fn payload(k: u64, s: u32, e: u32) -> (Vec<u32>, Vec<u8>) {
    let mut off = vec![0u32];
    let mut data = Vec::new();
    for i in s..e {
        data.extend_from_slice(&chunk_bytes(k, i));
        off.push(data.len() as u32);
    }
    (off, data)
}
/// upper bound of the size of the cache file of an item (payload plus one u32 per offset plus a count), used only to keep
/// items below the capacity
fn item_size_bound(k: u64, s: u32, e: u32) -> u64 {
    (s..e).map(|i| chunk_len(k, i) as u64).sum::<u64>() + 4 * (e - s + 2) as u64
}
fn r(s: u32, e: u32) -> ChunkRange {
    ChunkRange { start: s, end: e }
}

// ---------------------------------------------------------------- guarded calls into the code under test
fn panic_msg(p: Box<dyn std::any::Any + Send>) -> String {
    if let Some(s) = p.downcast_ref::<&str>() {
        s.to_string()
    } else if let Some(s) = p.downcast_ref::<String>() {
        s.clone()
    } else {
        "<non-string panic payload>".into()
    }
}
/// calls into the cache code that are running right now: (thread, since, description); see `start_watchdog`
static IN_FLIGHT: std::sync::Mutex<Vec<(std::thread::ThreadId, Instant, String)>> = std::sync::Mutex::new(Vec::new());
const CALL_TIMEOUT: Duration = Duration::from_secs(25);
fn start_watchdog() {
    std::thread::spawn(|| loop {
        std::thread::sleep(Duration::from_millis(250));
        let stuck = IN_FLIGHT.lock().ok().and_then(|v| v.iter().find(|c| c.1.elapsed() > CALL_TIMEOUT).map(|c| c.2.clone()));
        if let Some(what) = stuck {
            println!("WITNESS {} did not return within {} s: neither a hit, a miss nor an error", what.replace('\n', " "), CALL_TIMEOUT.as_secs());
            std::process::exit(1);
        }
    });
}
fn guarded<T>(what: &str, f: impl FnOnce() -> T) -> Result<T, String> {
    let me = std::thread::current().id();
    if let Ok(mut v) = IN_FLIGHT.lock() {
        v.push((me, Instant::now(), what.to_string()));
    }
    let r = catch_unwind(AssertUnwindSafe(f));
    if let Ok(mut v) = IN_FLIGHT.lock() {
        if let Some(i) = v.iter().rposition(|c| c.0 == me) {
            v.remove(i);
        }
    }
    r.map_err(|p| format!("{what}: the cache code panicked: {}", panic_msg(p)))
}
fn open(dir: &Path, capacity: u64, ctx: &str) -> Result<Option<DiskCache>, String> {
    let cfg = CacheConfig { cache_directory: dir.to_path_buf(), cache_size: capacity };
    match guarded(&format!("{ctx}: DiskCache::initialize(cache_size={capacity})"), || DiskCache::initialize(&cfg))? {
        Ok(c) => Ok(Some(c)),
        Err(e) => {
            eprintln!("{ctx}: initialize returned error {e}");
            Ok(None)
        },
    }
}
fn open_clean(dir: &Path, capacity: u64, ctx: &str) -> Result<DiskCache, String> {
    match open(dir, capacity, ctx)? {
        Some(c) => Ok(c),
        None => infra(format!("{ctx}: initialize failed on an undamaged directory")),
    }
}
/// put of the model bytes of (k, s..e); Ok(true) when the put succeeded
fn put(c: &dyn ChunkCache, k: u64, s: u32, e: u32, ctx: &str) -> Result<bool, String> {
    let (off, data) = payload(k, s, e);
    let key = key_of(k);
    match guarded(&format!("{ctx}: put(key#{k}, [{s},{e}), {} bytes)", data.len()), || c.put(&key, &r(s, e), &off, &data))? {
        Ok(()) => Ok(true),
        Err(err) => {
            eprintln!("{ctx}: put(key#{k}, [{s},{e})) returned error {err}");
            Ok(false)
        },
    }
}
/// get of (k, s..e) compared with the model; Ok(true) = correct hit, Ok(false) = miss or error
fn get(c: &dyn ChunkCache, k: u64, s: u32, e: u32, stored: bool, ctx: &str) -> Result<bool, String> {
    let key = key_of(k);
    let what = format!("{ctx}: get(key#{k}, [{s},{e}))");
    match guarded(&what, || c.get(&key, &r(s, e)))? {
        Ok(Some(hit)) => {
            check_hit(k, s, e, &hit, &what)?;
            if !stored {
                return Err(format!("{what} reported a hit although no put ever covered that range"));
            }
            Ok(true)
        },
        Ok(None) => Ok(false),
        Err(err) => {
            eprintln!("{what} returned error {err}");
            Ok(false)
        },
    }
}
fn check_hit(k: u64, s: u32, e: u32, hit: &CacheRange, what: &str) -> W {
    let (off, data) = payload(k, s, e);
    if hit.range != r(s, e) {
        return Err(format!("{what} hit reports range [{},{}) instead of the requested one", hit.range.start, hit.range.end));
    }
    if hit.data.as_ref() != data.as_slice() {
        let n = hit.data.len().min(data.len());
        let at = (0..n).find(|&i| hit.data[i] != data[i]);
        return Err(match at {
            Some(i) => format!(
                "{what} hit returned wrong data: {} bytes, byte {i} is 0x{:02x} but 0x{:02x} was put (chunk sizes put: {:?})",
                hit.data.len(),
                hit.data[i],
                data[i],
                (s..e).map(|i| chunk_len(k, i)).collect::<Vec<_>>()
            ),
            None => format!("{what} hit returned {} bytes but the chunks put for that range have {} bytes", hit.data.len(), data.len()),
        });
    }
    if hit.offsets.as_ref() != off.as_slice() {
        return Err(format!("{what} hit returned offsets {:?} but the chunks put give {:?}", hit.offsets, off));
    }
    Ok(())
}

// ---------------------------------------------------------------- the directory as the accounting oracle
fn files_below(root: &Path) -> Vec<(PathBuf, u64)> {
    let mut out = Vec::new();
    let mut stack = vec![root.to_path_buf()];
    while let Some(d) = stack.pop() {
        let rd = match std::fs::read_dir(&d) {
            Ok(rd) => rd,
            Err(e) => infra(format!("read_dir {d:?}: {e}")),
        };
        for ent in rd {
            let ent = ent.unwrap_or_else(|e| infra(format!("dir entry in {d:?}: {e}")));
            let md = ent.metadata().unwrap_or_else(|e| infra(format!("metadata {:?}: {e}", ent.path())));
            if md.is_dir() {
                stack.push(ent.path());
            } else {
                out.push((ent.path(), md.len()));
            }
        }
    }
    out.sort();
    out
}
fn counters(c: &DiskCache, ctx: &str) -> Result<(usize, u64), String> {
    let n = guarded(&format!("{ctx}: num_items()"), || c.num_items())?;
    let b = guarded(&format!("{ctx}: total_bytes()"), || c.total_bytes())?;
    match (n, b) {
        (Ok(n), Ok(b)) => Ok((n, b)),
        (n, b) => Err(format!("{ctx}: num_items()/total_bytes() returned an error: {:?} / {:?}", n.err(), b.err())),
    }
}
/// C13 at a quiescent point: counters == directory; after an insertion also <= capacity
fn check_accounting(c: &DiskCache, root: &Path, capacity: Option<u64>, ctx: &str) -> W {
    let (n, b) = counters(c, ctx)?;
    let files = files_below(root);
    let (dn, db) = (files.len(), files.iter().map(|f| f.1).sum::<u64>());
    if n > usize::MAX / 2 || b > u64::MAX / 2 {
        return Err(format!(
            "{ctx}: counters wrapped around: num_items()={n} total_bytes()={b} (= 2^64-{}), the directory holds {dn} files / {db} bytes",
            b.wrapping_neg()
        ));
    }
    if (n, b) != (dn, db) {
        return Err(format!("{ctx}: cache reports num_items()={n} total_bytes()={b} but the directory holds {dn} files / {db} bytes"));
    }
    if let Some(cap) = capacity {
        if b > cap {
            return Err(format!("{ctx}: total_bytes()={b} exceeds the capacity {cap} after an insertion (every item is smaller than the capacity)"));
        }
    }
    Ok(())
}

/// releases all participants at (nearly) the same instant
struct Gate(AtomicUsize, usize);
impl Gate {
    fn new(n: usize) -> Arc<Self> {
        Arc::new(Gate(AtomicUsize::new(0), n))
    }
    fn wait(&self) {
        self.0.fetch_add(1, Ordering::SeqCst);
        while self.0.load(Ordering::SeqCst) < self.1 {
            std::hint::spin_loop();
        }
    }
}
fn tmp() -> tempfile::TempDir {
    tempfile::tempdir().unwrap_or_else(|e| infra(format!("tempdir: {e}")))
}

// ---------------------------------------------------------------- S1 sequential histories
fn pick_range(rng: &mut Rng, earlier: &[(u32, u32)], max_len: u32) -> (u32, u32) {
    let fresh = |rng: &mut Rng| {
        let s = rng.below(30) as u32;
        (s, s + 1 + rng.below(max_len as u64) as u32)
    };
    if earlier.is_empty() {
        return fresh(rng);
    }
    let (ps, pe) = earlier[rng.below(earlier.len() as u64) as usize];
    match rng.below(10) {
        0..=2 => {
            // nested in an earlier put (possibly equal)
            let s = ps + rng.below((pe - ps) as u64) as u32;
            (s, s + 1 + rng.below((pe - s) as u64) as u32)
        },
        3..=4 => {
            // superset of an earlier put
            let s = ps - rng.below(ps.min(3) as u64 + 1) as u32;
            let e = pe + rng.below(4) as u32;
            (s, e.min(s + max_len).max(s + 1))
        },
        5 => {
            // straddles the end of an earlier put
            let s = ps + rng.below((pe - ps) as u64) as u32;
            (s, pe + 1 + rng.below(3) as u32)
        },
        _ => fresh(rng),
    }
}

fn s1_history(seed: u64, capacity: u64, small: bool, ops: usize) -> W {
    let dir = tmp();
    let root = dir.path();
    let name = if small { "S1 small capacity" } else { "S1 huge capacity" };
    let mut rng = Rng(mix(seed, capacity));
    let keys: Vec<u64> = (0..6).map(|j| 100 + 10 * seed + j).filter(|k| !small || k % 3 != 2).collect();
    let mut stored: HashMap<u64, Vec<(u32, u32)>> = HashMap::new();
    let covered = |stored: &HashMap<u64, Vec<(u32, u32)>>, k: u64, s: u32, e: u32| {
        stored.get(&k).map_or(false, |v| v.iter().any(|&(ps, pe)| ps <= s && e <= pe))
    };
    let mut cache = open_clean(root, capacity, name)?;
    let cap = Some(capacity);
    let (mut hits_after_put, mut puts) = (0usize, 0usize);
    for op in 0..ops {
        let k = keys[rng.below(keys.len() as u64) as usize];
        let (s, e) = pick_range(&mut rng, stored.get(&k).map_or(&[][..], |v| &v[..]), 10);
        let ctx = format!("{name} ({capacity} bytes), seed {seed}, operation {op}");
        if item_size_bound(k, s, e) > capacity {
            continue;
        }
        if put(&cache, k, s, e, &ctx)? {
            stored.entry(k).or_default().push((s, e));
            puts += 1;
        }
        check_accounting(&cache, root, cap, &format!("{ctx}, after put(key#{k}, [{s},{e}))"))?;
        // sub-range of what was just put
        let s2 = s + rng.below((e - s) as u64) as u32;
        let e2 = s2 + 1 + rng.below((e - s2) as u64) as u32;
        if get(&cache, k, s2, e2, covered(&stored, k, s2, e2), &ctx)? {
            hits_after_put += 1;
        }
        // sub-range of something put earlier, and an arbitrary range
        let k3 = keys[rng.below(keys.len() as u64) as usize];
        let (s3, e3) = pick_range(&mut rng, stored.get(&k3).map_or(&[][..], |v| &v[..]), 12);
        get(&cache, k3, s3, e3, covered(&stored, k3, s3, e3), &ctx)?;
        if let Some(v) = stored.get(&k3) {
            let (ps, pe) = v[rng.below(v.len() as u64) as usize];
            get(&cache, k3, ps, pe, true, &ctx)?;
        }
        check_accounting(&cache, root, None, &format!("{ctx}, after gets"))?;
        if op % 97 == 96 {
            drop(cache);
            cache = open_clean(root, capacity, &ctx)?;
            check_accounting(&cache, root, cap, &format!("{ctx}, after re-opening the directory with the same capacity"))?;
        }
    }
    eprintln!("{name}: {puts} puts, {hits_after_put} hits right after a put");
    if puts > 0 && hits_after_put == 0 {
        infra(format!("{name}: no get ever hit, the search is vacuous"));
    }
    Ok(())
}

fn s1_item_of_exactly_the_capacity(seed: u64) -> W {
    let k = 200 + 3 * seed + 2;
    let probe = tmp();
    let c = open_clean(probe.path(), 1 << 30, "S1 exact")?;
    put(&c, k, 2, 9, "S1 exact probe")?;
    let files = files_below(probe.path());
    if files.len() != 1 {
        infra("S1 exact: probe put did not leave exactly one file".into());
    }
    let cap = files[0].1;
    let dir = tmp();
    let ctx = format!("S1 capacity {cap} == size of item key#{k} [2,9)");
    let c = open_clean(dir.path(), cap, &ctx)?;
    for (s, e) in [(0, 1), (12, 14), (2, 9), (20, 21), (2, 9), (3, 5)] {
        put(&c, k, s, e, &ctx)?;
        check_accounting(&c, dir.path(), Some(cap), &format!("{ctx}, after put [{s},{e})"))?;
        get(&c, k, s, e, true, &ctx)?;
    }
    // the directory now holds (at most) the item of exactly the capacity: re-open with the same capacity, go on
    put(&c, k, 2, 9, &ctx)?;
    drop(c);
    let ctx = format!("{ctx}; the item of exactly the capacity is put last; cache re-opened with the same capacity");
    let c = open_clean(dir.path(), cap, &ctx)?;
    check_accounting(&c, dir.path(), Some(cap), &ctx)?;
    get(&c, k, 2, 9, true, &ctx)?;
    for (s, e) in [(30, 31), (2, 9), (40, 42), (50, 51), (2, 9), (60, 61)] {
        if item_size_bound(k, s, e) > cap {
            continue; // C13's proviso: no single item larger than the capacity
        }
        let ctx = format!("{ctx}; then put [{s},{e})");
        put(&c, k, s, e, &ctx)?;
        eprintln!("S1 exact: after put [{s},{e}) ({} bytes): counters {:?}, files {:?}", item_size_bound(k, s, e), counters(&c, &ctx)?, files_below(dir.path()).iter().map(|f| f.1).collect::<Vec<_>>());
        check_accounting(&c, dir.path(), Some(cap), &ctx)?;
        get(&c, k, s, e, true, &ctx)?;
    }
    Ok(())
}

// ---------------------------------------------------------------- S2 identical concurrent puts
fn s2_same_item_from_many_threads(seed: u64, small: bool, rounds: usize) -> W {
    const THREADS: usize = 8;
    let dir = tmp();
    let root = dir.path();
    let probe_k = 1000 + 30 * seed + 1;
    let capacity = if small { 3 * item_size_bound(probe_k, 0, 8) } else { 1 << 30 };
    let name = format!("S2 {THREADS} threads putting the same item, capacity {capacity}, seed {seed}");
    let cache = open_clean(root, capacity, &name)?;
    let mut expected_items = 0usize;
    for round in 0..rounds {
        let k = 1000 + 30 * seed + 3 * round as u64 + 1; // scale 3000: files of several KB
        let (s, e) = (round as u32 % 5, round as u32 % 5 + 3 + round as u32 % 4);
        let ctx = format!("{name}, round {round}");
        if item_size_bound(k, s, e) > capacity {
            continue;
        }
        let mut subsumed = 0;
        if round % 3 == 1 && !small {
            // two smaller items that the big one subsumes
            put(&cache, k, s, s + 1, &ctx)?;
            put(&cache, k, s + 2, e, &ctx)?;
            subsumed = 2;
            expected_items += 2;
            check_accounting(&cache, root, Some(capacity), &format!("{ctx}, after the two small puts"))?;
        }
        let gate = Gate::new(THREADS);
        let handles: Vec<_> = (0..THREADS)
            .map(|_| {
                let (cache, gate, ctx) = (cache.clone(), gate.clone(), ctx.clone());
                std::thread::spawn(move || {
                    gate.wait();
                    put(&cache, k, s, e, &ctx)
                })
            })
            .collect();
        let mut ok = 0;
        for h in handles {
            match h.join() {
                Ok(Ok(true)) => ok += 1,
                Ok(Ok(false)) => {},
                Ok(Err(w)) => return Err(w),
                Err(_) => infra("S2 worker thread died".into()),
            }
        }
        let after = format!("{ctx}: item key#{k} [{s},{e}) put by {THREADS} threads at once ({ok} returned Ok)");
        check_accounting(&cache, root, Some(capacity), &after)?;
        if !small && ok > 0 {
            expected_items = expected_items - subsumed + 1;
            let (n, b) = counters(&cache, &after)?;
            if n != expected_items {
                return Err(format!("{after}: num_items()={n} (total_bytes()={b}) but exactly {expected_items} distinct items are stored"));
            }
        }
        get(&cache, k, s, e, true, &after)?;
        get(&cache, k, s + 1, e - 1, true, &after)?;
    }
    Ok(())
}

// ---------------------------------------------------------------- S3 racing readers of an entry whose file vanished
fn s3_vanished_file_race(seed: u64, budget: Duration, max_iters: usize) -> W {
    let started = Instant::now();
    let mut iter = 0usize;
    let mut dir = tmp();
    let mut cache = open_clean(dir.path(), 1 << 30, "S3")?;
    while iter < max_iters && started.elapsed() < budget {
        if iter % 64 == 0 {
            // fresh directory so that the walk stays short; a larger unrelated item so that drift shows as a wrong number
            // before it shows as a wrap-around
            dir = tmp();
            cache = open_clean(dir.path(), 1 << 30, "S3")?;
            put(&cache, 5000 + seed * 3, 0, 6, "S3 ballast")?;
        }
        let root = dir.path();
        let k = 6000 + 4000 * seed + iter as u64;
        let readers = if iter % 2 == 0 { 2 } else { 4 };
        let via_put = iter % 3 == 2;
        let (a, b) = ((0u32, 1 + (iter as u32 % 3)), (5u32, 6 + (iter as u32 % 2)));
        let ctx = format!(
            "S3 seed {seed} iteration {iter}: key#{k} holds A=[{},{}) and B=[{},{}); A's file deleted behind the cache's back; {readers} threads {} A at once",
            a.0,
            a.1,
            b.0,
            b.1,
            if via_put { "re-put" } else { "get" }
        );
        let before: Vec<PathBuf> = files_below(root).into_iter().map(|f| f.0).collect();
        if !put(&cache, k, a.0, a.1, &ctx)? {
            infra(format!("{ctx}: put of A failed"));
        }
        let file_a = files_below(root).into_iter().map(|f| f.0).find(|p| !before.contains(p));
        let Some(file_a) = file_a else { infra(format!("{ctx}: put of A created no file")) };
        if !put(&cache, k, b.0, b.1, &ctx)? {
            infra(format!("{ctx}: put of B failed"));
        }
        check_accounting(&cache, root, None, &format!("{ctx} (before the deletion)"))?;
        if let Err(e) = std::fs::remove_file(&file_a) {
            infra(format!("remove {file_a:?}: {e}"));
        }
        let gate = Gate::new(readers);
        let handles: Vec<_> = (0..readers)
            .map(|_| {
                let (cache, gate, ctx) = (cache.clone(), gate.clone(), ctx.clone());
                std::thread::spawn(move || {
                    gate.wait();
                    if via_put {
                        put(&cache, k, a.0, a.1, &ctx).map(|_| ())
                    } else {
                        get(&cache, k, a.0, a.1, true, &ctx).map(|_| ())
                    }
                })
            })
            .collect();
        for h in handles {
            match h.join() {
                Ok(Ok(())) => {},
                Ok(Err(w)) => return Err(w),
                Err(_) => infra("S3 worker thread died".into()),
            }
        }
        // read every entry back, then the totals must equal the directory
        get(&cache, k, a.0, a.1, true, &ctx)?;
        get(&cache, k, b.0, b.1, true, &ctx)?;
        check_accounting(&cache, root, None, &format!("{ctx}; afterwards (all entries read back)"))?;
        iter += 1;
    }
    eprintln!("S3: {iter} iterations in {:?}", started.elapsed());
    Ok(())
}

// ---------------------------------------------------------------- S4 damage while the cache is closed
/// flips bit `pos % 8` of byte `(pos / 8) % len` of the file, keeping its name and length
fn flip(path: &Path, pos: u64) {
    let mut bytes = std::fs::read(path).unwrap_or_else(|e| infra(format!("read {path:?}: {e}")));
    if bytes.is_empty() {
        return;
    }
    let p = ((pos / 8) % bytes.len() as u64) as usize;
    bytes[p] ^= 1 << (pos % 8);
    std::fs::write(path, &bytes).unwrap_or_else(|e| infra(format!("write {path:?}: {e}")));
}
fn b64_url(bytes: &[u8]) -> String {
    const A: &[u8; 64] = b"ABCDEFGHIJKLMNOPQRSTUVWXYZabcdefghijklmnopqrstuvwxyz0123456789-_";
    let mut out = String::new();
    for c in bytes.chunks(3) {
        let v = (c[0] as u32) << 16 | (*c.get(1).unwrap_or(&0) as u32) << 8 | *c.get(2).unwrap_or(&0) as u32;
        out.push(A[(v >> 18) as usize & 63] as char);
        out.push(A[(v >> 12) as usize & 63] as char);
        out.push(if c.len() > 1 { A[(v >> 6) as usize & 63] as char } else { '=' });
        out.push(if c.len() > 2 { A[v as usize & 63] as char } else { '=' });
    }
    out
}
fn b64_url_decode(name: &str) -> Vec<u8> {
    const A: &[u8; 64] = b"ABCDEFGHIJKLMNOPQRSTUVWXYZabcdefghijklmnopqrstuvwxyz0123456789-_";
    let vals: Vec<u32> = name.bytes().filter(|c| *c != b'=').filter_map(|c| A.iter().position(|a| *a == c).map(|p| p as u32)).collect();
    let mut out = vec![];
    for q in vals.chunks(4) {
        let v = q.iter().enumerate().fold(0u32, |acc, (i, x)| acc | x << (18 - 6 * i));
        for i in 0..q.len().saturating_sub(1) {
            out.push((v >> (16 - 8 * i)) as u8);
        }
    }
    out
}
/// a file name in the format of a cache item: base64(start, end, len, crc32), little endian
fn item_name(s: u32, e: u32, len: u64, crc: u32) -> String {
    let mut b = Vec::new();
    b.extend_from_slice(&s.to_le_bytes());
    b.extend_from_slice(&e.to_le_bytes());
    b.extend_from_slice(&len.to_le_bytes());
    b.extend_from_slice(&crc.to_le_bytes());
    b64_url(&b)
}

/// S4a: the scan of the re-open does not load the damaged file because the item is larger than the capacity (same config
/// throughout); get, re-put identical data, get
fn s4a_item_larger_than_capacity(seed: u64) -> W {
    let k = 9000 + 3 * seed + 2;
    let (s, e) = (3u32, 9u32);
    let header_len = 4 * (e - s + 2) as u64;
    let total = item_size_bound(k, s, e);
    let cap = 64u64;
    for (what, pos) in [
        ("last data byte", total - 1),
        ("first data byte", header_len),
        ("a middle data byte", header_len + (total - header_len) / 2),
        ("a header byte (second offset)", 8),
        ("a header byte (last offset)", header_len - 4),
        ("the header's count byte", 0),
    ] {
        let dir = tmp();
        let ctx = format!("S4a capacity {cap} < item key#{k} [{s},{e}) of {total} bytes");
        let c = open_clean(dir.path(), cap, &ctx)?;
        put(&c, k, s, e, &ctx)?;
        get(&c, k, s, e, true, &ctx)?;
        drop(c);
        let files = files_below(dir.path());
        if files.len() != 1 || files[0].1 != total {
            infra(format!("{ctx}: expected one file of {total} bytes, found {files:?}"));
        }
        flip(&files[0].0, pos * 8 + seed % 8);
        let ctx = format!("{ctx}; cache closed, {what} (file offset {pos}) flipped, re-opened with the same config");
        let Some(c) = open(dir.path(), cap, &ctx)? else { continue };
        if !get(&c, k, s, e, true, &ctx)? {
            let ctx = format!("{ctx}; get missed, identical data re-put");
            put(&c, k, s, e, &ctx)?;
            get(&c, k, s, e, true, &ctx)?;
            get(&c, k, s + 1, e - 1, true, &ctx)?;
        }
    }
    Ok(())
}

/// S4b: directory filled under a large capacity, every file damaged, re-opened with a much smaller capacity so that the scan
/// stops early; for every item get, (on a miss) re-put identical data, get
fn s4b_overfull_directory(seed: u64) -> W {
    let dir = tmp();
    let big = 1u64 << 30;
    let small = 1200u64;
    let mut items = Vec::new();
    let mut rng = Rng(mix(seed, 0xB));
    let c = open_clean(dir.path(), big, "S4b fill")?;
    for j in 0..18u64 {
        let k = 9500 + 30 * seed + j;
        if k % 3 == 2 {
            continue;
        }
        let mut s = rng.below(3) as u32;
        for _ in 0..5 {
            let e = s + 1 + rng.below(8) as u32;
            if item_size_bound(k, s, e) <= small {
                put(&c, k, s, e, "S4b fill")?;
                items.push((k, s, e));
            }
            s = e + 1 + rng.below(3) as u32; // disjoint, not adjacent: every item stays a separate file
        }
    }
    drop(c);
    let files = files_below(dir.path());
    let bytes: u64 = files.iter().map(|f| f.1).sum();
    if files.len() != items.len() || bytes < 3 * small {
        infra(format!("S4b: {} files / {bytes} bytes for {} items", files.len(), items.len()));
    }
    for (i, f) in files.iter().enumerate() {
        flip(&f.0, mix(seed, i as u64));
    }
    let ctx = format!(
        "S4b {} items ({bytes} bytes) put under capacity {big}, cache closed, one bit flipped in every file, re-opened with capacity {small}",
        items.len()
    );
    if let Some(c) = open(dir.path(), small, &ctx)? {
        for &(k, s, e) in &items {
            if !get(&c, k, s, e, true, &ctx)? {
                let ctx = format!("{ctx}; get(key#{k}, [{s},{e})) missed, identical data re-put");
                put(&c, k, s, e, &ctx)?;
                get(&c, k, s, e, true, &ctx)?;
            }
        }
    }
    Ok(())
}

/// S4c/S4d: damage to files the scan does load, and foreign entries, same capacity throughout
fn s4_damage_and_junk(seed: u64) -> W {
    let cap = 1u64 << 20;
    let k = 9800 + 3 * seed + 2;
    let k_other = k + 3;
    let (s, e) = (4u32, 11u32);
    let header_len = 4 * (e - s + 2) as u64;
    let total = item_size_bound(k, s, e);
    let cases = [
        "flip header count",
        "flip header offset",
        "flip last header byte",
        "flip first data byte",
        "flip last data byte",
        "truncate by one byte",
        "truncate to the header",
        "truncate to empty",
        "extend by one byte",
        "delete",
        "rename to junk",
        "rename to a name with another length",
        "rename to a name with another checksum",
        "rename to a name claiming one chunk more (same length and checksum)",
        "replace by a directory of the same name",
        "junk files and directories at every level",
    ];
    for case in cases {
        let dir = tmp();
        let root = dir.path();
        let ctx0 = format!("S4c seed {seed}: item key#{k} [{s},{e}) ({total} bytes) and item key#{k_other} [0,3), capacity {cap}");
        let c = open_clean(root, cap, &ctx0)?;
        put(&c, k_other, 0, 3, &ctx0)?;
        let before: Vec<PathBuf> = files_below(root).into_iter().map(|f| f.0).collect();
        put(&c, k, s, e, &ctx0)?;
        drop(c);
        let Some(file) = files_below(root).into_iter().map(|f| f.0).find(|p| !before.contains(p)) else {
            infra(format!("{ctx0}: no file for the item"))
        };
        let key_dir = file.parent().unwrap_or(root).to_path_buf();
        let prefix_dir = key_dir.parent().unwrap_or(root).to_path_buf();
        let io = |r: std::io::Result<()>| r.unwrap_or_else(|e| infra(format!("{case}: {e}")));
        let set_len = |n: u64| {
            let f = std::fs::OpenOptions::new().write(true).open(&file).unwrap_or_else(|e| infra(format!("{case}: {e}")));
            f.set_len(n).unwrap_or_else(|e| infra(format!("{case}: {e}")));
        };
        let mut still_valid = false;
        match case {
            "flip header count" => flip(&file, seed % 8),
            "flip header offset" => flip(&file, 8 * (4 + 4 * (1 + seed % (e - s) as u64)) + seed % 8),
            "flip last header byte" => flip(&file, 8 * (header_len - 1) + 7),
            "flip first data byte" => flip(&file, 8 * header_len + seed % 8),
            "flip last data byte" => flip(&file, 8 * (total - 1) + seed % 8),
            "truncate by one byte" => set_len(total - 1),
            "truncate to the header" => set_len(header_len),
            "truncate to empty" => set_len(0),
            "extend by one byte" => set_len(total + 1),
            "delete" => io(std::fs::remove_file(&file)),
            "rename to junk" => io(std::fs::rename(&file, key_dir.join("not a cache item.bin"))),
            "rename to a name with another length" => io(std::fs::rename(&file, key_dir.join(item_name(s, e, total + 7, 12345)))),
            "rename to a name with another checksum" => {
                io(std::fs::rename(&file, key_dir.join(item_name(s, e, total, 0x1234_5678 ^ seed as u32))))
            },
            "rename to a name claiming one chunk more (same length and checksum)" => {
                // the name is base64(start, end, len, crc32): keep len and crc32 (the last 16 bytes), claim [s, e+1)
                let name = file.file_name().and_then(|n| n.to_str()).unwrap_or("").to_string();
                let raw = b64_url_decode(&name);
                if raw.len() != 20 {
                    infra(format!("{case}: item file name {name:?} does not decode to 20 bytes"));
                }
                let crc = u32::from_le_bytes([raw[16], raw[17], raw[18], raw[19]]);
                still_valid = true; // the bytes are intact: a correct hit for [s, e) is fine, anything touching chunk e must not hit or panic
                io(std::fs::rename(&file, key_dir.join(item_name(s, e + 1, total, crc))))
            },
            "replace by a directory of the same name" => {
                io(std::fs::remove_file(&file));
                io(std::fs::create_dir(&file));
                io(std::fs::write(file.join("inner"), b"x"));
            },
            _ => {
                still_valid = true;
                let prefix_name = prefix_dir.file_name().and_then(|n| n.to_str()).unwrap_or("AA").to_string();
                // cache root: a file, a directory whose name is not 2 bytes long, an empty and a filled 2-byte directory
                io(std::fs::write(root.join("README.txt"), b"hello"));
                io(std::fs::write(root.join("zz"), b"a file with a 2-byte name"));
                io(std::fs::create_dir_all(root.join("lost+found").join("deeper")));
                io(std::fs::write(root.join("lost+found").join("f"), vec![7u8; 100]));
                io(std::fs::create_dir(root.join("__")));
                io(std::fs::create_dir(root.join("-_")));
                io(std::fs::write(root.join("-_").join("stray file"), b"stray"));
                // prefix directory: a file, and directories that start with the prefix but are no keys
                io(std::fs::write(prefix_dir.join(".DS_Store"), b"junk"));
                io(std::fs::create_dir(prefix_dir.join(format!("{prefix_name} not base64 !"))));
                let mut long = vec![0xffu8; 40]; // 32 hash bytes + a prefix that is not UTF-8
                long[0] = 0;
                let long_name = b64_url(&long);
                io(std::fs::create_dir_all(root.join(&long_name[..2]).join(&long_name)));
                io(std::fs::write(root.join(&long_name[..2]).join(&long_name).join(item_name(0, 1, 3, 0)), b"abc"));
                // key directory: unparsable names, a sub-directory, a well-formed name whose length or checksum is off, an
                // inverted range, an empty file claiming length 0
                io(std::fs::write(key_dir.join("notes.txt"), b"junk"));
                io(std::fs::write(key_dir.join(".hidden.tmp"), b"left over temporary file"));
                io(std::fs::create_dir(key_dir.join("subdir")));
                io(std::fs::write(key_dir.join("subdir").join("f"), b"x"));
                io(std::fs::write(key_dir.join(item_name(0, 40, 500, 1)), vec![1u8; 100]));
                io(std::fs::write(key_dir.join(item_name(0, 40, 100, 1)), vec![1u8; 100]));
                io(std::fs::write(key_dir.join(item_name(9, 3, 100, 1)), vec![1u8; 100]));
                io(std::fs::write(key_dir.join(item_name(20, 22, 0, 0)), b""));
                // planted files that are SELF-CONSISTENT (length and crc32 in the name are those of the content, so the scan and the
                // checksum verification accept them) but whose header has no / a single offset: a header count of 0 (`00 00 00 00`,
                // crc32 0x2144df1c) claiming chunks [30,31), and a count of 1 with the offset 0 (crc32 0xa988dff7) claiming [32,33)
                io(std::fs::write(key_dir.join(item_name(30, 31, 4, 0x2144_df1c)), [0u8; 4]));
                io(std::fs::write(key_dir.join(item_name(32, 33, 8, 0xa988_dff7)), [1u8, 0, 0, 0, 0, 0, 0, 0]));
                io(std::fs::write(key_dir.join(b64_url(&[1, 2, 3, 4, 5])), b"short name"));
            },
        }
        let ctx = format!("{ctx0}; cache closed; fault on the file of key#{k}: {case}; re-opened");
        let Some(c) = open(root, cap, &ctx)? else { continue };
        // the damaged item: miss or error; the planted ranges: never a hit; the untouched item of the other key: still right
        let hit = get(&c, k, s, e, true, &ctx)?;
        if hit && !still_valid {
            return Err(format!("{ctx}: get(key#{k}, [{s},{e})) is a hit although the file no longer holds what was put"));
        }
        get(&c, k, s + 1, e - 2, true, &ctx)?;
        get(&c, k, s, e + 1, false, &ctx)?;
        get(&c, k, e - 1, e + 1, false, &ctx)?;
        get(&c, k, 0, 40, false, &ctx)?;
        get(&c, k, 20, 22, false, &ctx)?;
        get(&c, k, 0, 1, false, &ctx)?;
        get(&c, k, 30, 31, false, &ctx)?;
        get(&c, k, 32, 33, false, &ctx)?;
        get(&c, k_other, 0, 3, true, &ctx)?;
        // normal flow continues: re-put, read back
        put(&c, k, s, e, &ctx)?;
        get(&c, k, s, e, true, &format!("{ctx}; re-put"))?;
        get(&c, k, s + 2, e - 1, true, &format!("{ctx}; re-put"))?;
        if !still_valid {
            // nothing foreign is left in the directory in these cases except what the fault itself created
            let foreign = matches!(case, "rename to junk" | "replace by a directory of the same name");
            if !foreign {
                check_accounting(&c, root, Some(cap), &format!("{ctx}; re-put; all entries read back"))?;
            }
        }
    }
    Ok(())
}

/// S6 (3 s; 10 s when selected with VERIF_C12_ONLY): 8 threads doing random puts and gets of a few disjoint ranges of a few
/// keys under a capacity of a handful of items; every hit is compared with the model; at the end every entry is read back
/// and the totals must equal the directory.
fn s6_mixed_stress(seed: u64, budget: Duration) -> W {
    const THREADS: usize = 8;
    const RANGES: [(u32, u32); 4] = [(0, 2), (3, 5), (6, 9), (10, 11)];
    let started = Instant::now();
    let mut round = 0u64;
    while started.elapsed() < budget {
        let dir = tmp();
        let root = dir.path();
        // k % 3 == 1 (chunks of at most 150 bytes) for EVERY seed: with 100 * seed the residue used to vary, and for k % 3 == 2 single
        // items exceed the capacity of 2500 bytes, which C13's proviso excludes (concurrent puts of such items do leave an untracked
        // file on HEAD: counters 1 item, directory 2 files - observed with seed 2, not judged)
        let keys: Vec<u64> = (0..5).map(|j| { let b = 20000 + 100 * seed + 3 * j; b - b % 3 + 1 }).collect();
        let capacity = 2500u64;
        let ctx = format!("S6 seed {seed} round {round}: {THREADS} threads, random put/get of ranges {RANGES:?} of 5 keys, capacity {capacity}");
        let cache = open_clean(root, capacity, &ctx)?;
        let gate = Gate::new(THREADS);
        let handles: Vec<_> = (0..THREADS)
            .map(|t| {
                let (cache, gate, ctx, keys) = (cache.clone(), gate.clone(), ctx.clone(), keys.clone());
                std::thread::spawn(move || -> W {
                    let mut rng = Rng(mix(seed ^ round << 8, t as u64));
                    gate.wait();
                    for _ in 0..400 {
                        let k = keys[rng.below(keys.len() as u64) as usize];
                        let (s, e) = RANGES[rng.below(4) as usize];
                        if rng.below(2) == 0 {
                            put(&cache, k, s, e, &ctx)?;
                        } else {
                            get(&cache, k, s, e, true, &ctx)?;
                        }
                    }
                    Ok(())
                })
            })
            .collect();
        for h in handles {
            match h.join() {
                Ok(Ok(())) => {},
                Ok(Err(w)) => return Err(w),
                Err(_) => infra("S6 worker thread died".into()),
            }
        }
        for &k in &keys {
            for (s, e) in RANGES {
                get(&cache, k, s, e, true, &ctx)?;
            }
        }
        check_accounting(&cache, root, None, &format!("{ctx}; all threads joined, every entry read back"))?;
        round += 1;
    }
    eprintln!("S6: {round} rounds");
    Ok(())
}

/// S7: planted key directories / item files whose base64 name decodes to every length around the genuine ones
fn s7_names_of_every_length(seed: u64) -> W {
    const A: &[u8; 64] = b"ABCDEFGHIJKLMNOPQRSTUVWXYZabcdefghijklmnopqrstuvwxyz0123456789-_";
    let cap = 1u64 << 20;
    let k = 9950 + 3 * seed + 1;
    let (s, e) = (3u32, 6u32);
    let dir = tmp();
    let root = dir.path();
    let ctx0 = format!("S7 seed {seed}: item key#{k} [{s},{e}), capacity {cap}");
    let c = open_clean(root, cap, &ctx0)?;
    put(&c, k, s, e, &ctx0)?;
    drop(c);
    let Some(file) = files_below(root).into_iter().map(|f| f.0).next() else { infra("S7: no file".into()) };
    let key_dir = file.parent().unwrap_or(root).to_path_buf();
    let prefix_dir = key_dir.parent().unwrap_or(root).to_path_buf();
    let prefix_name = prefix_dir.file_name().and_then(|n| n.to_str()).unwrap_or("AA").to_string();
    let item_file_name = file.file_name().and_then(|n| n.to_str()).unwrap_or("").to_string();
    let genuine_item = b64_url_decode(&item_file_name);
    if genuine_item.len() != 20 {
        infra(format!("S7: item file name {item_file_name:?} does not decode to 20 bytes"));
    }
    // the 12 bits that the two characters of the genuine prefix directory stand for
    let pv: Vec<u32> = prefix_name.bytes().filter_map(|ch| A.iter().position(|a| *a == ch).map(|p| p as u32)).collect();
    if pv.len() != 2 {
        infra(format!("S7: prefix directory name {prefix_name:?} is not two base64 characters"));
    }
    let io = |r: std::io::Result<()>| r.unwrap_or_else(|e| infra(format!("S7: {e}")));
    let check = |what: &str, planted: &[PathBuf]| -> W {
        let ctx = format!("{ctx0}; cache closed; planted {what}; re-opened");
        let Some(c) = open(root, cap, &ctx)? else {
            return Err(format!("{ctx}: DiskCache::initialize fails because of the planted entry, the genuine entry is no longer served"));
        };
        for (gs, ge) in [(s, e), (s + 1, e), (s, e - 1)] {
            if !get(&c, k, gs, ge, true, &ctx)? {
                return Err(format!("{ctx}: the genuine entry key#{k} [{s},{e}) is no longer served (get [{gs},{ge}) is not a hit)"));
            }
        }
        get(&c, k, 0, 1, false, &ctx)?;
        get(&c, k, 40, 42, false, &ctx)?;
        get(&c, k, s, e + 1, false, &ctx)?;
        drop(c);
        for p in planted {
            if p.is_dir() {
                let _ = std::fs::remove_dir_all(p);
            } else {
                let _ = std::fs::remove_file(p);
            }
        }
        Ok(())
    };
    for len in 1..=40usize {
        let mut variants: Vec<(String, Vec<u8>)> = vec![("zero bytes".into(), vec![0u8; len]), ("0xFF bytes".into(), vec![0xFFu8; len])];
        if len >= 2 {
            let mut b: Vec<u8> = (0..len).map(|i| mix(seed ^ 0x57, (len * 64 + i) as u64) as u8).collect();
            b[0] = ((pv[0] << 2) | (pv[1] >> 4)) as u8;
            b[1] = (((pv[1] & 15) << 4) as u8) | (b[1] & 15);
            variants.push(("bytes starting like the genuine key".into(), b.clone()));
            // hash bytes random, prefix part (beyond 32 bytes) printable
            if len > 32 {
                for x in b[32..].iter_mut() {
                    *x = b'a' + (*x % 26);
                }
                variants.push(("bytes starting like the genuine key, ASCII beyond the hash".into(), b));
            }
        }
        let mut planted = Vec::new();
        let mut shown = Vec::new();
        for (what, bytes) in &variants {
            let name = b64_url(bytes);
            if b64_url_decode(&name) != *bytes {
                infra(format!("S7: base64 helper broken for {bytes:?}"));
            }
            let d = root.join(&name[..2]).join(&name);
            if d == key_dir || d.exists() {
                continue;
            }
            io(std::fs::create_dir_all(&d));
            io(std::fs::write(d.join("stray"), b"not a cache item"));
            io(std::fs::write(d.join(item_name(40, 42, 100, 1)), vec![1u8; 100]));
            shown.push(format!("'{}/{name}' ({what})", &name[..2]));
            planted.push(d);
        }
        check(
            &format!("key-level directories whose {}-character name decodes to {len} bytes: {}, each holding a stray file and a well-formed item file", b64_url(&vec![0u8; len]).len(), shown.join(", ")),
            &planted,
        )?;
        for p in ["AA", "__"] {
            let _ = std::fs::remove_dir(root.join(p));
        }
    }
    for len in [19usize, 21, 24] {
        let mut variants: Vec<Vec<u8>> = Vec::new();
        let mut a = genuine_item.clone();
        a.resize(len, 0);
        variants.push(a);
        let mut b = item_name(0, 1, 100, 7).into_bytes();
        b = b64_url_decode(std::str::from_utf8(&b).unwrap_or(""));
        b.resize(len, 0xEE);
        variants.push(b);
        let mut planted = Vec::new();
        let mut shown = Vec::new();
        for bytes in &variants {
            let name = b64_url(bytes);
            let f = key_dir.join(&name);
            io(std::fs::write(&f, vec![1u8; 100]));
            shown.push(format!("'{name}'"));
            planted.push(f);
        }
        check(&format!("item-level files in the genuine key directory whose name decodes to {len} bytes (genuine: 20): {}", shown.join(", ")), &planted)?;
    }
    Ok(())
}

/// S8: histories through the public get_cache / CacheManager
fn s8_get_cache(seed: u64) -> W {
    use std::sync::Arc;
    let open_mgr = |dir: &Path, cap: u64, ctx: &str| -> Result<Arc<dyn ChunkCache>, String> {
        let cfg = CacheConfig { cache_directory: dir.to_path_buf(), cache_size: cap };
        match guarded(&format!("{ctx}: chunk_cache::get_cache(cache_size={cap})"), || chunk_cache::get_cache(&cfg))? {
            Ok(c) => Ok(c),
            Err(e) => infra(format!("{ctx}: get_cache failed on an undamaged directory: {e}")),
        }
    };
    // (a) damage while "closed"
    let cap = 1u64 << 20;
    let k = 9970 + 3 * seed + 1;
    let (s, e) = (2u32, 9u32);
    let header_len = 4 * (e - s + 2) as u64;
    let total = item_size_bound(k, s, e);
    for via_manager in [true, false] {
        for case in ["flip a data bit", "flip a header bit", "truncate by one byte", "replace the content by other bytes of the same length", "delete the file"] {
            let dir = tmp();
            let root = dir.path();
            let how = if via_manager { "chunk_cache::get_cache" } else { "DiskCache::initialize (control)" };
            let ctx0 = format!("S8a seed {seed}: cache opened with {how} (capacity {cap}); put(key#{k}, [{s},{e})) ({total} bytes on disk); get (hit)");
            {
                let h: Arc<dyn ChunkCache> = if via_manager { open_mgr(root, cap, &ctx0)? } else { Arc::new(open_clean(root, cap, &ctx0)?) };
                let h_clone = h.clone();
                if !put(&*h, k, s, e, &ctx0)? {
                    infra(format!("{ctx0}: put failed"));
                }
                if !get(&*h_clone, k, s, e, true, &ctx0)? || !get(&*h, k, s + 1, e - 1, true, &ctx0)? {
                    infra(format!("{ctx0}: the item just put is not a hit"));
                }
            } // every handle dropped: the cache is closed
            let files = files_below(root);
            if files.len() != 1 || files[0].1 != total {
                infra(format!("{ctx0}: expected one file of {total} bytes, found {files:?}"));
            }
            let file = files[0].0.clone();
            match case {
                "flip a data bit" => flip(&file, 8 * (header_len + (total - header_len) / 2) + seed % 8),
                "flip a header bit" => flip(&file, 8 * 9 + seed % 8),
                "truncate by one byte" => {
                    let f = std::fs::OpenOptions::new().write(true).open(&file).unwrap_or_else(|e| infra(format!("{case}: {e}")));
                    f.set_len(total - 1).unwrap_or_else(|e| infra(format!("{case}: {e}")));
                },
                "replace the content by other bytes of the same length" => {
                    let mut b = std::fs::read(&file).unwrap_or_else(|e| infra(format!("{case}: {e}")));
                    for (i, x) in b.iter_mut().enumerate().skip(header_len as usize) {
                        *x = x.wrapping_add(1 + (mix(seed, i as u64) % 200) as u8);
                    }
                    std::fs::write(&file, &b).unwrap_or_else(|e| infra(format!("{case}: {e}")));
                },
                _ => std::fs::remove_file(&file).unwrap_or_else(|e| infra(format!("{case}: {e}"))),
            }
            let ctx = format!("{ctx0}; every handle dropped (cache closed); item file damaged: {case}; the directory opened again with {how} in the same process");
            let h: Arc<dyn ChunkCache> = if via_manager {
                open_mgr(root, cap, &ctx)?
            } else {
                match open(root, cap, &ctx)? {
                    Some(c) => Arc::new(c),
                    None => continue,
                }
            };
            // the file no longer holds what was put: a hit would have to return the put bytes, which it cannot - get() reports
            // wrong bytes itself; a hit with the right bytes is impossible except by not reading the file
            if get(&*h, k, s, e, true, &ctx)? {
                return Err(format!("{ctx}: get(key#{k}, [{s},{e})) is a hit although the file no longer holds what was put"));
            }
            get(&*h, k, s + 2, e - 1, true, &ctx)?;
            let ctx = format!("{ctx}; get missed; identical data re-put");
            put(&*h, k, s, e, &ctx)?;
            get(&*h, k, s, e, true, &ctx)?;
            get(&*h, k, s + 1, e - 2, true, &ctx)?;
        }
    }
    // (b) one accountant per directory across generations
    {
        let dir = tmp();
        let root = dir.path();
        let keys: Vec<u64> = (0..4).map(|j| 9990 + 30 * seed + 3 * j + 1).collect(); // chunks of at most 150 bytes
        let cap = 5 * item_size_bound(keys[0], 0, 8).max(item_size_bound(keys[1], 0, 8));
        let ctx0 = format!("S8b seed {seed}: capacity {cap}");
        let g1a = open_mgr(root, cap, &ctx0)?;
        let g1b = open_mgr(root, cap, &ctx0)?;
        if !Arc::ptr_eq(&g1a, &g1b) {
            return Err(format!("{ctx0}: two get_cache calls for one directory while the first handle is alive return two different cache instances"));
        }
        put(&*g1a, keys[0], 0, 3, &ctx0)?;
        if !get(&*g1b, keys[0], 0, 3, true, &ctx0)? {
            return Err(format!("{ctx0}: an item put through one handle of get_cache is not a hit through the other handle of the same directory"));
        }
        drop(g1a);
        drop(g1b);
        let h2 = open_mgr(root, cap, &ctx0)?;
        let h3 = open_mgr(root, cap, &ctx0)?;
        let ctx1 = format!("{ctx0}; get_cache (h1), put, every handle dropped; get_cache again (h2); get_cache a third time while h2 is alive (h3)");
        // which item each file on disk belongs to (learnt by diffing the directory after each put)
        let mut owner: HashMap<PathBuf, (u64, u32, u32)> = HashMap::new();
        for f in files_below(root) {
            owner.insert(f.0, (keys[0], 0, 3));
        }
        let mut rng = Rng(mix(seed, 0x58B));
        for op in 0..40u32 {
            let kk = keys[rng.below(keys.len() as u64) as usize];
            let ss = 10 * (1 + rng.below(6) as u32);
            let ee = ss + 4 + rng.below(5) as u32;
            let (name, h) = if op % 2 == 0 { ("h2", &h2) } else { ("h3", &h3) };
            let ctx = format!("{ctx1}; puts alternate through h2 and h3; put #{op} through {name}: (key#{kk}, [{ss},{ee})) of {} bytes", item_size_bound(kk, ss, ee));
            if !put(&**h, kk, ss, ee, &ctx)? {
                continue;
            }
            let files = files_below(root);
            for f in &files {
                owner.entry(f.0.clone()).or_insert((kk, ss, ee));
            }
            owner.retain(|p, _| files.iter().any(|f| &f.0 == p));
            let bytes: u64 = files.iter().map(|f| f.1).sum();
            if bytes > cap {
                return Err(format!("{ctx}: after this insertion the cache directory holds {bytes} bytes in {} files, the capacity is {cap} (every item is far smaller than the capacity)", files.len()));
            }
            for (p, (ok, os, oe)) in &owner {
                for (hn, hh) in [("h2", &h2), ("h3", &h3)] {
                    if !get(&**hh, *ok, *os, *oe, true, &ctx)? {
                        // the read may have self-healed (removed) a file; only a file that is still there counts
                        if p.exists() {
                            return Err(format!(
                                "{ctx}: the file of item (key#{ok}, [{os},{oe})) is in the cache directory ({} files, {bytes} bytes) but {hn} does not serve it: the instance behind {hn} does not track a file that counts against the capacity of the directory",
                                files.len()
                            ));
                        }
                    }
                }
            }
        }
        if !Arc::ptr_eq(&h2, &h3) {
            return Err(format!("{ctx1}: h2 and h3 are two different cache instances on one directory (Arc::ptr_eq is false), each bounding only its own files"));
        }
    }
    Ok(())
}

/// S9: API edges and histories
fn s9_api_edges(seed: u64) -> W {
    let cap = 1u64 << 20;
    // (a) capacity 0, directory that does not exist yet
    {
        let dir = tmp();
        let cfg = CacheConfig { cache_directory: dir.path().to_path_buf(), cache_size: 0 };
        let _ = guarded("S9a: DiskCache::initialize(cache_size=0)", || DiskCache::initialize(&cfg).map(|_| ()))?;
        let _ = guarded("S9a: get_cache(cache_size=0)", || chunk_cache::get_cache(&cfg).map(|_| ()))?;
        let deep = dir.path().join("not").join("yet").join("there");
        let ctx = "S9a: DiskCache::initialize on a directory path that does not exist (three levels deep)".to_string();
        let c = open_clean(&deep, cap, &ctx)?;
        let k = 9800 + 3 * seed + 1;
        if !put(&c, k, 0, 3, &ctx)? || !get(&c, k, 0, 3, true, &ctx)? {
            return Err(format!("{ctx}: put + get of key#{k} [0,3) is not a hit"));
        }
        check_accounting(&c, &deep, Some(cap), &ctx)?;
        drop(c);
        let c = open_clean(&deep, cap, &format!("{ctx}; re-opened"))?;
        if !get(&c, k, 0, 3, true, &ctx)? {
            return Err(format!("{ctx}: after re-opening the item is not a hit"));
        }
    }
    // (b) malformed arguments
    {
        let dir = tmp();
        let root = dir.path();
        let k = 9810 + 3 * seed + 1;
        let ctx0 = format!("S9b seed {seed}: cache holding key#{k} [0,4) and [10,12)");
        let c = open_clean(root, cap, &ctx0)?;
        put(&c, k, 0, 4, &ctx0)?;
        put(&c, k, 10, 12, &ctx0)?;
        let (off, data) = payload(k, 20, 24);
        let n = data.len() as u32;
        let mut short = off.clone();
        short.pop();
        let mut long = off.clone();
        long.push(n + 5);
        let mut first = off.clone();
        first[0] = 1;
        let mut last_short = off.clone();
        *last_short.last_mut().unwrap() = n - 1;
        let mut last_long = off.clone();
        *last_long.last_mut().unwrap() = n + 1;
        let mut flat = off.clone();
        flat[2] = flat[1];
        let mut down = off.clone();
        down.swap(1, 2);
        let cases: Vec<(&str, ChunkRange, Vec<u32>, Vec<u8>)> = vec![
            ("empty range [20,20)", r(20, 20), off.clone(), data.clone()),
            ("inverted range [24,20)", r(24, 20), off.clone(), data.clone()),
            ("one offset too few", r(20, 24), short, data.clone()),
            ("one offset too many", r(20, 24), long, data.clone()),
            ("first offset 1", r(20, 24), first, data.clone()),
            ("last offset one below the data length", r(20, 24), last_short, data.clone()),
            ("last offset one above the data length", r(20, 24), last_long, data.clone()),
            ("two equal offsets (a zero-length chunk)", r(20, 24), flat, data.clone()),
            ("offsets not increasing", r(20, 24), down, data.clone()),
            ("no offsets, no data", r(20, 24), vec![], vec![]),
            ("a single offset 0, no data, range [20,21)", r(20, 21), vec![0], vec![]),
        ];
        let mut accepted = false;
        for (what, range, o, d) in cases {
            if accepted {
                break;
            }
            let ctx = format!("{ctx0}; put(key#{k}, [{},{}), offsets {:?}, {} bytes) - {what}", range.start, range.end, if o.len() > 6 { &o[..6] } else { &o[..] }, d.len());
            let key = key_of(k);
            let res = guarded(&ctx, || c.put(&key, &range, &o, &d))?;
            check_accounting(&c, root, Some(cap), &format!("{ctx} returned {}", if res.is_ok() { "Ok" } else { "an error" }))?;
            if res.is_ok() && range.start < range.end {
                if let Ok(Some(hit)) = guarded(&ctx, || c.get(&key, &range))? {
                    if hit.data.as_ref() != d.as_slice() || hit.offsets.as_ref() != o.as_slice() {
                        return Err(format!("{ctx} was accepted, and a get of the same range returns {} bytes / offsets {:?}, not what was put", hit.data.len(), hit.offsets));
                    }
                }
                // accepted (HEAD rejects all of these): what it stored is consistent with what was put; the remaining cases
                // would collide with it, so they are skipped
                eprintln!("note: {ctx} was accepted");
                accepted = true;
            }
            for (gs, ge) in [(20u32, 20u32), (24, 20), (5, 2)] {
                let key = key_of(k);
                match guarded(&format!("{ctx}; get(key#{k}, [{gs},{ge}))"), || c.get(&key, &r(gs, ge)))? {
                    Ok(Some(_)) => return Err(format!("{ctx}: get of the empty / inverted range [{gs},{ge}) is a hit")),
                    _ => {},
                }
            }
            if !get(&c, k, 0, 4, true, &ctx)? || !get(&c, k, 10, 12, true, &ctx)? || !get(&c, k, 1, 3, true, &ctx)? {
                return Err(format!("{ctx}: afterwards the genuine entries [0,4) / [10,12) are no longer hits"));
            }
        }
        if !put(&c, k, 30, 34, &ctx0)? || !get(&c, k, 30, 34, true, &ctx0)? {
            return Err(format!("{ctx0}: after the malformed puts a well-formed put + get of [30,34) is not a hit"));
        }
        check_accounting(&c, root, Some(cap), &format!("{ctx0}; after all malformed puts and a good one"))?;
    }
    // (c) adjacent ranges
    {
        let dir = tmp();
        let root = dir.path();
        let k = 9820 + 3 * seed + 1;
        let ctx = format!("S9c seed {seed}: puts of the adjacent ranges key#{k} [0,4) and [4,8)");
        let c = open_clean(root, cap, &ctx)?;
        put(&c, k, 0, 4, &ctx)?;
        put(&c, k, 4, 8, &ctx)?;
        check_accounting(&c, root, Some(cap), &ctx)?;
        for (gs, ge) in [(0u32, 8u32), (3, 5), (2, 6), (0, 5), (3, 8), (7, 9)] {
            get(&c, k, gs, ge, false, &ctx)?; // no single stored range covers these: a hit is flagged by get()
        }
        for (gs, ge) in [(0u32, 4u32), (4, 8), (1, 3), (5, 8), (3, 4), (4, 5)] {
            if !get(&c, k, gs, ge, true, &ctx)? {
                return Err(format!("{ctx}: get [{gs},{ge}) is not a hit"));
            }
        }
        let ctx = format!("{ctx}; then the encompassing [0,8)");
        put(&c, k, 0, 8, &ctx)?;
        check_accounting(&c, root, Some(cap), &ctx)?;
        if files_below(root).len() != 1 {
            return Err(format!("{ctx}: the directory holds {} files, expected the one encompassing item", files_below(root).len()));
        }
        for (gs, ge) in [(0u32, 8u32), (3, 5), (2, 6), (0, 4), (4, 8)] {
            if !get(&c, k, gs, ge, true, &ctx)? {
                return Err(format!("{ctx}: get [{gs},{ge}) is not a hit"));
            }
        }
        let ctx = format!("{ctx}; then the nested [2,6)");
        put(&c, k, 2, 6, &ctx)?;
        check_accounting(&c, root, Some(cap), &ctx)?;
        if files_below(root).len() != 1 {
            return Err(format!("{ctx}: the directory holds {} files, the nested put should have added nothing", files_below(root).len()));
        }
    }
    // (d) conflicting re-puts
    {
        let dir = tmp();
        let root = dir.path();
        let k = 9830 + 3 * seed + 1;
        let key = key_of(k);
        let ctx = format!("S9d seed {seed}: key#{k} [0,4) cached");
        let c = open_clean(root, cap, &ctx)?;
        put(&c, k, 0, 4, &ctx)?;
        let (off, data) = payload(k, 0, 4);
        let mut other = data.clone();
        for x in other.iter_mut() {
            *x = x.wrapping_add(1);
        }
        let res = guarded(&ctx, || c.put(&key, &r(0, 4), &off, &other))?;
        let current = if res.is_ok() { &other } else { &data };
        let ctx = format!("{ctx}; put of the same range with the same chunk lengths but different bytes returned {}", if res.is_ok() { "Ok" } else { "an error" });
        match guarded(&ctx, || c.get(&key, &r(0, 4)))? {
            Ok(Some(hit)) if hit.data.as_ref() != current.as_slice() || hit.offsets.as_ref() != off.as_slice() => {
                return Err(format!("{ctx}: a later get returns bytes that are not those of the last accepted put"))
            },
            _ => {},
        }
        check_accounting(&c, root, Some(cap), &ctx)?;
        // a sub-range with other chunk lengths (two chunks of 3 and 5 bytes where the cached ones differ)
        let res = guarded(&ctx, || c.put(&key, &r(1, 3), &[0, 3, 8], &[9u8; 8]))?;
        let ctx = format!("{ctx}; put(key#{k}, [1,3), offsets [0,3,8], 8 bytes of 0x09) returned {}", if res.is_ok() { "Ok" } else { "an error" });
        if let Ok(Some(hit)) = guarded(&ctx, || c.get(&key, &r(0, 4)))? {
            if hit.data.as_ref() != current.as_slice() {
                return Err(format!("{ctx}: get [0,4) now returns other bytes than the last accepted put of [0,4)"));
            }
        }
        if let Ok(Some(hit)) = guarded(&ctx, || c.get(&key, &r(1, 3)))? {
            let want_old = &current[off[1] as usize..off[3] as usize];
            let fine = hit.data.as_ref() == want_old || (res.is_ok() && hit.data.as_ref() == [9u8; 8]);
            if !fine {
                return Err(format!("{ctx}: get [1,3) returns {} bytes that are neither the cached slice nor the accepted new data", hit.data.len()));
            }
        }
        check_accounting(&c, root, Some(cap), &ctx)?;
    }
    // (e) put, evict, re-open, put the same key again
    {
        let dir = tmp();
        let root = dir.path();
        let k = 9840 + 3 * seed + 1; // chunks of at most 150 bytes
        let small = 4 * item_size_bound(k, 0, 8);
        let ctx = format!("S9e seed {seed}: capacity {small}; put(key#{k}, [0,8))");
        let c = open_clean(root, small, &ctx)?;
        put(&c, k, 0, 8, &ctx)?;
        let file_a = files_below(root)[0].0.clone();
        let mut fills = 0u64;
        while file_a.exists() && fills < 400 {
            let kk = 9850 + 3 * (fills % 50) + 1;
            let s0 = 10 * (fills / 50) as u32;
            if item_size_bound(kk, s0, s0 + 6) <= small {
                put(&c, kk, s0, s0 + 6, &ctx)?;
                check_accounting(&c, root, Some(small), &format!("{ctx}; filling put #{fills}"))?;
            }
            fills += 1;
        }
        if file_a.exists() {
            eprintln!("S9e: the item was not evicted by {fills} further puts");
        }
        let ctx = format!("{ctx}; {fills} further puts until its file was evicted");
        get(&c, k, 0, 8, true, &ctx)?;
        drop(c);
        let ctx = format!("{ctx}; re-opened; put of the same item again");
        let c = open_clean(root, small, &ctx)?;
        check_accounting(&c, root, None, &format!("{ctx} (right after re-opening)"))?;
        if !put(&c, k, 0, 8, &ctx)? {
            return Err(format!("{ctx}: the put failed"));
        }
        check_accounting(&c, root, Some(small), &ctx)?;
        if !get(&c, k, 0, 8, true, &ctx)? || !get(&c, k, 2, 5, true, &ctx)? {
            return Err(format!("{ctx}: the item is not a hit"));
        }
    }
    // (f) leftovers of further kinds
    {
        let dir = tmp();
        let root = dir.path();
        let k = 9900 + 3 * seed + 1;
        let ctx0 = format!("S9f seed {seed}: item key#{k} [2,6)");
        let c = open_clean(root, cap, &ctx0)?;
        put(&c, k, 2, 6, &ctx0)?;
        drop(c);
        let file = files_below(root)[0].0.clone();
        let key_dir = file.parent().unwrap_or(root).to_path_buf();
        let prefix_dir = key_dir.parent().unwrap_or(root).to_path_buf();
        let key_name = key_dir.file_name().and_then(|n| n.to_str()).unwrap_or("").to_string();
        let prefix_name = prefix_dir.file_name().and_then(|n| n.to_str()).unwrap_or("").to_string();
        let io = |r: std::io::Result<()>| r.unwrap_or_else(|e| infra(format!("S9f: {e}")));
        // an empty key directory and one holding only a temp leftover (valid key names: the genuine one with its last hash byte varied)
        let mut raw = b64_url_decode(&key_name);
        for (i, leftover) in [None, Some(".x.AbCdEfGhIj.tmp")].into_iter().enumerate() {
            raw[31] = raw[31].wrapping_add(1 + i as u8);
            let name = b64_url(&raw);
            let d = root.join(&name[..2]).join(&name);
            io(std::fs::create_dir_all(&d));
            if let Some(l) = leftover {
                io(std::fs::write(d.join(l), b"half written"));
            }
        }
        io(std::fs::create_dir(root.join("zz")));
        let sym = |target: &Path, link: PathBuf| {
            let _ = std::os::unix::fs::symlink(target, link);
        };
        for level in [root.to_path_buf(), prefix_dir.clone(), key_dir.clone()] {
            sym(Path::new("/nonexistent/target"), level.join("dangling-link"));
            sym(root, level.join("link-to-the-cache-root"));
            sym(&file, level.join("link-to-the-genuine-item"));
            sym(&file, level.join(item_name(40, 42, 100, 1)));
            sym(&key_dir, level.join(format!("{prefix_name}link")));
        }
        // a copy of the genuine key directory under the prefix directory with swapped letter case (accepted by the scan's
        // case-insensitive prefix comparison, but not where that key's files are looked up)
        let swapped: String = prefix_name.chars().map(|ch| if ch.is_ascii_lowercase() { ch.to_ascii_uppercase() } else { ch.to_ascii_lowercase() }).collect();
        if swapped != prefix_name {
            let d = root.join(&swapped).join(&key_name);
            io(std::fs::create_dir_all(&d));
            io(std::fs::copy(&file, d.join(file.file_name().unwrap_or_default())).map(|_| ()));
        }
        let ctx = format!("{ctx0}; cache closed; planted: an empty key directory, a key directory holding only '.x.AbCdEfGhIj.tmp', an empty prefix directory 'zz', symlinks (dangling, to the cache root, to the genuine item file under a junk name and under a well-formed item name, to the genuine key directory) at root / prefix / key level, a copy of the genuine key directory under prefix directory '{swapped}'; re-opened");
        let Some(c) = open(root, cap, &ctx)? else {
            return Err(format!("{ctx}: DiskCache::initialize fails because of the planted entries, the genuine entry is no longer served"));
        };
        for (gs, ge) in [(2u32, 6u32), (3, 5)] {
            if !get(&c, k, gs, ge, true, &ctx)? {
                return Err(format!("{ctx}: the genuine entry is no longer served (get [{gs},{ge}) is not a hit)"));
            }
        }
        get(&c, k, 40, 42, false, &ctx)?;
        get(&c, k, 0, 1, false, &ctx)?;
        put(&c, k, 10, 12, &ctx)?;
        if !get(&c, k, 10, 12, true, &ctx)? {
            return Err(format!("{ctx}: a put + get after the re-open is not a hit"));
        }
    }
    // (g) a (sparse) file larger than DEFAULT_CHUNK_CACHE_CAPACITY in a key directory that also holds valid items: the scan may fail
    // as a whole (HEAD: "cache directory state is invalid"); if it succeeds, what it counts must be what it serves
    {
        let dir = tmp();
        let root = dir.path();
        let k = 9910 + 3 * seed + 1;
        let ranges = [(0u32, 3u32), (10, 12), (20, 25), (30, 31), (40, 44), (50, 52)];
        let ctx0 = format!("S9g seed {seed}: six items of key#{k}");
        let c = open_clean(root, cap, &ctx0)?;
        for (a, b) in ranges {
            put(&c, k, a, b, &ctx0)?;
        }
        drop(c);
        let files = files_below(root);
        let key_dir = files[0].0.parent().unwrap_or(root).to_path_buf();
        // the name is varied until the directory lists at least two valid items BEFORE the huge file (what the scan has already
        // counted when it meets the file is what matters)
        let mut huge = key_dir.join(item_name(60, 61, chunk_cache::DEFAULT_CHUNK_CACHE_CAPACITY + 1, 7));
        let mut made = std::fs::File::create(&huge).and_then(|f| f.set_len(chunk_cache::DEFAULT_CHUNK_CACHE_CAPACITY + 1));
        for attempt in 0..40u32 {
            if made.is_err() {
                break;
            }
            let order: Vec<PathBuf> = std::fs::read_dir(&key_dir).map(|rd| rd.filter_map(|e| e.ok()).map(|e| e.path()).collect()).unwrap_or_default();
            if order.iter().position(|p| *p == huge).unwrap_or(0) >= 2 {
                break;
            }
            let next = key_dir.join(item_name(60, 61, chunk_cache::DEFAULT_CHUNK_CACHE_CAPACITY + 1, 8 + attempt));
            made = std::fs::rename(&huge, &next);
            huge = next;
        }
        if made.is_ok() {
            let ctx = format!("{ctx0}; cache closed; a sparse file of 10 GiB + 1 byte with a well-formed item name planted in the key directory; re-opened");
            match open(root, cap, &ctx)? {
                None => {},
                Some(c) => {
                    let mut served = (0usize, 0u64);
                    for (a, b) in ranges {
                        if get(&c, k, a, b, true, &ctx)? {
                            served.0 += 1;
                            served.1 += item_size_bound(k, a, b);
                        }
                    }
                    get(&c, k, 60, 61, false, &ctx)?;
                    let (n, bytes) = counters(&c, &ctx)?;
                    if (n, bytes) != served {
                        return Err(format!("{ctx}: DiskCache::initialize succeeded; the cache reports num_items()={n} total_bytes()={bytes} but serves (= tracks) {} of the six genuine items with {} bytes", served.0, served.1));
                    }
                },
            }
            let _ = std::fs::remove_file(&huge);
            let ctx = format!("{ctx}; the huge file removed again; re-opened");
            let c = open_clean(root, cap, &ctx)?;
            check_accounting(&c, root, Some(cap), &ctx)?;
            for (a, b) in ranges {
                if !get(&c, k, a, b, true, &ctx)? {
                    return Err(format!("{ctx}: the genuine item [{a},{b}) is not served"));
                }
            }
        } else {
            let _ = std::fs::remove_file(&huge);
            eprintln!("S9g skipped: cannot create a sparse 10 GiB file here");
        }
    }
    Ok(())
}

/// S10: several threads read a large item for the FIRST time after a re-open (it is unverified) while its file is damaged
fn s10_concurrent_first_reads(seed: u64) -> W {
    const THREADS: usize = 8;
    let cap = 1u64 << 30;
    let k = 9920 + 3 * seed; // k % 3 == 2: chunks of up to 3000 bytes
    let (s, e) = (0u32, 6000u32);
    let dir = tmp();
    let root = dir.path();
    let ctx0 = format!("S10 seed {seed}: item key#{k} [{s},{e}) of about {} MiB", item_size_bound(k, s, e) >> 20);
    let c = open_clean(root, cap, &ctx0)?;
    put(&c, k, s, e, &ctx0)?;
    drop(c);
    let file = files_below(root)[0].clone();
    for round in 0..3u64 {
        // damage near the end of the data region, so that a reader that trusts an unfinished verification gets far before the
        // hashing reader notices
        flip(&file.0, 8 * (file.1 - 1 - 1000 * round) + (seed + round) % 8);
        let ctx = format!("{ctx0}; cache closed; one bit flipped {} bytes before the end of the file; re-opened; {THREADS} threads get sub-ranges of the item for the first time, started 0 / 0.3 / 0.6 ... ms apart (round {round})", 1 + 1000 * round);
        let Some(c) = open(root, cap, &ctx)? else { return Ok(()) };
        let gate = Gate::new(THREADS);
        let handles: Vec<_> = (0..THREADS)
            .map(|t| {
                let (c, gate, ctx) = (c.clone(), gate.clone(), ctx.clone());
                std::thread::spawn(move || -> W {
                    gate.wait();
                    let until = Instant::now() + Duration::from_micros(300 * t as u64);
                    while Instant::now() < until {
                        std::hint::spin_loop();
                    }
                    // the flipped byte lies in the last chunks: every thread asks for a range that contains it
                    let a = e - 40 - 3 * t as u32;
                    if get(&c, k, a, e, true, &ctx)? {
                        return Err(format!("{ctx}: thread {t}: get(key#{k}, [{a},{e})) is a hit although the file is damaged"));
                    }
                    Ok(())
                })
            })
            .collect();
        for h in handles {
            match h.join() {
                Ok(Ok(())) => {},
                Ok(Err(w)) => return Err(w),
                Err(_) => infra("S10 worker thread died".into()),
            }
        }
        // self-healed: the item is gone; put it back for the next round
        let ctx = format!("{ctx}; afterwards the identical item is put again");
        put(&c, k, s, e, &ctx)?;
        if !get(&c, k, s, e, true, &ctx)? {
            return Err(format!("{ctx}: it is not a hit"));
        }
        check_accounting(&c, root, Some(cap), &ctx)?;
        drop(c);
        if !file.0.exists() {
            infra("S10: the item file has another name after the re-put".into());
        }
    }
    Ok(())
}

/// S11: healing of one item of a key whose item list is not sorted by range
fn s11_unsorted_key_lists(seed: u64) -> W {
    let cap = 1u64 << 20;
    let three = [(10u32, 12u32), (0, 2), (5, 7)];
    let mut orders: Vec<(String, Vec<(u32, u32)>, usize)> = Vec::new(); // (name, put order, number of leading puts followed by a re-open)
    for p in [[0usize, 1, 2], [0, 2, 1], [1, 0, 2], [1, 2, 0], [2, 0, 1], [2, 1, 0]] {
        let o: Vec<(u32, u32)> = p.iter().map(|i| three[*i]).collect();
        orders.push((format!("puts in the order {o:?}"), o, 0));
    }
    orders.push(("puts in the order [(20,22), (0,2), (30,33), (10,12), (5,7)]".into(), vec![(20, 22), (0, 2), (30, 33), (10, 12), (5, 7)], 0));
    orders.push(("puts in the order [(30,33), (20,22), (10,12), (5,7), (0,2)]".into(), vec![(30, 33), (20, 22), (10, 12), (5, 7), (0, 2)], 0));
    orders.push(("put [10,12), cache re-opened (the item is loaded by the scan), then puts of [0,2) and [5,7)".into(), vec![(10, 12), (0, 2), (5, 7)], 1));
    orders.push(("puts of [5,7) and [10,12), cache re-opened, then puts of [0,2) and [20,22)".into(), vec![(5, 7), (10, 12), (0, 2), (20, 22)], 2));
    let mut kcount = 0u64;
    for (oname, order, reopen_after) in &orders {
        for victim in 0..order.len() {
            for fault in ["its file is deleted while the cache is open", "one bit of its file is flipped while the cache is closed, then the cache is re-opened"] {
                kcount += 1;
                let k = { let b = 30000 + 1000 * seed + 3 * kcount; b - b % 3 + 1 }; // k % 3 == 1: chunks of at most 150 bytes
                let dir = tmp();
                let root = dir.path();
                let ctx0 = format!("S11 seed {seed}: one key (key#{k}), {oname}");
                let mut c = open_clean(root, cap, &ctx0)?;
                let mut file_of: Vec<PathBuf> = Vec::new();
                for (i, (a, b)) in order.iter().enumerate() {
                    if *reopen_after != 0 && i == *reopen_after {
                        drop(c);
                        c = open_clean(root, cap, &ctx0)?;
                    }
                    let before: Vec<PathBuf> = files_below(root).into_iter().map(|f| f.0).collect();
                    if !put(&c, k, *a, *b, &ctx0)? {
                        infra(format!("{ctx0}: put [{a},{b}) failed"));
                    }
                    let Some(f) = files_below(root).into_iter().map(|f| f.0).find(|p| !before.contains(p)) else { infra(format!("{ctx0}: put [{a},{b}) created no file")) };
                    file_of.push(f);
                }
                for (a, b) in order {
                    if !get(&c, k, *a, *b, true, &ctx0)? {
                        infra(format!("{ctx0}: [{a},{b}) is not a hit before any damage"));
                    }
                }
                let (va, vb) = order[victim];
                let ctx = format!("{ctx0}; then for item [{va},{vb}): {fault}");
                if fault.starts_with("its file is deleted") {
                    std::fs::remove_file(&file_of[victim]).unwrap_or_else(|e| infra(format!("S11: {e}")));
                } else {
                    drop(c);
                    let len = std::fs::metadata(&file_of[victim]).map(|m| m.len()).unwrap_or(1);
                    flip(&file_of[victim], 8 * (len - 1) + seed % 8);
                    c = match open(root, cap, &ctx)? {
                        Some(c) => c,
                        None => continue,
                    };
                }
                // the damaged item: every call returns (watchdog), no hit
                if get(&c, k, va, vb, true, &ctx)? {
                    return Err(format!("{ctx}: get(key#{k}, [{va},{vb})) is a hit although the file no longer holds what was put"));
                }
                get(&c, k, va + 1, vb, true, &ctx)?;
                // the others are untouched
                for (i, (a, b)) in order.iter().enumerate() {
                    if i != victim && !get(&c, k, *a, *b, true, &ctx)? {
                        return Err(format!("{ctx}: afterwards the untouched item [{a},{b}) of the same key is no longer a hit"));
                    }
                }
                // covered put of identical data (goes through the validation of the stored item), then read back
                let ctx = format!("{ctx}; get of it missed; the identical item is put again");
                put(&c, k, va, vb, &ctx)?;
                if !get(&c, k, va, vb, true, &ctx)? {
                    return Err(format!("{ctx}: it is not a hit"));
                }
                check_accounting(&c, root, Some(cap), &ctx)?;
            }
        }
    }
    // the same with the healing triggered by a covered PUT instead of a get (file deleted while open)
    for p in [[0usize, 1, 2], [2, 0, 1]] {
        let order: Vec<(u32, u32)> = p.iter().map(|i| three[*i]).collect();
        for victim in 0..3 {
            let k = 31000 + 1000 * seed + 30 * victim as u64 + 3 * p[0] as u64 + 1;
            let k = k - k % 3 + 1;
            let dir = tmp();
            let root = dir.path();
            let ctx0 = format!("S11 seed {seed}: one key (key#{k}), puts in the order {order:?}");
            let c = open_clean(root, cap, &ctx0)?;
            let mut file_of = Vec::new();
            for (a, b) in &order {
                let before: Vec<PathBuf> = files_below(root).into_iter().map(|f| f.0).collect();
                put(&c, k, *a, *b, &ctx0)?;
                file_of.push(files_below(root).into_iter().map(|f| f.0).find(|p| !before.contains(p)).unwrap_or_else(|| infra("S11: no file".into())));
            }
            let (va, vb) = order[victim];
            std::fs::remove_file(&file_of[victim]).unwrap_or_else(|e| infra(format!("S11: {e}")));
            let ctx = format!("{ctx0}; the file of [{va},{vb}) is deleted while the cache is open; the identical item is put again (a covered put)");
            put(&c, k, va, vb, &ctx)?;
            if !get(&c, k, va, vb, true, &ctx)? {
                return Err(format!("{ctx}: afterwards get [{va},{vb}) is not a hit"));
            }
            check_accounting(&c, root, Some(cap), &ctx)?;
        }
    }
    Ok(())
}

/// S12: the re-open scan stops early (directory >= 2x the capacity it is opened with); everything loaded heals / is evicted
fn s12_early_stop_then_heal(seed: u64) -> W {
    let big = 1u64 << 30;
    for variant in ["every file bit-flipped while closed", "every file deleted while the cache is open", "files intact"] {
        let dir = tmp();
        let root = dir.path();
        let mut items = Vec::new();
        let mut rng = Rng(mix(seed, 0x512));
        let ctx0 = "S12 fill".to_string();
        let c = open_clean(root, big, &ctx0)?;
        for j in 0..9u64 {
            let k = { let b = 40000 + 100 * seed + 3 * j; b - b % 3 + 1 }; // k % 3 == 1: chunks of at most 150 bytes
            let mut s0 = rng.below(3) as u32;
            for _ in 0..5 {
                let e0 = s0 + 2 + rng.below(6) as u32;
                put(&c, k, s0, e0, &ctx0)?;
                items.push((k, s0, e0));
                s0 = e0 + 1 + rng.below(3) as u32;
            }
        }
        drop(c);
        let files = files_below(root);
        let bytes: u64 = files.iter().map(|f| f.1).sum();
        let small = (bytes / 8).max(1500);
        if files.len() != items.len() || bytes < 2 * small || items.iter().any(|(k, a, b)| item_size_bound(*k, *a, *b) > small) {
            infra(format!("S12: {} files / {bytes} bytes for {} items, small capacity {small}", files.len(), items.len()));
        }
        if variant.starts_with("every file bit-flipped") {
            for (i, f) in files.iter().enumerate() {
                flip(&f.0, mix(seed ^ 0x12, i as u64));
            }
        }
        let ctx = format!(
            "S12 seed {seed}: {} items of 9 keys ({bytes} bytes) put under capacity {big}; cache closed; {variant}; re-opened with capacity {small} (the directory holds {}x of it, the scan stops early)",
            items.len(),
            bytes / small
        );
        let Some(c) = open(root, small, &ctx)? else { continue };
        if variant.starts_with("every file deleted") {
            for f in &files {
                let _ = std::fs::remove_file(&f.0);
            }
        }
        // phase 1: read EVERYTHING before anything is put
        let ctx1 = format!("{ctx}; every item is read first");
        let mut hits = 0;
        for &(k, a, b) in &items {
            if get(&c, k, a, b, true, &ctx1)? {
                hits += 1;
                if variant != "files intact" {
                    return Err(format!("{ctx1}: get(key#{k}, [{a},{b})) is a hit although its file was damaged / deleted"));
                }
            }
        }
        let _ = counters(&c, &ctx1)?; // must not panic / fail (a poisoned lock shows here)
        // phase 2: put everything again, phase 3: read again
        let ctx2 = format!("{ctx1} ({hits} hits), then every item is put again");
        let mut accepted = Vec::new();
        for &(k, a, b) in &items {
            if put(&c, k, a, b, &ctx2)? {
                accepted.push((k, a, b));
            }
        }
        if accepted.len() * 2 < items.len() {
            return Err(format!("{ctx2}: only {} of {} puts of well-formed items were accepted (the cache stopped working)", accepted.len(), items.len()));
        }
        let ctx3 = format!("{ctx2}, then read again");
        for &(k, a, b) in &items {
            get(&c, k, a, b, true, &ctx3)?;
        }
        // phase 4: fresh items (evictions of whatever is tracked)
        let ctx4 = format!("{ctx3}; then 40 fresh items are put");
        let fresh_key = |j: u64| { let b = 41000 + 100 * seed + 3 * (j % 10); b - b % 3 + 1 };
        let (mut ok, mut tried) = (0, 0);
        for j in 0..40u64 {
            let k = fresh_key(j);
            let a = 10 * (j / 10) as u32;
            if item_size_bound(k, a, a + 5) > small {
                continue;
            }
            tried += 1;
            if put(&c, k, a, a + 5, &ctx4)? {
                ok += 1;
                if !get(&c, k, a, a + 5, true, &ctx4)? {
                    return Err(format!("{ctx4}: get(key#{k}, [{a},{})) right after its put is not a hit", a + 5));
                }
            }
        }
        if tried < 20 {
            infra(format!("S12: only {tried} fresh items fit the small capacity {small}"));
        }
        if ok * 2 < tried {
            return Err(format!("{ctx4}: only {ok} of {tried} puts of well-formed items were accepted (the cache stopped working)"));
        }
        let (n, b) = counters(&c, &ctx4)?;
        if n > usize::MAX / 2 || b > u64::MAX / 2 {
            return Err(format!("{ctx4}: counters wrapped around: num_items()={n} total_bytes()={b}"));
        }
        // and the directory re-opens
        drop(c);
        let ctx5 = format!("{ctx4}; re-opened once more with capacity {small}");
        if let Some(c) = open(root, small, &ctx5)? {
            for j in 0..40u64 {
                let k = fresh_key(j);
                let a = 10 * (j / 10) as u32;
                get(&c, k, a, a + 5, true, &ctx5)?;
            }
        }
    }
    Ok(())
}

/// S5: directories with foreign names inside a prefix directory (`<p>` = the 2-character name of the prefix directory):
/// `<p>AA` is valid base64 of 3 bytes, i.e. shorter than a key; the other two do not start with `<p>`.
/// All violations found are reported together.
fn s5_foreign_directories(seed: u64) -> W {
    let cap = 1u64 << 20;
    let k = 9900 + 3 * seed + 1;
    let mut found = Vec::new();
    for junk in ["<p>AA", "x", "some other directory"] {
        let dir = tmp();
        let root = dir.path();
        let ctx0 = format!("S5 seed {seed}: item key#{k} [0,4), capacity {cap}");
        let c = open_clean(root, cap, &ctx0)?;
        put(&c, k, 0, 4, &ctx0)?;
        drop(c);
        let Some(file) = files_below(root).into_iter().map(|f| f.0).next() else { infra("S5: no file".into()) };
        let prefix_dir = file.parent().and_then(|p| p.parent()).unwrap_or(root).to_path_buf();
        let prefix_name = prefix_dir.file_name().and_then(|n| n.to_str()).unwrap_or("AA").to_string();
        let planted = prefix_dir.join(junk.replace("<p>", &prefix_name));
        if let Err(e) = std::fs::create_dir(&planted) {
            infra(format!("S5: {e}"));
        }
        let shown = planted.strip_prefix(root).unwrap_or(&planted).display().to_string();
        let ctx = format!("{ctx0}; cache closed; empty directory '{shown}' planted next to the key directory; re-opened");
        let res = (|| -> W {
            let Some(c) = open(root, cap, &ctx)? else { return Ok(()) };
            get(&c, k, 0, 4, true, &ctx)?;
            get(&c, k, 1, 3, true, &ctx)?;
            Ok(())
        })();
        if let Err(w) = res {
            found.push(w);
        }
    }
    if found.is_empty() {
        Ok(())
    } else {
        Err(found.join(" || "))
    }
}

fn run(seed: u64) -> W {
    let t = Instant::now();
    // VERIF_C12_ONLY=S4b,S3 restricts the search to the named scenarios (for diagnosis); default: all
    let only = std::env::var("VERIF_C12_ONLY").unwrap_or_default();
    let on = |name: &str| only.is_empty() || only.split(',').any(|s| s.trim() == name);
    if on("S1") {
        s1_history(seed, 1 << 30, false, 600)?;
        s1_history(seed, 6000, true, 1200)?;
        s1_history(seed + 77, 2500, true, 1200)?;
        s1_item_of_exactly_the_capacity(seed)?;
        eprintln!("S1 done at {:?}", t.elapsed());
    }
    if on("S4a") {
        s4a_item_larger_than_capacity(seed)?;
    }
    if on("S4b") {
        s4b_overfull_directory(seed)?;
    }
    if on("S4c") {
        s4_damage_and_junk(seed)?;
        eprintln!("S4 done at {:?}", t.elapsed());
    }
    if on("S2") {
        s2_same_item_from_many_threads(seed, false, 40)?;
        s2_same_item_from_many_threads(seed, true, 25)?;
        eprintln!("S2 done at {:?}", t.elapsed());
    }
    if on("S3") {
        s3_vanished_file_race(seed, Duration::from_secs(8), 1500)?;
        eprintln!("S3 done at {:?}", t.elapsed());
    }
    if on("S6") {
        s6_mixed_stress(seed, Duration::from_secs(if only.is_empty() { 3 } else { 10 }))?;
        eprintln!("S6 done at {:?}", t.elapsed());
    }
    if on("S7") {
        s7_names_of_every_length(seed)?;
        eprintln!("S7 done at {:?}", t.elapsed());
    }
    if on("S8") {
        s8_get_cache(seed)?;
        eprintln!("S8 done at {:?}", t.elapsed());
    }
    if on("S9") {
        s9_api_edges(seed)?;
        eprintln!("S9 done at {:?}", t.elapsed());
    }
    if on("S10") {
        s10_concurrent_first_reads(seed)?;
        eprintln!("S10 done at {:?}", t.elapsed());
    }
    if on("S11") {
        s11_unsorted_key_lists(seed)?;
        eprintln!("S11 done at {:?}", t.elapsed());
    }
    if on("S12") {
        s12_early_stop_then_heal(seed)?;
        eprintln!("S12 done at {:?}", t.elapsed());
    }
    if on("S5") && std::env::var("VERIF_C12_SKIP_FOREIGN_DIRS").map_or(true, |v| v != "1") {
        s5_foreign_directories(seed)?;
    }
    Ok(())
}

fn main() {
    let seed: u64 = std::env::var("VERIF_SEED").ok().and_then(|s| s.parse().ok()).unwrap_or(0);
    std::panic::set_hook(Box::new(|info| eprintln!("panic: {info}")));
    start_watchdog();
    match catch_unwind(|| run(seed)) {
        Ok(Ok(())) => println!("no violation found"),
        Ok(Err(w)) => {
            println!("WITNESS {}", w.replace('\n', " "));
            std::process::exit(1);
        },
        Err(p) => infra(format!("the search program itself panicked: {}", panic_msg(p))),
    }
}
