//! Witness search for C09 / C05: the REAL mdb_shard serializer, seekable / scanning / streaming / minimal readers, dedup queries and
//! ShardFileManager against a reference that is simply the generated contents (BTreeMaps of file records and xorb records) plus an
//! independent byte layout of the info sections and lookup tables.
//! Shards of 0..600 files and xorbs (so the interpolation search is entered: more than 256 lookup entries), key distributions
//! uniform / clustered / extreme (first word 0, 1, MAX-1, MAX) / evenly spread (first interpolation probe is exact), groups of 2..7
//! entries sharing the truncated 64-bit prefix, all four (verification, metadata) flag combinations, empty records.
//!   * every stored file hash / xorb hash is answered with exactly the stored record, absent hashes (random, and sharing a stored
//!     prefix) with not-found; the sections and tables hold exactly the reference records; sizes / totals match the accounting;
//!   * dedup queries on the serialized shard and through a ShardFileManager (before and after flush) are truthful: the reported
//!     xorb holds the queried hashes at [a, a+n) and the byte count is the sum of those chunk lengths - including runs that reach a
//!     xorb's last chunk with further hashes following: a random one, the NEXT record's xorb hash, the all-ones bookend hash.
//!   * "identically through the seekable, streaming and minimal readers" (check_every_reader): the file records and xorb records of
//!     every shard are listed through EVERY reader - the in-memory shard, the seekable `read_all_file_info_sections`,
//!     `read_file_info_ranges` (record re-assembled from the byte ranges it reports), `read_all_cas_blocks` (re-assembled from the
//!     reported positions), `read_all_cas_blocks_full`; the sync streaming `process_shard_stream`, `process_shard_file_info_section`
//!     + `process_shard_cas_info_section` (readers handing out everything / 1 / 7 bytes per call); the ASYNC streaming
//!     `process_shard_stream_async` (with and without the callbacks), `process_shard_file_info_section_async` +
//!     `process_shard_cas_info_section_async` (async readers handing out everything / 1 / 7 bytes per poll);
//!     `MDBMinimalShard::from_reader` and `from_reader_async` with (files, xorbs) included = (t,t), (t,f), (f,t); and once more after a
//!     `MDBMinimalShard::serialize` round trip (re-read by the seekable and by both minimal readers; the footer totals it writes ==
//!     u64 sums over the records) - and every list must be byte-identical to the independent layout of the stored records, in hash
//!     order.  Besides the shards above this runs on "zero-segment mixes": file records with ZERO segments in all four
//!     (verification, metadata-ext) flag combinations mixed with ordinary records of all four combinations, in 16 hash orders
//!     (zero-segment + metadata-ext record first / last / alone / twice in a row / ...), with zero-chunk xorbs first, last and in
//!     the middle of the xorb section.
//!   * every public lookup entry point at least once (check_entry_points, on every shard): `get_file_info_index_by_hash` +
//!     `read_file_info`, `get_cas_info_index_by_chunk` + `chunk_hash_dedup_query_direct` at every candidate (every stored chunk must
//!     be reachable that way; a non-matching candidate answers None; answers truthful), `read_full_cas_lookup`,
//!     `read_all_truncated_hashes` with the chunk table and on the table-less re-serialisation by `MDBMinimalShard::serialize`
//!     (same multiset of (truncated hash, xorb entry index, chunk index)), empty query slices; and the `MDBShardFile` wrappers of a
//!     shard written with `write_to_directory` and loaded with `load_from_file` / `load_all_valid` (get_file_reconstruction_info,
//!     chunk_hash_dedup_query(_direct), read_all_truncated_hashes, read_full_cas_lookup, read_all_file_info_sections,
//!     read_all_cas_blocks, get_reader_if_present, chunk_hmac_key) against the same reference.
//!   * boundaries (check_boundaries): 8 and 9 files / xorbs / chunks sharing one truncated prefix (one more than the documented
//!     limit): a lookup may fail with TruncatedHashCollisionError or report not-found, but never returns another record, never
//!     panics, dedup answers stay truthful; xorbs of 65,535 / 65,536 / 65,537 chunks (u16 limit of the manager's packed chunk
//!     offset): runs around chunk 65,533..65,537 and to the very end must be found and truthful on the serialized shard and in
//!     memory, truthful through a ShardFileManager before and after flush.
//!   * error paths (check_damage): the serialized shard cut at 16 offsets (inside header, each section, each table, the footer) and
//!     with each lookup table overwritten by zeros / 0xff: `load_from_reader`, every seekable lookup, the streaming and minimal readers return Err / not-found
//!     or exactly a stored record - never another record, never a panic; records streamed before the error are a prefix of the
//!     stored list.  A shard file truncated or deleted AFTER a ShardFileManager registered it: queries return Err / None or a
//!     truthful answer.
//! Prints `WITNESS ...` and exits 1 on the first violation.
use std::collections::BTreeMap;
use std::io::{Cursor, Read, Seek, SeekFrom};
use std::panic::{catch_unwind, AssertUnwindSafe};

use mdb_shard::cas_structs::{CASChunkSequenceEntry, CASChunkSequenceHeader, MDBCASInfo};
use mdb_shard::file_structs::{FileDataSequenceEntry, FileDataSequenceHeader, FileMetadataExt, FileVerificationEntry, MDBFileInfo};
use mdb_shard::shard_file_reconstructor::FileReconstructor;
use mdb_shard::shard_in_memory::MDBInMemoryShard;
use mdb_shard::streaming_shard::MDBMinimalShard;
use mdb_shard::{MDBShardInfo, ShardFileManager};
use merklehash::MerkleHash;
use rand::rngs::StdRng;
use rand::{Rng, SeedableRng};

fn witness(msg: String) -> ! {
    println!("WITNESS {msg}");
    std::process::exit(1);
}

fn guarded<T>(what: &str, f: impl FnOnce() -> T) -> T {
    match catch_unwind(AssertUnwindSafe(f)) {
        Ok(v) => v,
        Err(e) => {
            let msg = e.downcast_ref::<String>().cloned().or_else(|| e.downcast_ref::<&str>().map(|s| s.to_string())).unwrap_or_default();
            witness(format!("{what}: the code under test panicked: {msg}"))
        },
    }
}

fn h4(a: u64, b: u64, c: u64, d: u64) -> MerkleHash {
    MerkleHash::from([a, b, c, d])
}
fn hx(h: &MerkleHash) -> String {
    format!("[{:#x}, {:#x}, ..]", h[0], h[1])
}

// ---------------------------------------------------------------------------------------------------------------------------------
// reference contents
// ---------------------------------------------------------------------------------------------------------------------------------

#[derive(Default, Clone)]
struct Contents {
    files: BTreeMap<MerkleHash, MDBFileInfo>,
    xorbs: BTreeMap<MerkleHash, MDBCASInfo>,
}

#[derive(Clone, Copy, Debug)]
enum Dist {
    Uniform,
    /// first words within a band of 4000 values around 2^63, plus the four extreme first words
    ClusteredExtreme,
    /// first word of entry i (of n, in sorted order) is (i+1) * (MAX/(n+1) + 1): the first interpolation probe for it lands on it
    Even,
}

/// n distinct keys; `groups` lists sizes (2..7) of runs sharing one first word.
fn make_keys(rng: &mut StdRng, n: usize, dist: Dist, groups: &[usize]) -> Vec<MerkleHash> {
    let mut firsts: Vec<u64> = match dist {
        Dist::Uniform => (0..n).map(|_| rng.random()).collect(),
        Dist::ClusteredExtreme => {
            // distinct first words (groups below then have exactly the intended sizes, never more than 7)
            let mut band: Vec<u64> = (0..4000u64).collect();
            for i in (1..band.len()).rev() { band.swap(i, rng.random_range(0..=i)); }
            (0..n).map(|i| match i { 0 => 0, 1 => 1, 2 => u64::MAX - 1, 3 => u64::MAX, _ => (1u64 << 63) + band[i] }).collect()
        },
        Dist::Even => { let step = u64::MAX / (n as u64 + 1) + 1; (0..n as u64).map(|i| (i + 1) * step).collect() },
    };
    firsts.sort();
    // collision groups: g consecutive slots all take the first word of the LAST slot of the run
    let mut pos = if n > 40 { n / 7 } else { 0 };
    for &g in groups {
        if pos + g > n { break; }
        let k = firsts[pos + g - 1];
        for f in &mut firsts[pos..pos + g] { *f = k; }
        pos += g + (n / (groups.len() + 2)).max(1);
    }
    let mut out: Vec<MerkleHash> = vec![];
    for f in firsts {
        loop {
            let h = h4(f, rng.random(), rng.random(), rng.random());
            if !out.contains(&h) { out.push(h); break; }
        }
    }
    out
}

fn generate(rng: &mut StdRng, n_files: usize, n_xorbs: usize, dist: Dist, groups: &[usize], dup_chunks: bool) -> Contents {
    let mut c = Contents::default();
    let xkeys = make_keys(rng, n_xorbs, dist, groups);
    let mut all_chunks: Vec<MerkleHash> = vec![];
    for (i, x) in xkeys.iter().enumerate() {
        let n_chunks = if i % 97 == 13 { 0 } else { 1 + (i * 7 + 3) % 6 };
        let mut chunks = vec![];
        let mut pos = 0u32;
        for j in 0..n_chunks {
            let hash = match (i + j) % 11 {
                // a chunk that also occurs in an earlier xorb
                3 if dup_chunks && !all_chunks.is_empty() => all_chunks[rng.random_range(0..all_chunks.len())],
                // a chunk sharing the truncated prefix of an earlier chunk
                5 if dup_chunks && !all_chunks.is_empty() => { let o = all_chunks[rng.random_range(0..all_chunks.len())]; h4(o[0], rng.random(), rng.random(), rng.random()) },
                _ => h4(rng.random(), rng.random(), rng.random(), rng.random()),
            };
            let len = rng.random_range(1..70_000u32);
            chunks.push(CASChunkSequenceEntry::new(hash, len, pos));
            pos += len;
            all_chunks.push(hash);
        }
        let mut header = CASChunkSequenceHeader::new(*x, n_chunks, pos);
        header.num_bytes_on_disk = pos / 2 + 1;
        c.xorbs.insert(*x, MDBCASInfo { metadata: header, chunks });
    }
    let fkeys = make_keys(rng, n_files, dist, groups);
    for (i, f) in fkeys.iter().enumerate() {
        let n_seg = if i % 53 == 7 { 0 } else { 1 + (i * 5 + 1) % 4 };
        let (ver, ext) = (i % 2 == 1, (i / 2) % 2 == 1);
        let mut segments = vec![];
        for _ in 0..n_seg {
            let x = if xkeys.is_empty() { h4(rng.random(), 2, 3, 4) } else { xkeys[rng.random_range(0..xkeys.len())] };
            let a = rng.random_range(0..5u32);
            segments.push(FileDataSequenceEntry::new(x, rng.random_range(1..1_000_000u32), a, a + 1 + rng.random_range(0..3u32)));
        }
        let verification = if ver { (0..n_seg).map(|_| FileVerificationEntry::new(h4(rng.random(), rng.random(), rng.random(), rng.random()))).collect() } else { vec![] };
        let metadata_ext = ext.then(|| FileMetadataExt::new(h4(rng.random(), rng.random(), rng.random(), rng.random())));
        c.files.insert(*f, MDBFileInfo { metadata: FileDataSequenceHeader::new(*f, n_seg, ver, ext), segments, verification, metadata_ext });
    }
    c
}

// independent byte layout of the records
fn put_hash(o: &mut Vec<u8>, h: &MerkleHash) { for w in 0..4 { o.extend_from_slice(&h[w].to_le_bytes()); } }
fn layout_file(f: &MDBFileInfo) -> Vec<u8> {
    let mut o = vec![];
    put_hash(&mut o, &f.metadata.file_hash);
    o.extend_from_slice(&f.metadata.file_flags.to_le_bytes());
    o.extend_from_slice(&(f.segments.len() as u32).to_le_bytes());
    o.extend_from_slice(&[0u8; 8]);
    for s in &f.segments {
        put_hash(&mut o, &s.cas_hash);
        for v in [s.cas_flags, s.unpacked_segment_bytes, s.chunk_index_start, s.chunk_index_end] { o.extend_from_slice(&v.to_le_bytes()); }
    }
    for v in &f.verification { put_hash(&mut o, &v.range_hash); o.extend_from_slice(&[0u8; 16]); }
    if let Some(m) = &f.metadata_ext { put_hash(&mut o, &m.sha256); o.extend_from_slice(&[0u8; 16]); }
    o
}
fn layout_xorb(x: &MDBCASInfo) -> Vec<u8> {
    let mut o = vec![];
    put_hash(&mut o, &x.metadata.cas_hash);
    for v in [x.metadata.cas_flags, x.chunks.len() as u32, x.metadata.num_bytes_in_cas, x.metadata.num_bytes_on_disk] { o.extend_from_slice(&v.to_le_bytes()); }
    for c in &x.chunks {
        put_hash(&mut o, &c.chunk_hash);
        o.extend_from_slice(&c.chunk_byte_range_start.to_le_bytes()); // (on disk the range start precedes the length)
        o.extend_from_slice(&c.unpacked_segment_bytes.to_le_bytes());
        o.extend_from_slice(&[0u8; 8]);
    }
    o
}
fn bookend() -> Vec<u8> { let mut o = vec![0xffu8; 32]; o.extend_from_slice(&[0u8; 16]); o }

// ---------------------------------------------------------------------------------------------------------------------------------
// truthfulness of a dedup answer (C05)
// ---------------------------------------------------------------------------------------------------------------------------------

fn truthful(c: &Contents, q: &[MerkleHash], ans: &Option<(usize, FileDataSequenceEntry)>) -> Result<(), String> {
    let Some((n, e)) = ans else { return Ok(()) };
    let Some(x) = c.xorbs.get(&e.cas_hash) else { return Err(format!("it names xorb {} which is not in the shard", hx(&e.cas_hash))) };
    let (a, b) = (e.chunk_index_start as usize, e.chunk_index_end as usize);
    if *n == 0 || *n > q.len() { return Err(format!("it reports {n} matched hashes for a query of {}", q.len())); }
    if b != a + n || b > x.chunks.len() {
        return Err(format!("it reports {n} hashes at chunks [{a}, {b}) of xorb {} which has {} chunks", hx(&e.cas_hash), x.chunks.len()));
    }
    for i in 0..*n {
        if x.chunks[a + i].chunk_hash != q[i] {
            return Err(format!("it reports {n} hashes at chunks [{a}, {b}) of xorb {}, but chunk {} of that xorb is not query hash #{i}", hx(&e.cas_hash), a + i));
        }
    }
    let bytes: u64 = x.chunks[a..b].iter().map(|c| c.unpacked_segment_bytes as u64).sum();
    if bytes != e.unpacked_segment_bytes as u64 {
        return Err(format!("it reports {} bytes for chunks [{a}, {b}) of xorb {} whose lengths sum to {bytes}", e.unpacked_segment_bytes, hx(&e.cas_hash)));
    }
    Ok(())
}

/// query set: for xorb X (in shard order) runs starting at several positions and reaching X's last chunk, followed by further hashes
fn queries(rng: &mut StdRng, c: &Contents, limit: usize) -> Vec<(String, Vec<MerkleHash>)> {
    let xs: Vec<&MDBCASInfo> = c.xorbs.values().collect();
    let ones = h4(!0, !0, !0, !0);
    let mut out = vec![];
    let stride = (xs.len() / limit.max(1)).max(1);
    for (k, x) in xs.iter().enumerate() {
        if x.chunks.is_empty() || (k % stride != 0 && k + 1 != xs.len()) { continue; }
        let n = x.chunks.len();
        let next_record = xs.get(k + 1).map(|y| y.metadata.cas_hash).unwrap_or(ones);
        for a in [0, n / 2, n - 1] {
            let run: Vec<MerkleHash> = x.chunks[a..].iter().map(|c| c.chunk_hash).collect();
            let tag = format!("chunks [{a}, {n}) of xorb #{k} {} ({n} chunks)", hx(&x.metadata.cas_hash));
            out.push((format!("{tag}, nothing following"), run.clone()));
            let mut q = run.clone(); q.push(h4(rng.random(), 1, 2, 3));
            out.push((format!("{tag} followed by an unknown hash"), q));
            let mut q = run.clone(); q.push(next_record); q.push(h4(rng.random(), 1, 2, 3));
            out.push((format!("{tag} followed by the hash of the record stored right after that xorb ({}) and an unknown hash", if k + 1 < xs.len() { "the next xorb's hash" } else { "the all-ones end marker" }), q));
            if let Some(y) = xs.get(k + 1).and_then(|y| y.chunks.first()) {
                let mut q = run.clone(); q.push(y.chunk_hash);
                out.push((format!("{tag} followed by the first chunk of the next xorb"), q));
            }
            if n >= 2 && a + 1 < n {
                let mut q = run.clone(); q[1] = h4(rng.random(), 9, 9, 9);
                out.push((format!("{tag} with the second hash replaced by an unknown one"), q));
            }
        }
    }
    for i in 0..20 {
        out.push((format!("unknown hashes #{i}"), vec![h4(rng.random(), rng.random(), 0, 0), h4(rng.random(), 0, 0, 0)]));
    }
    out
}

// ---------------------------------------------------------------------------------------------------------------------------------
// checks
// ---------------------------------------------------------------------------------------------------------------------------------

fn build_mem(ctx: &str, c: &Contents, rng: &mut StdRng) -> MDBInMemoryShard {
    let mut mem = MDBInMemoryShard::default();
    // insertion order must not matter: shuffle
    let mut xs: Vec<&MDBCASInfo> = c.xorbs.values().collect();
    let mut fs: Vec<&MDBFileInfo> = c.files.values().collect();
    for i in (1..xs.len()).rev() { xs.swap(i, rng.random_range(0..=i)); }
    for i in (1..fs.len()).rev() { fs.swap(i, rng.random_range(0..=i)); }
    for x in xs { guarded(ctx, || mem.add_cas_block(x.clone())).unwrap_or_else(|e| witness(format!("{ctx}: add_cas_block failed: {e}"))); }
    for f in fs { guarded(ctx, || mem.add_file_reconstruction_info(f.clone())).unwrap_or_else(|e| witness(format!("{ctx}: add_file_reconstruction_info failed: {e}"))); }
    mem
}

fn absent_hashes(rng: &mut StdRng, stored: &BTreeMap<MerkleHash, impl Sized>) -> Vec<MerkleHash> {
    let mut v = vec![h4(0, 0, 0, 1), h4(0, 5, 5, 5), h4(1, 5, 5, 5), h4(u64::MAX, 5, 5, 5), h4(u64::MAX - 1, 5, 5, 5), h4(u64::MAX, u64::MAX, u64::MAX, u64::MAX - 1)];
    for _ in 0..60 { v.push(h4(rng.random(), rng.random(), rng.random(), rng.random())); }
    let keys: Vec<&MerkleHash> = stored.keys().collect();
    for _ in 0..60.min(keys.len() * 2) {
        let k = keys[rng.random_range(0..keys.len())];
        v.push(h4(k[0], k[1] ^ 1, k[2], k[3])); // same truncated prefix, different hash
        v.push(h4(k[0].wrapping_add(1), k[1], k[2], k[3]));
        v.push(h4(k[0].wrapping_sub(1), k[1], k[2], k[3]));
    }
    v.retain(|h| !stored.contains_key(h));
    v
}

fn check_serialized(rng: &mut StdRng, name: &str, c: &Contents) {
    let ctx = format!("shard '{name}' ({} files, {} xorbs, {} chunks; VERIF_SEED selects the random parts)", c.files.len(), c.xorbs.len(), c.xorbs.values().map(|x| x.chunks.len()).sum::<usize>());
    let mem = build_mem(&ctx, c, rng);
    let mut bytes = vec![];
    let info = guarded(&ctx, || MDBShardInfo::serialize_from(&mut bytes, &mem)).unwrap_or_else(|e| witness(format!("{ctx}: serialize_from failed: {e}")));
    let loaded = guarded(&ctx, || MDBShardInfo::load_from_reader(&mut Cursor::new(&bytes[..]))).unwrap_or_else(|e| witness(format!("{ctx}: load_from_reader fails on the serialized shard: {e}")));
    if loaded.metadata != info.metadata {
        witness(format!("{ctx}: the footer read back differs from the one serialize_from returned"));
    }
    let r = &mut Cursor::new(&bytes[..]);

    // sizes and totals
    let mat: u64 = c.files.values().flat_map(|f| f.segments.iter()).map(|s| s.unpacked_segment_bytes as u64).sum();
    let stored: u64 = c.xorbs.values().map(|x| x.metadata.num_bytes_in_cas as u64).sum();
    let on_disk: u64 = c.xorbs.values().map(|x| x.metadata.num_bytes_on_disk as u64).sum();
    let n_chunks: usize = c.xorbs.values().map(|x| x.chunks.len()).sum();
    if bytes.len() as u64 != mem.shard_file_size() || loaded.num_bytes() != bytes.len() as u64 {
        witness(format!("{ctx}: the serialized shard has {} bytes, the in-memory accounting says {}, the footer-derived size is {}", bytes.len(), mem.shard_file_size(), loaded.num_bytes()));
    }
    if (loaded.materialized_bytes(), loaded.stored_bytes(), loaded.stored_bytes_on_disk()) != (mat, stored, on_disk) || (mem.materialized_bytes(), mem.stored_bytes(), mem.stored_bytes_on_disk()) != (mat, stored, on_disk) {
        witness(format!("{ctx}: byte totals (materialized, stored, on disk) are {:?} in the footer, {:?} in memory; the records sum to {:?}", (loaded.materialized_bytes(), loaded.stored_bytes(), loaded.stored_bytes_on_disk()), (mem.materialized_bytes(), mem.stored_bytes(), mem.stored_bytes_on_disk()), (mat, stored, on_disk)));
    }
    if (loaded.num_file_entries(), loaded.num_cas_entries(), loaded.total_num_chunks()) != (c.files.len(), c.xorbs.len(), n_chunks) {
        witness(format!("{ctx}: footer counts (files, xorbs, chunks) {:?} differ from the contents {:?}", (loaded.num_file_entries(), loaded.num_cas_entries(), loaded.total_num_chunks()), (c.files.len(), c.xorbs.len(), n_chunks)));
    }

    // independent layout of the two info sections and the three lookup tables
    let m = &loaded.metadata;
    let mut want = vec![];
    let mut file_lookup = vec![];
    let mut idx = 0u32;
    for (h, f) in &c.files { file_lookup.push((h[0], idx)); let l = layout_file(f); idx += (l.len() / 48) as u32; want.extend(l); }
    want.extend(bookend());
    if bytes.get(m.file_info_offset as usize..m.cas_info_offset as usize) != Some(&want[..]) {
        witness(format!("{ctx}: the file-info section (bytes [{}, {})) is not the concatenation of the {} stored file records in hash order plus the end marker", m.file_info_offset, m.cas_info_offset, c.files.len()));
    }
    let mut want = vec![];
    let mut cas_lookup = vec![];
    let mut chunk_lookup = vec![];
    let mut idx = 0u32;
    for (h, x) in &c.xorbs {
        cas_lookup.push((h[0], idx));
        for (j, ch) in x.chunks.iter().enumerate() { chunk_lookup.push((ch.chunk_hash[0], idx, j as u32)); }
        idx += 1 + x.chunks.len() as u32;
        want.extend(layout_xorb(x));
    }
    want.extend(bookend());
    if bytes.get(m.cas_info_offset as usize..m.file_lookup_offset as usize) != Some(&want[..]) {
        witness(format!("{ctx}: the xorb-info section (bytes [{}, {})) is not the concatenation of the {} stored xorb records in hash order plus the end marker", m.cas_info_offset, m.file_lookup_offset, c.xorbs.len()));
    }
    let table12 = |t: &[(u64, u32)]| t.iter().flat_map(|(k, v)| k.to_le_bytes().into_iter().chain(v.to_le_bytes())).collect::<Vec<u8>>();
    if bytes.get(m.file_lookup_offset as usize..m.cas_lookup_offset as usize) != Some(&table12(&file_lookup)[..]) {
        witness(format!("{ctx}: the file lookup table is not the sorted list of (truncated hash, record index) of the stored files"));
    }
    if bytes.get(m.cas_lookup_offset as usize..m.chunk_lookup_offset as usize) != Some(&table12(&cas_lookup)[..]) {
        witness(format!("{ctx}: the xorb lookup table is not the sorted list of (truncated hash, record index) of the stored xorbs"));
    }
    {
        let got = bytes.get(m.chunk_lookup_offset as usize..m.footer_offset as usize).unwrap_or(&[]);
        let mut got_entries: Vec<(u64, u32, u32)> = got.chunks_exact(16).map(|e| (u64::from_le_bytes(e[..8].try_into().unwrap()), u32::from_le_bytes(e[8..12].try_into().unwrap()), u32::from_le_bytes(e[12..].try_into().unwrap()))).collect();
        if got.len() != 16 * chunk_lookup.len() || !got_entries.windows(2).all(|w| w[0].0 <= w[1].0) {
            witness(format!("{ctx}: the chunk lookup table has {} bytes for {} chunks or is not sorted by truncated hash", got.len(), chunk_lookup.len()));
        }
        got_entries.sort();
        chunk_lookup.sort();
        if got_entries != chunk_lookup {
            witness(format!("{ctx}: the chunk lookup table does not list exactly the (truncated hash, xorb record index, chunk index) of the stored chunks"));
        }
    }

    // seekable reader: every stored file, every stored xorb
    for (h, f) in &c.files {
        let same_prefix = c.files.keys().filter(|k| k[0] == h[0]).count();
        match guarded(&ctx, || loaded.get_file_reconstruction_info(r, h)) {
            Ok(Some(got)) if got == *f => {},
            Ok(Some(got)) => witness(format!("{ctx}: get_file_reconstruction_info({}) returns a record that differs from the stored one (returned hash {}, {} segments; stored {} segments)", hx(h), hx(&got.metadata.file_hash), got.segments.len(), f.segments.len())),
            Ok(None) => witness(format!("{ctx}: get_file_reconstruction_info({}) reports not-found for a stored file (sorted position {} of {}, {same_prefix} stored file(s) share its truncated prefix)", hx(h), c.files.keys().position(|k| k == h).unwrap(), c.files.len())),
            Err(e) => witness(format!("{ctx}: get_file_reconstruction_info({}) fails for a stored file ({same_prefix} stored file(s) share its truncated prefix): {e}", hx(h))),
        }
    }
    let read_xorb_at = |r: &mut Cursor<&[u8]>, index: u32| -> Option<MDBCASInfo> {
        r.seek(SeekFrom::Start(m.cas_info_offset + 48 * index as u64)).ok()?;
        MDBCASInfo::deserialize(r).ok().flatten()
    };
    for (h, x) in &c.xorbs {
        let same_prefix = c.xorbs.keys().filter(|k| k[0] == h[0]).count();
        let mut idxs = [0u32; 8];
        match guarded(&ctx, || loaded.get_cas_info_index_by_hash(r, h, &mut idxs)) {
            Ok(n) => {
                let hits: Vec<MDBCASInfo> = idxs[..n].iter().filter_map(|i| guarded(&ctx, || read_xorb_at(r, *i))).filter(|y| y.metadata.cas_hash == *h).collect();
                if hits.len() != 1 || hits[0] != *x {
                    witness(format!("{ctx}: xorb lookup of stored xorb {} (sorted position {} of {}, {same_prefix} stored xorb(s) share its truncated prefix) yields {n} candidate indices {:?}, of which {} hold that xorb{}", hx(h), c.xorbs.keys().position(|k| k == h).unwrap(), c.xorbs.len(), &idxs[..n], hits.len(), if hits.len() == 1 { " but with a different record" } else { "" }));
                }
            },
            Err(e) => witness(format!("{ctx}: get_cas_info_index_by_hash({}) fails for a stored xorb ({same_prefix} share its truncated prefix): {e}", hx(h))),
        }
    }
    // absent hashes
    for h in absent_hashes(rng, &c.files) {
        match guarded(&ctx, || loaded.get_file_reconstruction_info(r, &h)) {
            Ok(None) => {},
            Ok(Some(got)) => witness(format!("{ctx}: get_file_reconstruction_info({}) returns a record (hash {}) for a hash that was never stored", hx(&h), hx(&got.metadata.file_hash))),
            Err(e) => witness(format!("{ctx}: get_file_reconstruction_info({}) fails for an absent hash instead of reporting not-found: {e}", hx(&h))),
        }
    }
    for h in absent_hashes(rng, &c.xorbs) {
        let mut idxs = [0u32; 8];
        match guarded(&ctx, || loaded.get_cas_info_index_by_hash(r, &h, &mut idxs)) {
            Ok(n) => {
                if idxs[..n].iter().filter_map(|i| read_xorb_at(r, *i)).any(|y| y.metadata.cas_hash == h) {
                    witness(format!("{ctx}: xorb lookup finds a record for {} which was never stored", hx(&h)));
                }
            },
            Err(e) => witness(format!("{ctx}: get_cas_info_index_by_hash({}) fails for an absent hash: {e}", hx(&h))),
        }
    }
    // scanning readers
    let scanned = guarded(&ctx, || loaded.read_all_file_info_sections(r)).unwrap_or_else(|e| witness(format!("{ctx}: read_all_file_info_sections fails: {e}")));
    if scanned != c.files.values().cloned().collect::<Vec<_>>() {
        witness(format!("{ctx}: read_all_file_info_sections lists {} records that differ from the {} stored ones", scanned.len(), c.files.len()));
    }
    let scanned = guarded(&ctx, || loaded.read_all_cas_blocks_full(r)).unwrap_or_else(|e| witness(format!("{ctx}: read_all_cas_blocks_full fails: {e}")));
    if scanned != c.xorbs.values().cloned().collect::<Vec<_>>() {
        witness(format!("{ctx}: read_all_cas_blocks_full lists {} records that differ from the {} stored ones", scanned.len(), c.xorbs.len()));
    }
    // streaming reader and minimal reader: compared through the independent record layout
    let want_files: Vec<Vec<u8>> = c.files.values().map(layout_file).collect();
    let want_xorbs: Vec<Vec<u8>> = c.xorbs.values().map(layout_xorb).collect();
    let (mut sf, mut sx) = (vec![], vec![]);
    let res = guarded(&ctx, || {
        mdb_shard::streaming_shard::process_shard_stream(
            &mut &bytes[..],
            Some(|v: mdb_shard::file_structs::MDBFileInfoView| { let mut o = vec![]; v.serialize(&mut o)?; sf.push(o); Ok(()) }),
            Some(|v: mdb_shard::cas_structs::MDBCASInfoView| { let mut o = vec![]; v.serialize(&mut o)?; sx.push(o); Ok(()) }),
        )
    });
    if let Err(e) = res { witness(format!("{ctx}: process_shard_stream fails: {e}")); }
    if sf != want_files || sx != want_xorbs {
        witness(format!("{ctx}: the streaming reader delivers {} file and {} xorb records that differ from the {} / {} stored ones", sf.len(), sx.len(), want_files.len(), want_xorbs.len()));
    }
    let min = guarded(&ctx, || MDBMinimalShard::from_reader(&mut &bytes[..], true, true)).unwrap_or_else(|e| witness(format!("{ctx}: MDBMinimalShard::from_reader fails: {e}")));
    if min.num_files() != want_files.len() || min.num_cas() != want_xorbs.len() {
        witness(format!("{ctx}: the minimal reader holds {} files and {} xorbs, stored are {} and {}", min.num_files(), min.num_cas(), want_files.len(), want_xorbs.len()));
    }
    for (i, f) in c.files.values().enumerate() {
        let v = guarded(&ctx, || min.file(i));
        let ok = v.file_hash() == f.metadata.file_hash && v.num_entries() == f.segments.len() && (0..f.segments.len()).all(|j| v.entry(j) == f.segments[j]) && v.contains_verification() == f.contains_verification() && (!f.contains_verification() || (0..f.segments.len()).all(|j| v.verification(j) == f.verification[j])) && { let mut o = vec![]; v.serialize(&mut o).is_ok() && o == want_files[i] };
        if !ok { witness(format!("{ctx}: the minimal reader's file record #{i} differs from the stored record {}", hx(&f.metadata.file_hash))); }
    }
    for (i, x) in c.xorbs.values().enumerate() {
        let v = guarded(&ctx, || min.cas(i));
        let ok = v.cas_hash() == x.metadata.cas_hash && v.num_entries() == x.chunks.len() && (0..x.chunks.len()).all(|j| v.chunk(j) == x.chunks[j]) && *v.header() == x.metadata;
        if !ok { witness(format!("{ctx}: the minimal reader's xorb record #{i} differs from the stored record {}", hx(&x.metadata.cas_hash))); }
    }
    // dedup queries on the serialized shard and on the in-memory index
    for (what, q) in queries(rng, c, 150) {
        let ans = guarded(&ctx, || loaded.chunk_hash_dedup_query(r, &q)).unwrap_or_else(|e| witness(format!("{ctx}: chunk_hash_dedup_query on the serialized shard fails for the query [{what}]: {e}")));
        if let Err(why) = truthful(c, &q, &ans) {
            witness(format!("{ctx}: chunk_hash_dedup_query on the serialized shard, query = {what} ({} hashes): the answer is untruthful: {why}", q.len()));
        }
        let ans = guarded(&ctx, || mem.chunk_hash_dedup_query(&q));
        if let Err(why) = truthful(c, &q, &ans) {
            witness(format!("{ctx}: chunk_hash_dedup_query on the in-memory shard, query = {what} ({} hashes): the answer is untruthful: {why}", q.len()));
        }
    }
}

// ---------------------------------------------------------------------------------------------------------------------------------
// every reader lists the same records (C09 "identically through the seekable, streaming and minimal readers")
// ---------------------------------------------------------------------------------------------------------------------------------
struct SyncDribble<'a> { data: &'a [u8], pos: usize, max: usize }
impl Read for SyncDribble<'_> {
    fn read(&mut self, buf: &mut [u8]) -> std::io::Result<usize> {
        let n = buf.len().min(self.max).min(self.data.len() - self.pos);
        buf[..n].copy_from_slice(&self.data[self.pos..self.pos + n]);
        self.pos += n;
        Ok(n)
    }
}
struct AsyncDribble<'a> { data: &'a [u8], pos: usize, max: usize }
impl futures::io::AsyncRead for AsyncDribble<'_> {
    fn poll_read(mut self: std::pin::Pin<&mut Self>, _cx: &mut std::task::Context<'_>, buf: &mut [u8]) -> std::task::Poll<std::io::Result<usize>> {
        let n = buf.len().min(self.max).min(self.data.len() - self.pos);
        let pos = self.pos;
        buf[..n].copy_from_slice(&self.data[pos..pos + n]);
        self.pos += n;
        std::task::Poll::Ready(Ok(n))
    }
}
fn describe_file_bytes(b: &[u8]) -> String {
    if b.len() < 48 { return format!("<{} bytes>", b.len()); }
    let w = |o: usize| u64::from_le_bytes(b[o..o + 8].try_into().unwrap());
    let flags = u32::from_le_bytes(b[32..36].try_into().unwrap());
    let n = u32::from_le_bytes(b[36..40].try_into().unwrap());
    format!("file [{:#x}, {:#x}, ..] flags {:#x} num_entries {n}, {} entries of 48 bytes after the header{}", w(0), w(8), flags, b.len() / 48 - 1,
        if b.len() > 48 && n == 0 { format!(" (the last one starts with {:#x})", w(b.len() - 48)) } else { String::new() })
}
fn describe_xorb_bytes(b: &[u8]) -> String {
    if b.len() < 48 { return format!("<{} bytes>", b.len()); }
    let w = |o: usize| u64::from_le_bytes(b[o..o + 8].try_into().unwrap());
    format!("xorb [{:#x}, {:#x}, ..] num_entries {}, {} entries after the header", w(0), w(8), u32::from_le_bytes(b[36..40].try_into().unwrap()), b.len() / 48 - 1)
}
/// the list delivered by one reader against the independent layout of the stored records
fn same_list(ctx: &str, reader: &str, kind: &str, got: &[Vec<u8>], want: &[Vec<u8>]) {
    if got == want { return; }
    let describe = |b: &[u8]| if kind == "file" { describe_file_bytes(b) } else { describe_xorb_bytes(b) };
    let at = (0..got.len().min(want.len())).find(|&i| got[i] != want[i]);
    let detail = match at {
        Some(i) => format!("record #{i} (hash order) is stored as {{{}}} but delivered as {{{}}}", describe(&want[i]), describe(&got[i])),
        None if got.len() > want.len() => format!("the first {} agree, then it delivers extra records, the first being {{{}}}", want.len(), describe(&got[want.len()])),
        None => format!("the first {} agree, then it stops; the next stored record is {{{}}}", got.len(), describe(&want[got.len()])),
    };
    let stored: Vec<String> = if kind == "file" && want.len() <= 12 { want.iter().map(|b| describe(b)).collect() } else { vec![] };
    witness(format!("{ctx}: {reader} lists {} {kind} records, the shard stores {}: {detail}{}", got.len(), want.len(), if stored.is_empty() { String::new() } else { format!("; stored file records in order: {}", stored.join(" | ")) }));
}
type ViewLists = (Vec<Vec<u8>>, Vec<Vec<u8>>);
fn minimal_lists(ctx: &str, what: &str, min: &MDBMinimalShard) -> ViewLists {
    let f = (0..min.num_files()).map(|i| { let mut o = vec![]; guarded(ctx, || min.file(i).serialize(&mut o)).unwrap_or_else(|e| witness(format!("{ctx}: {what}: file({i}).serialize fails: {e}"))); o }).collect();
    let x = (0..min.num_cas()).map(|i| { let mut o = vec![]; guarded(ctx, || min.cas(i).serialize(&mut o)).unwrap_or_else(|e| witness(format!("{ctx}: {what}: cas({i}).serialize fails: {e}"))); o }).collect();
    (f, x)
}

fn check_every_reader(rng: &mut StdRng, name: &str, c: &Contents) {
    use mdb_shard::cas_structs::MDBCASInfoView;
    use mdb_shard::file_structs::MDBFileInfoView;
    use mdb_shard::streaming_shard::{
        process_shard_cas_info_section, process_shard_cas_info_section_async, process_shard_file_info_section, process_shard_file_info_section_async,
        process_shard_stream, process_shard_stream_async,
    };
    let ctx = format!("shard '{name}' ({} files of which {} have zero segments, {} xorbs of which {} have zero chunks)", c.files.len(), c.files.values().filter(|f| f.segments.is_empty()).count(), c.xorbs.len(), c.xorbs.values().filter(|x| x.chunks.is_empty()).count());
    let mem = build_mem(&ctx, c, rng);
    let mut bytes = vec![];
    guarded(&ctx, || MDBShardInfo::serialize_from(&mut bytes, &mem)).unwrap_or_else(|e| witness(format!("{ctx}: serialize_from failed: {e}")));
    let want_files: Vec<Vec<u8>> = c.files.values().map(layout_file).collect();
    let want_xorbs: Vec<Vec<u8>> = c.xorbs.values().map(layout_xorb).collect();
    let none: Vec<Vec<u8>> = vec![];
    const HDR: usize = 48; // MDBShardFileHeader: 32-byte tag, version, footer size

    // the in-memory shard
    same_list(&ctx, "the in-memory shard (file_content)", "file", &mem.file_content.values().map(layout_file).collect::<Vec<_>>(), &want_files);
    same_list(&ctx, "the in-memory shard (cas_content)", "xorb", &mem.cas_content.values().map(|x| layout_xorb(x)).collect::<Vec<_>>(), &want_xorbs);

    // seekable readers
    let loaded = guarded(&ctx, || MDBShardInfo::load_from_reader(&mut Cursor::new(&bytes[..]))).unwrap_or_else(|e| witness(format!("{ctx}: load_from_reader fails: {e}")));
    let r = &mut Cursor::new(&bytes[..]);
    let got = guarded(&ctx, || loaded.read_all_file_info_sections(r)).unwrap_or_else(|e| witness(format!("{ctx}: read_all_file_info_sections fails: {e}")));
    same_list(&ctx, "the seekable reader read_all_file_info_sections", "file", &got.iter().map(layout_file).collect::<Vec<_>>(), &want_files);
    let got = guarded(&ctx, || loaded.read_all_cas_blocks_full(r)).unwrap_or_else(|e| witness(format!("{ctx}: read_all_cas_blocks_full fails: {e}")));
    same_list(&ctx, "the seekable reader read_all_cas_blocks_full", "xorb", &got.iter().map(layout_xorb).collect::<Vec<_>>(), &want_xorbs);
    let got = guarded(&ctx, || loaded.read_all_cas_blocks(r)).unwrap_or_else(|e| witness(format!("{ctx}: read_all_cas_blocks fails: {e}")));
    let rebuilt: Vec<Vec<u8>> = got.iter().map(|(h, pos)| { let (a, b) = (*pos as usize, *pos as usize + 48 * (1 + h.num_entries as usize)); bytes.get(a..b).map(|x| x.to_vec()).unwrap_or_default() }).collect();
    same_list(&ctx, "the seekable reader read_all_cas_blocks (records re-assembled from the positions it reports)", "xorb", &rebuilt, &want_xorbs);
    if got.iter().map(|(h, _)| h.clone()).collect::<Vec<_>>() != c.xorbs.values().map(|x| x.metadata.clone()).collect::<Vec<_>>() {
        witness(format!("{ctx}: read_all_cas_blocks returns headers that differ from the stored xorb headers"));
    }
    let got = guarded(&ctx, || MDBShardInfo::read_file_info_ranges(&mut Cursor::new(&bytes[..]))).unwrap_or_else(|e| witness(format!("{ctx}: read_file_info_ranges fails: {e}")));
    let rebuilt: Vec<Vec<u8>> = got.iter().map(|(_h, (a, b), ver, sha)| {
        let mut o = bytes.get((*a as usize).saturating_sub(48)..*b as usize).map(|x| x.to_vec()).unwrap_or_default();
        if let Some((va, vb)) = ver { o.extend_from_slice(bytes.get(*va as usize..*vb as usize).unwrap_or(&[])); }
        if let Some(sha) = sha { put_hash(&mut o, sha); o.extend_from_slice(&[0u8; 16]); }
        o
    }).collect();
    same_list(&ctx, "the seekable reader read_file_info_ranges (records re-assembled from the byte ranges and sha256 it reports)", "file", &rebuilt, &want_files);
    if got.iter().map(|g| g.0).collect::<Vec<_>>() != c.files.keys().cloned().collect::<Vec<_>>() {
        witness(format!("{ctx}: read_file_info_ranges reports file hashes that differ from the stored ones"));
    }

    // sync streaming
    for max in [usize::MAX, 1, 7] {
        let how = if max == usize::MAX { "reader handing out everything".to_string() } else { format!("reader handing out {max} byte(s) per call") };
        let (mut sf, mut sx) = (vec![], vec![]);
        let res = guarded(&ctx, || process_shard_stream(
            &mut SyncDribble { data: &bytes, pos: 0, max },
            Some(|v: MDBFileInfoView| { let mut o = vec![]; v.serialize(&mut o)?; sf.push(o); Ok(()) }),
            Some(|v: MDBCASInfoView| { let mut o = vec![]; v.serialize(&mut o)?; sx.push(o); Ok(()) }),
        ));
        if let Err(e) = res { witness(format!("{ctx}: process_shard_stream ({how}) fails: {e}")); }
        same_list(&ctx, &format!("the sync streaming reader process_shard_stream ({how})"), "file", &sf, &want_files);
        same_list(&ctx, &format!("the sync streaming reader process_shard_stream ({how})"), "xorb", &sx, &want_xorbs);
        let (mut sf, mut sx) = (vec![], vec![]);
        let mut rd = SyncDribble { data: &bytes[HDR..], pos: 0, max };
        let res = guarded(&ctx, || {
            process_shard_file_info_section(&mut rd, |v: MDBFileInfoView| { let mut o = vec![]; v.serialize(&mut o)?; sf.push(o); Ok(()) })?;
            process_shard_cas_info_section(&mut rd, |v: MDBCASInfoView| { let mut o = vec![]; v.serialize(&mut o)?; sx.push(o); Ok(()) })
        });
        if let Err(e) = res { witness(format!("{ctx}: process_shard_file_info_section + process_shard_cas_info_section ({how}) fail: {e}")); }
        same_list(&ctx, &format!("the sync walker process_shard_file_info_section ({how})"), "file", &sf, &want_files);
        same_list(&ctx, &format!("the sync walker process_shard_cas_info_section after it ({how})"), "xorb", &sx, &want_xorbs);
    }

    // async streaming
    for max in [usize::MAX, 1, 7] {
        let how = if max == usize::MAX { "async reader handing out everything".to_string() } else { format!("async reader handing out {max} byte(s) per poll") };
        let (mut sf, mut sx) = (vec![], vec![]);
        let res = guarded(&ctx, || futures::executor::block_on(process_shard_stream_async(
            &mut AsyncDribble { data: &bytes, pos: 0, max },
            Some(|v: MDBFileInfoView| { let mut o = vec![]; v.serialize(&mut o)?; sf.push(o); Ok(()) }),
            Some(|v: MDBCASInfoView| { let mut o = vec![]; v.serialize(&mut o)?; sx.push(o); Ok(()) }),
        )));
        if let Err(e) = res { witness(format!("{ctx}: process_shard_stream_async ({how}) fails: {e}; files delivered before the failure: {}", sf.len())); }
        same_list(&ctx, &format!("the ASYNC streaming reader process_shard_stream_async ({how})"), "file", &sf, &want_files);
        same_list(&ctx, &format!("the ASYNC streaming reader process_shard_stream_async ({how})"), "xorb", &sx, &want_xorbs);
        // without the file callback: the xorb list must be unaffected by what the file walker skipped
        let mut sx = vec![];
        let res = guarded(&ctx, || futures::executor::block_on(process_shard_stream_async(
            &mut AsyncDribble { data: &bytes, pos: 0, max },
            None::<fn(MDBFileInfoView) -> mdb_shard::error::Result<()>>,
            Some(|v: MDBCASInfoView| { let mut o = vec![]; v.serialize(&mut o)?; sx.push(o); Ok(()) }),
        )));
        if let Err(e) = res { witness(format!("{ctx}: process_shard_stream_async without a file callback ({how}) fails: {e}")); }
        same_list(&ctx, &format!("the ASYNC streaming reader process_shard_stream_async without a file callback ({how})"), "xorb", &sx, &want_xorbs);
        let (mut sf, mut sx) = (vec![], vec![]);
        let mut rd = AsyncDribble { data: &bytes[HDR..], pos: 0, max };
        let res = guarded(&ctx, || futures::executor::block_on(async {
            process_shard_file_info_section_async(&mut rd, |v: MDBFileInfoView| { let mut o = vec![]; v.serialize(&mut o)?; sf.push(o); Ok(()) }).await?;
            process_shard_cas_info_section_async(&mut rd, |v: MDBCASInfoView| { let mut o = vec![]; v.serialize(&mut o)?; sx.push(o); Ok(()) }).await
        }));
        if let Err(e) = res { witness(format!("{ctx}: process_shard_file_info_section_async + process_shard_cas_info_section_async ({how}) fail: {e}; files delivered before the failure: {}", sf.len())); }
        same_list(&ctx, &format!("the ASYNC walker process_shard_file_info_section_async ({how})"), "file", &sf, &want_files);
        same_list(&ctx, &format!("the ASYNC walker process_shard_cas_info_section_async after it ({how})"), "xorb", &sx, &want_xorbs);
    }

    // minimal readers
    let mut round_trip_src = None;
    for (inc_f, inc_x) in [(true, true), (true, false), (false, true)] {
        let wf = if inc_f { &want_files } else { &none };
        let wx = if inc_x { &want_xorbs } else { &none };
        let what = format!("MDBMinimalShard::from_reader(include_files={inc_f}, include_cas={inc_x})");
        let min = guarded(&ctx, || MDBMinimalShard::from_reader(&mut &bytes[..], inc_f, inc_x)).unwrap_or_else(|e| witness(format!("{ctx}: {what} fails: {e}")));
        let (f, x) = minimal_lists(&ctx, &what, &min);
        same_list(&ctx, &what, "file", &f, wf);
        same_list(&ctx, &what, "xorb", &x, wx);
        for max in [usize::MAX, 5] {
            let what = format!("MDBMinimalShard::from_reader_async(include_files={inc_f}, include_cas={inc_x}{})", if max == 5 { ", 5 bytes per poll" } else { "" });
            let mina = guarded(&ctx, || futures::executor::block_on(MDBMinimalShard::from_reader_async(&mut AsyncDribble { data: &bytes, pos: 0, max }, inc_f, inc_x))).unwrap_or_else(|e| witness(format!("{ctx}: {what} fails: {e}")));
            let (f, x) = minimal_lists(&ctx, &what, &mina);
            same_list(&ctx, &what, "file", &f, wf);
            same_list(&ctx, &what, "xorb", &x, wx);
            if inc_f && inc_x && max == usize::MAX { round_trip_src = Some((min_clone(&min, &bytes, &ctx), mina)); }
        }
    }
    // MDBMinimalShard::serialize round trip (from the sync- and from the async-built minimal shard)
    let mat: u64 = c.files.values().flat_map(|f| f.segments.iter()).map(|s| s.unpacked_segment_bytes as u64).sum();
    let stored: u64 = c.xorbs.values().map(|x| x.metadata.num_bytes_in_cas as u64).sum();
    let on_disk: u64 = c.xorbs.values().map(|x| x.metadata.num_bytes_on_disk as u64).sum();
    if let Some((a, b)) = round_trip_src {
        for (src, min) in [("from_reader", a), ("from_reader_async", b)] {
            let what = format!("MDBMinimalShard::{src}(all) then serialize");
            let mut out = vec![];
            guarded(&ctx, || min.serialize(&mut out)).unwrap_or_else(|e| witness(format!("{ctx}: {what} fails: {e}")));
            let info = guarded(&ctx, || MDBShardInfo::load_from_reader(&mut Cursor::new(&out[..]))).unwrap_or_else(|e| witness(format!("{ctx}: {what}: the output does not load: {e}")));
            if (info.materialized_bytes(), info.stored_bytes(), info.stored_bytes_on_disk()) != (mat, stored, on_disk) {
                witness(format!("{ctx}: {what}: the footer totals (materialized, stored, on disk) are {:?}, the records sum to {:?}", (info.materialized_bytes(), info.stored_bytes(), info.stored_bytes_on_disk()), (mat, stored, on_disk)));
            }
            let r2 = &mut Cursor::new(&out[..]);
            let got = guarded(&ctx, || info.read_all_file_info_sections(r2)).unwrap_or_else(|e| witness(format!("{ctx}: {what}, read_all_file_info_sections fails: {e}")));
            same_list(&ctx, &format!("{what}, re-read by read_all_file_info_sections"), "file", &got.iter().map(layout_file).collect::<Vec<_>>(), &want_files);
            let got = guarded(&ctx, || info.read_all_cas_blocks_full(r2)).unwrap_or_else(|e| witness(format!("{ctx}: {what}, read_all_cas_blocks_full fails: {e}")));
            same_list(&ctx, &format!("{what}, re-read by read_all_cas_blocks_full"), "xorb", &got.iter().map(layout_xorb).collect::<Vec<_>>(), &want_xorbs);
            let m2 = guarded(&ctx, || MDBMinimalShard::from_reader(&mut &out[..], true, true)).unwrap_or_else(|e| witness(format!("{ctx}: {what}, MDBMinimalShard::from_reader of the output fails: {e}")));
            let (f, x) = minimal_lists(&ctx, &what, &m2);
            same_list(&ctx, &format!("{what}, re-read by MDBMinimalShard::from_reader"), "file", &f, &want_files);
            same_list(&ctx, &format!("{what}, re-read by MDBMinimalShard::from_reader"), "xorb", &x, &want_xorbs);
            let m3 = guarded(&ctx, || futures::executor::block_on(MDBMinimalShard::from_reader_async(&mut AsyncDribble { data: &out, pos: 0, max: 11 }, true, true))).unwrap_or_else(|e| witness(format!("{ctx}: {what}, MDBMinimalShard::from_reader_async of the output fails: {e}")));
            let (f, x) = minimal_lists(&ctx, &what, &m3);
            same_list(&ctx, &format!("{what}, re-read by MDBMinimalShard::from_reader_async"), "file", &f, &want_files);
            same_list(&ctx, &format!("{what}, re-read by MDBMinimalShard::from_reader_async"), "xorb", &x, &want_xorbs);
        }
    }
}
/// MDBMinimalShard is not Clone: build it again
fn min_clone(_m: &MDBMinimalShard, bytes: &[u8], ctx: &str) -> MDBMinimalShard {
    guarded(ctx, || MDBMinimalShard::from_reader(&mut &bytes[..], true, true)).unwrap_or_else(|e| witness(format!("{ctx}: MDBMinimalShard::from_reader fails: {e}")))
}

/// file records with zero segments in all four flag combinations mixed with ordinary records of all four combinations; `order`
/// is the hash order of the 8 kinds (kind = zero?4:0 | ver?1:0 | ext?2:0), possibly with repetitions / omissions
fn zero_mix(rng: &mut StdRng, order: &[u8], zero_xorbs_at: &[usize], n_xorbs: usize) -> Contents {
    let mut c = Contents::default();
    let mut xkeys = vec![];
    for i in 0..n_xorbs {
        let key = h4((i as u64 + 1) << 56 | rng.random::<u64>() >> 8, rng.random(), rng.random(), rng.random());
        let n_chunks = if zero_xorbs_at.contains(&i) { 0 } else { 1 + i % 4 };
        let mut pos = 0u32;
        let chunks: Vec<CASChunkSequenceEntry> = (0..n_chunks).map(|_| { let len = rng.random_range(1..70_000u32); let e = CASChunkSequenceEntry::new(h4(rng.random(), rng.random(), rng.random(), rng.random()), len, pos); pos += len; e }).collect();
        let mut header = CASChunkSequenceHeader::new(key, n_chunks, pos);
        header.num_bytes_on_disk = pos / 2 + 1;
        c.xorbs.insert(key, MDBCASInfo { metadata: header, chunks });
        xkeys.push(key);
    }
    for (i, kind) in order.iter().enumerate() {
        let key = h4((i as u64 + 1) << 56 | rng.random::<u64>() >> 8, rng.random(), rng.random(), rng.random());
        let (zero, ver, ext) = (kind & 4 != 0, kind & 1 != 0, kind & 2 != 0);
        let n_seg = if zero { 0 } else { 1 + i % 3 };
        let segments: Vec<FileDataSequenceEntry> = (0..n_seg).map(|_| {
            let x = if xkeys.is_empty() { h4(rng.random(), 2, 3, 4) } else { xkeys[rng.random_range(0..xkeys.len())] };
            FileDataSequenceEntry::new(x, rng.random_range(1..1_000_000u32), 0, 1)
        }).collect();
        let verification = if ver { (0..n_seg).map(|_| FileVerificationEntry::new(h4(rng.random(), rng.random(), rng.random(), rng.random()))).collect() } else { vec![] };
        // the sha256 entry of an empty file; random here so that a phantom record is recognisable
        let metadata_ext = ext.then(|| FileMetadataExt::new(h4(rng.random(), rng.random(), rng.random(), rng.random())));
        c.files.insert(key, MDBFileInfo { metadata: FileDataSequenceHeader::new(key, n_seg, ver, ext), segments, verification, metadata_ext });
    }
    c
}

// ---------------------------------------------------------------------------------------------------------------------------------
// every public lookup entry point; boundaries; error paths
// ---------------------------------------------------------------------------------------------------------------------------------
fn serialize_contents(ctx: &str, c: &Contents, rng: &mut StdRng) -> (MDBInMemoryShard, Vec<u8>) {
    let mem = build_mem(ctx, c, rng);
    let mut bytes = vec![];
    guarded(ctx, || MDBShardInfo::serialize_from(&mut bytes, &mem)).unwrap_or_else(|e| witness(format!("{ctx}: serialize_from failed: {e}")));
    (mem, bytes)
}
/// (truncated hash, xorb entry index, chunk index) of every stored chunk, sorted
fn chunk_table(c: &Contents) -> Vec<(u64, (u32, u32))> {
    let mut t = vec![];
    let mut idx = 0u32;
    for x in c.xorbs.values() {
        for (j, ch) in x.chunks.iter().enumerate() { t.push((ch.chunk_hash[0], (idx, j as u32))); }
        idx += 1 + x.chunks.len() as u32;
    }
    t.sort();
    t
}
fn check_entry_points(rng: &mut StdRng, name: &str, c: &Contents) {
    let ctx = format!("shard '{name}' ({} files, {} xorbs)", c.files.len(), c.xorbs.len());
    let (mem, bytes) = serialize_contents(&ctx, c, rng);
    let info = guarded(&ctx, || MDBShardInfo::load_from_reader(&mut Cursor::new(&bytes[..]))).unwrap_or_else(|e| witness(format!("{ctx}: load_from_reader fails: {e}")));
    let r = &mut Cursor::new(&bytes[..]);
    // file index lookup + read_file_info
    let mut idx = 0u32;
    for (h, f) in &c.files {
        let mut dest = [0u32; 8];
        let n = guarded(&ctx, || info.get_file_info_index_by_hash(r, h, &mut dest)).unwrap_or_else(|e| witness(format!("{ctx}: get_file_info_index_by_hash({}) fails for a stored file: {e}", hx(h))));
        if !dest[..n].contains(&idx) {
            witness(format!("{ctx}: get_file_info_index_by_hash({}) returns the entry indices {:?}, the record sits at entry index {idx}", hx(h), &dest[..n]));
        }
        for &i in &dest[..n] {
            let got = guarded(&ctx, || info.read_file_info(r, i)).unwrap_or_else(|e| witness(format!("{ctx}: read_file_info({i}) (an index returned for {}) fails: {e}", hx(h))));
            if (i == idx) != (got == *f) || got.metadata.file_hash[0] != h[0] {
                witness(format!("{ctx}: read_file_info({i}), an index returned by the lookup of {}, yields the record of {}", hx(h), hx(&got.metadata.file_hash)));
            }
        }
        idx += (layout_file(f).len() / 48) as u32;
    }
    // xorb lookup table
    let mut want_cas = vec![];
    let mut idx = 0u32;
    for (h, x) in &c.xorbs { want_cas.push((h[0], idx)); idx += 1 + x.chunks.len() as u32; }
    let got = guarded(&ctx, || info.read_full_cas_lookup(r)).unwrap_or_else(|e| witness(format!("{ctx}: read_full_cas_lookup fails: {e}")));
    if got != want_cas { witness(format!("{ctx}: read_full_cas_lookup returns {} entries that differ from the (truncated hash, entry index) list of the {} stored xorbs", got.len(), want_cas.len())); }
    // chunk table, with and without the lookup section
    let want_chunks = chunk_table(c);
    let mut got = guarded(&ctx, || info.read_all_truncated_hashes(r)).unwrap_or_else(|e| witness(format!("{ctx}: read_all_truncated_hashes fails: {e}")));
    got.sort();
    if got != want_chunks { witness(format!("{ctx}: read_all_truncated_hashes returns {} entries that differ from the {} stored chunks", got.len(), want_chunks.len())); }
    let min = guarded(&ctx, || MDBMinimalShard::from_reader(&mut &bytes[..], true, true)).unwrap_or_else(|e| witness(format!("{ctx}: MDBMinimalShard::from_reader fails: {e}")));
    let mut bare = vec![];
    guarded(&ctx, || min.serialize(&mut bare)).unwrap_or_else(|e| witness(format!("{ctx}: MDBMinimalShard::serialize fails: {e}")));
    let bare_info = guarded(&ctx, || MDBShardInfo::load_from_reader(&mut Cursor::new(&bare[..]))).unwrap_or_else(|e| witness(format!("{ctx}: the table-less shard does not load: {e}")));
    let mut got = guarded(&ctx, || bare_info.read_all_truncated_hashes(&mut Cursor::new(&bare[..]))).unwrap_or_else(|e| witness(format!("{ctx}: read_all_truncated_hashes on the table-less shard (MDBMinimalShard::serialize) fails: {e}")));
    got.sort();
    if got != want_chunks {
        let d = got.iter().zip(want_chunks.iter()).find(|(a, b)| a != b);
        witness(format!("{ctx}: read_all_truncated_hashes on the table-less re-serialisation (MDBMinimalShard::serialize; the chunk list is recomputed by walking the xorb section) returns {} entries that differ from the {} stored chunks; first difference (got, stored): {d:x?}", got.len(), want_chunks.len()));
    }
    // the scanning readers on the table-less shard (its footer counts are all zero)
    {
        let rb = &mut Cursor::new(&bare[..]);
        let got = guarded(&ctx, || bare_info.read_all_cas_blocks(rb)).unwrap_or_else(|e| witness(format!("{ctx}: read_all_cas_blocks on the table-less re-serialisation fails: {e}")));
        if got.iter().map(|b| b.0.clone()).collect::<Vec<_>>() != c.xorbs.values().map(|x| x.metadata.clone()).collect::<Vec<_>>() {
            witness(format!("{ctx}: read_all_cas_blocks on the table-less re-serialisation (MDBMinimalShard::serialize: no lookup tables, footer counts 0) lists {} xorb headers, the shard stores {}", got.len(), c.xorbs.len()));
        }
        let got = guarded(&ctx, || bare_info.read_all_cas_blocks_full(rb)).unwrap_or_else(|e| witness(format!("{ctx}: read_all_cas_blocks_full on the table-less re-serialisation fails: {e}")));
        if got != c.xorbs.values().cloned().collect::<Vec<_>>() { witness(format!("{ctx}: read_all_cas_blocks_full on the table-less re-serialisation lists {} xorbs, the shard stores {}", got.len(), c.xorbs.len())); }
        let got = guarded(&ctx, || bare_info.read_all_file_info_sections(rb)).unwrap_or_else(|e| witness(format!("{ctx}: read_all_file_info_sections on the table-less re-serialisation fails: {e}")));
        if got != c.files.values().cloned().collect::<Vec<_>>() { witness(format!("{ctx}: read_all_file_info_sections on the table-less re-serialisation lists {} files, the shard stores {}", got.len(), c.files.len())); }
        match guarded(&ctx, || bare_info.read_full_cas_lookup(rb)) { Ok(v) if v.is_empty() => {}, other => witness(format!("{ctx}: read_full_cas_lookup on the table-less re-serialisation returns {:?}", other.map(|v| v.len()))) }
        for (h, _) in c.files.iter().take(5) {
            match guarded(&ctx, || bare_info.get_file_reconstruction_info(rb, h)) { Ok(Some(g)) if g.metadata.file_hash != *h => witness(format!("{ctx}: get_file_reconstruction_info on the table-less shard returns another file's record")), _ => {} }
        }
    }
    for (what, i, b) in [("the serialized shard", &info, &bytes), ("the table-less re-serialisation", &bare_info, &bare)] {
        let rr = &mut Cursor::new(&b[..]);
        match guarded(&ctx, || i.chunk_hash_dedup_query(rr, &[])) { Ok(None) => {}, other => witness(format!("{ctx}: chunk_hash_dedup_query(empty query) on {what} returns {:?}", other.map(|o| o.map(|x| x.0)))) }
        match guarded(&ctx, || i.chunk_hash_dedup_query_direct(rr, &[], 0, 0)) { Ok(None) => {}, other => witness(format!("{ctx}: chunk_hash_dedup_query_direct(empty query) on {what} returns {:?}", other.map(|o| o.map(|x| x.0)))) }
    }
    if mem.chunk_hash_dedup_query(&[]).is_some() { witness(format!("{ctx}: the in-memory shard answers an empty query")); }
    // chunk index lookup + direct query at every candidate
    let xs: Vec<&MDBCASInfo> = c.xorbs.values().collect();
    let mut entry_of = vec![];
    let mut idx = 0u32;
    for x in &xs { entry_of.push(idx); idx += 1 + x.chunks.len() as u32; }
    for (k, x) in xs.iter().enumerate() {
        for (j, ch) in x.chunks.iter().enumerate() {
            if j > 3 && j + 2 < x.chunks.len() { continue; }
            let q: Vec<MerkleHash> = x.chunks[j..].iter().map(|c| c.chunk_hash).chain([h4(rng.random(), 7, 7, 7)]).collect();
            let mut dest = [(0u32, 0u32); 8];
            let n = guarded(&ctx, || info.get_cas_info_index_by_chunk(r, &ch.chunk_hash, &mut dest)).unwrap_or_else(|e| witness(format!("{ctx}: get_cas_info_index_by_chunk fails for stored chunk {j} of xorb {}: {e}", hx(&x.metadata.cas_hash))));
            let sharing = want_chunks.iter().filter(|t| t.0 == ch.chunk_hash[0]).count();
            if sharing < 8 && !dest[..n].contains(&(entry_of[k], j as u32)) {
                witness(format!("{ctx}: get_cas_info_index_by_chunk for chunk {j} of xorb {} ({sharing} stored chunks share its truncated prefix) returns {:?}, the chunk sits at (entry {}, chunk {j})", hx(&x.metadata.cas_hash), &dest[..n], entry_of[k]));
            }
            for &(ci, co) in &dest[..n] {
                let ans = guarded(&ctx, || info.chunk_hash_dedup_query_direct(r, &q, ci, co)).unwrap_or_else(|e| witness(format!("{ctx}: chunk_hash_dedup_query_direct at candidate ({ci}, {co}) fails: {e}")));
                if let Err(why) = truthful(c, &q, &ans) { witness(format!("{ctx}: chunk_hash_dedup_query_direct(run from chunk {j} of xorb {} + an unknown hash, candidate (entry {ci}, chunk {co})): untruthful: {why}", hx(&x.metadata.cas_hash))); }
                if (ci, co) == (entry_of[k], j as u32) {
                    match &ans {
                        Some((m, e)) if *m == x.chunks.len() - j && e.cas_hash == x.metadata.cas_hash && e.chunk_index_start == j as u32 => {},
                        other => witness(format!("{ctx}: chunk_hash_dedup_query_direct at the chunk's own position (entry {ci}, chunk {co}) for the run from chunk {j} to the end of xorb {} ({} chunks) answers {:?}", hx(&x.metadata.cas_hash), x.chunks.len(), other.as_ref().map(|(m, e)| (*m, e.chunk_index_start, e.chunk_index_end)))),
                    }
                }
            }
        }
    }
    // the MDBShardFile wrappers
    let dir = tempfile::tempdir().unwrap();
    let path = guarded(&ctx, || mem.write_to_directory(dir.path())).unwrap_or_else(|e| witness(format!("{ctx}: write_to_directory fails: {e}")));
    if std::fs::read(&path).ok().as_deref() != Some(&bytes[..]) { witness(format!("{ctx}: write_to_directory wrote other bytes than serialize_from produces")); }
    let sf = guarded(&ctx, || mdb_shard::MDBShardFile::load_from_file(&path)).unwrap_or_else(|e| witness(format!("{ctx}: MDBShardFile::load_from_file fails: {e}")));
    let all = guarded(&ctx, || mdb_shard::MDBShardFile::load_all_valid(dir.path())).unwrap_or_else(|e| witness(format!("{ctx}: MDBShardFile::load_all_valid fails: {e}")));
    if all.len() != 1 || all[0].shard_hash != sf.shard_hash || sf.shard_hash != merklehash::compute_data_hash(&bytes) || sf.shard.metadata != info.metadata {
        witness(format!("{ctx}: load_from_file / load_all_valid do not return the one shard of the directory with its content hash and footer"));
    }
    if sf.chunk_hmac_key().is_some() { witness(format!("{ctx}: MDBShardFile::chunk_hmac_key is set on an unkeyed shard")); }
    if !matches!(guarded(&ctx, || sf.get_reader_if_present()), Ok(Some(_))) { witness(format!("{ctx}: MDBShardFile::get_reader_if_present does not open the existing file")); }
    let e = |what: &str, e: mdb_shard::error::MDBShardError| -> ! { witness(format!("{ctx}: MDBShardFile::{what} fails: {e}")) };
    if guarded(&ctx, || sf.read_all_file_info_sections()).unwrap_or_else(|x| e("read_all_file_info_sections", x)) != c.files.values().cloned().collect::<Vec<_>>() { witness(format!("{ctx}: MDBShardFile::read_all_file_info_sections differs from the stored records")); }
    if guarded(&ctx, || sf.read_all_cas_blocks()).unwrap_or_else(|x| e("read_all_cas_blocks", x)).iter().map(|b| b.0.clone()).collect::<Vec<_>>() != c.xorbs.values().map(|x| x.metadata.clone()).collect::<Vec<_>>() { witness(format!("{ctx}: MDBShardFile::read_all_cas_blocks differs from the stored xorb headers")); }
    if guarded(&ctx, || sf.read_full_cas_lookup()).unwrap_or_else(|x| e("read_full_cas_lookup", x)) != want_cas { witness(format!("{ctx}: MDBShardFile::read_full_cas_lookup differs from the stored xorb table")); }
    let mut got = guarded(&ctx, || sf.read_all_truncated_hashes()).unwrap_or_else(|x| e("read_all_truncated_hashes", x));
    got.sort();
    if got != want_chunks { witness(format!("{ctx}: MDBShardFile::read_all_truncated_hashes differs from the stored chunks")); }
    for (h, f) in c.files.iter().take(40) {
        match guarded(&ctx, || sf.get_file_reconstruction_info(h)) { Ok(Some(g)) if g == *f => {}, other => witness(format!("{ctx}: MDBShardFile::get_file_reconstruction_info({}) returns {:?} for a stored file", hx(h), other.map(|o| o.map(|g| hx(&g.metadata.file_hash))))) }
    }
    for h in absent_hashes(rng, &c.files).iter().take(30) {
        match guarded(&ctx, || sf.get_file_reconstruction_info(h)) { Ok(None) => {}, other => witness(format!("{ctx}: MDBShardFile::get_file_reconstruction_info({}) returns {:?} for a hash never stored", hx(h), other.map(|o| o.map(|g| hx(&g.metadata.file_hash))))) }
    }
    for (what, q) in queries(rng, c, 25) {
        let a = guarded(&ctx, || sf.chunk_hash_dedup_query(&q)).unwrap_or_else(|x| e("chunk_hash_dedup_query", x));
        if let Err(why) = truthful(c, &q, &a) { witness(format!("{ctx}: MDBShardFile::chunk_hash_dedup_query, query = {what}: untruthful: {why}")); }
        let b = guarded(&ctx, || info.chunk_hash_dedup_query(r, &q)).unwrap_or_else(|x| e("chunk_hash_dedup_query", x));
        if a.as_ref().map(|x| (x.0, x.1.clone())) != b.as_ref().map(|x| (x.0, x.1.clone())) { witness(format!("{ctx}: MDBShardFile::chunk_hash_dedup_query and MDBShardInfo::chunk_hash_dedup_query on the same bytes disagree for query {what}")); }
    }
    if let Some((k, x)) = xs.iter().enumerate().find(|(_, x)| !x.chunks.is_empty()) {
        let q = [x.chunks[0].chunk_hash];
        match guarded(&ctx, || sf.chunk_hash_dedup_query_direct(&q, entry_of[k], 0)) { Ok(Some((1, e))) if e.cas_hash == x.metadata.cas_hash => {}, other => witness(format!("{ctx}: MDBShardFile::chunk_hash_dedup_query_direct at the first chunk of the first non-empty xorb answers {:?}", other.map(|o| o.map(|x| x.0)))) }
    }
}

/// lookups on a shard in which `group` entries share one truncated prefix (group = 8, 9: beyond the documented limit of 7)
fn check_oversized_groups(rng: &mut StdRng, group: usize) {
    let name = format!("{group} files, {group} xorbs and {group} chunks sharing one truncated prefix each, among 40 others");
    let mut c = generate(rng, 40, 40, Dist::Uniform, &[], false);
    let (pf, px, pc) = (rng.random::<u64>() | 1, rng.random::<u64>() | 1, rng.random::<u64>() | 1);
    let mut group_chunks = vec![];
    for i in 0..group {
        let fh = h4(pf, rng.random(), rng.random(), i as u64);
        c.files.insert(fh, MDBFileInfo { metadata: FileDataSequenceHeader::new(fh, 1, false, false), segments: vec![FileDataSequenceEntry::new(h4(1, 2, 3, 4), 100 + i as u32, 0, 1)], verification: vec![], metadata_ext: None });
        let xh = h4(px, rng.random(), rng.random(), i as u64);
        let ch = h4(pc, rng.random(), rng.random(), i as u64);
        group_chunks.push(ch);
        let chunks = vec![CASChunkSequenceEntry::new(h4(rng.random(), 1, 1, 1), 500u32, 0u32), CASChunkSequenceEntry::new(ch, 1000 + i as u32, 500u32), CASChunkSequenceEntry::new(h4(rng.random(), 2, 2, 2), 700u32, 1500 + i as u32)];
        c.xorbs.insert(xh, MDBCASInfo { metadata: CASChunkSequenceHeader::new(xh, 3u32, 2200 + i as u32), chunks });
    }
    let ctx = format!("shard '{name}'");
    let (mem, bytes) = serialize_contents(&ctx, &c, rng);
    let info = guarded(&ctx, || MDBShardInfo::load_from_reader(&mut Cursor::new(&bytes[..]))).unwrap_or_else(|e| witness(format!("{ctx}: load_from_reader fails: {e}")));
    let r = &mut Cursor::new(&bytes[..]);
    let (mut found, mut refused) = (0, 0);
    for (h, f) in &c.files {
        let in_group = h[0] == pf;
        match guarded(&ctx, || info.get_file_reconstruction_info(r, h)) {
            Ok(Some(g)) if g == *f => found += 1,
            Ok(Some(g)) => witness(format!("{ctx}: get_file_reconstruction_info({}) returns the record of {}", hx(h), hx(&g.metadata.file_hash))),
            Ok(None) if in_group => refused += 1,
            Err(_) if in_group => refused += 1,
            other => witness(format!("{ctx}: get_file_reconstruction_info({}) for a stored file outside the oversized group answers {:?}", hx(h), other.map(|o| o.is_some()))),
        }
    }
    for (h, x) in &c.xorbs {
        let mut idxs = [0u32; 8];
        match guarded(&ctx, || info.get_cas_info_index_by_hash(r, h, &mut idxs)) {
            Ok(n) => {
                let hit = idxs[..n].iter().filter_map(|i| { r.seek(SeekFrom::Start(info.metadata.cas_info_offset + 48 * *i as u64)).ok()?; MDBCASInfo::deserialize(r).ok().flatten() }).filter(|y| y.metadata.cas_hash == *h).collect::<Vec<_>>();
                if hit.iter().any(|y| y != x) || (hit.is_empty() && h[0] != px) { witness(format!("{ctx}: xorb lookup of {} yields a different record / nothing ({} candidates)", hx(h), n)); }
            },
            Err(_) if h[0] == px => {},
            Err(e) => witness(format!("{ctx}: get_cas_info_index_by_hash({}) fails for a stored xorb outside the oversized group: {e}", hx(h))),
        }
    }
    for (i, ch) in group_chunks.iter().enumerate() {
        let q = vec![*ch, h4(rng.random(), 3, 3, 3)];
        for (what, ans) in [("the serialized shard", guarded(&ctx, || info.chunk_hash_dedup_query(r, &q)).unwrap_or_else(|e| witness(format!("{ctx}: chunk_hash_dedup_query fails: {e}")))), ("the in-memory shard", guarded(&ctx, || mem.chunk_hash_dedup_query(&q)))] {
            if let Err(why) = truthful(&c, &q, &ans) { witness(format!("{ctx}: chunk_hash_dedup_query on {what} for group chunk #{i}: untruthful: {why}")); }
        }
    }
    for (what, q) in queries(rng, &c, 60) {
        let ans = guarded(&ctx, || info.chunk_hash_dedup_query(r, &q)).unwrap_or_else(|e| witness(format!("{ctx}: chunk_hash_dedup_query fails for [{what}]: {e}")));
        if let Err(why) = truthful(&c, &q, &ans) { witness(format!("{ctx}: chunk_hash_dedup_query, query = {what}: untruthful: {why}")); }
    }
    eprintln!("oversized group {group}: {found} files found, {refused} refused / not found");
}

/// xorbs of 65,535 / 65,536 / 65,537 chunks
fn check_huge_xorbs(rt: &tokio::runtime::Runtime, rng: &mut StdRng) {
    let mut c = Contents::default();
    for (k, n) in [65_535usize, 65_536, 65_537].into_iter().enumerate() {
        let xh = h4(rng.random(), rng.random(), k as u64, 0xB16);
        let mut pos = 0u32;
        let chunks: Vec<CASChunkSequenceEntry> = (0..n).map(|j| { let len = 10 + (j % 7) as u32; let e = CASChunkSequenceEntry::new(h4(rng.random(), rng.random(), k as u64, j as u64), len, pos); pos += len; e }).collect();
        c.xorbs.insert(xh, MDBCASInfo { metadata: CASChunkSequenceHeader::new(xh, n as u32, pos), chunks });
    }
    let fh = h4(rng.random(), 1, 1, 1);
    let x0 = *c.xorbs.keys().next().unwrap();
    c.files.insert(fh, MDBFileInfo { metadata: FileDataSequenceHeader::new(fh, 1, false, false), segments: vec![FileDataSequenceEntry::new(x0, 1000, 65_000, 65_535)], verification: vec![], metadata_ext: None });
    let ctx = "shard 'three xorbs of 65,535 / 65,536 / 65,537 chunks'".to_string();
    let (mem, bytes) = serialize_contents(&ctx, &c, rng);
    let info = guarded(&ctx, || MDBShardInfo::load_from_reader(&mut Cursor::new(&bytes[..]))).unwrap_or_else(|e| witness(format!("{ctx}: load_from_reader fails: {e}")));
    if (info.num_cas_entries(), info.total_num_chunks(), info.num_bytes()) != (3, 65_535 + 65_536 + 65_537, bytes.len() as u64) || mem.shard_file_size() != bytes.len() as u64 {
        witness(format!("{ctx}: footer counts {:?} / sizes {} vs {} bytes written", (info.num_cas_entries(), info.total_num_chunks()), mem.shard_file_size(), bytes.len()));
    }
    let mut qs: Vec<(String, Vec<MerkleHash>, usize, usize)> = vec![];
    for (k, x) in c.xorbs.values().enumerate() {
        let n = x.chunks.len();
        for a in [0usize, 65_533, 65_534, 65_535, 65_536, n - 1] {
            if a >= n { continue; }
            let b = (a + 5).min(n);
            let mut q: Vec<MerkleHash> = x.chunks[a..b].iter().map(|c| c.chunk_hash).collect();
            q.push(h4(rng.random(), 5, 5, 5));
            qs.push((format!("chunks [{a}, {b}) of the xorb with {n} chunks (#{k}) followed by an unknown hash"), q, a, b - a));
        }
    }
    let r = &mut Cursor::new(&bytes[..]);
    for (what, q, a, n) in &qs {
        for (which, ans) in [("the serialized shard", guarded(&ctx, || info.chunk_hash_dedup_query(r, q)).unwrap_or_else(|e| witness(format!("{ctx}: chunk_hash_dedup_query fails for {what}: {e}")))), ("the in-memory shard", guarded(&ctx, || mem.chunk_hash_dedup_query(q)))] {
            if let Err(why) = truthful(&c, q, &ans) { witness(format!("{ctx}: chunk_hash_dedup_query on {which}, query = {what}: untruthful: {why}")); }
            match &ans {
                Some((m, e)) if m == n && e.chunk_index_start as usize == *a => {},
                other => witness(format!("{ctx}: chunk_hash_dedup_query on {which}, query = {what}: expected {n} hashes from chunk {a}, got {:?}", other.as_ref().map(|(m, e)| (*m, e.chunk_index_start, e.chunk_index_end)))),
            }
        }
    }
    let dir = tempfile::tempdir().unwrap();
    let res = catch_unwind(AssertUnwindSafe(|| rt.block_on(async {
        let mgr = ShardFileManager::new_in_session_directory(dir.path()).await.map_err(|e| format!("creating the manager fails: {e}"))?;
        for x in c.xorbs.values() { mgr.add_cas_block(x.clone()).await.map_err(|e| format!("add_cas_block fails: {e}"))?; }
        for phase in ["before flush", "after flush"] {
            let mut found = 0;
            for (what, q, _, _) in &qs {
                let ans = mgr.chunk_hash_dedup_query(q).await.map_err(|e| format!("{phase}: chunk_hash_dedup_query fails for {what}: {e}"))?;
                truthful(&c, q, &ans).map_err(|why| format!("{phase}: ShardFileManager::chunk_hash_dedup_query, query = {what}: untruthful: {why}"))?;
                found += ans.is_some() as usize;
            }
            eprintln!("huge xorbs, manager {phase}: {found} of {} boundary queries answered", qs.len());
            if phase == "before flush" { mgr.flush().await.map_err(|e| format!("flush fails: {e}"))?; }
        }
        Ok::<(), String>(())
    })));
    match res { Ok(Ok(())) => {}, Ok(Err(e)) => witness(format!("{ctx}: {e}")), Err(_) => witness(format!("{ctx}: the ShardFileManager code panicked")) }
}

/// truncated / partly zeroed shards: errors or exact records, never other records, never a panic
fn check_damage(rt: &tokio::runtime::Runtime, rng: &mut StdRng) {
    let c = generate(rng, 30, 30, Dist::Uniform, &[2, 3], false);
    let ctx0 = format!("shard 'damage' ({} files, {} xorbs)", c.files.len(), c.xorbs.len());
    let (_mem, bytes) = serialize_contents(&ctx0, &c, rng);
    let info = MDBShardInfo::load_from_reader(&mut Cursor::new(&bytes[..])).unwrap_or_else(|e| witness(format!("{ctx0}: load_from_reader fails: {e}")));
    let m = info.metadata.clone();
    let want_files: Vec<Vec<u8>> = c.files.values().map(layout_file).collect();
    let want_xorbs: Vec<Vec<u8>> = c.xorbs.values().map(layout_xorb).collect();
    let mid = |a: u64, b: u64| ((a + b) / 2) as usize;
    let mut variants: Vec<(String, Vec<u8>)> = vec![];
    for (what, at) in [
        ("empty", 0usize), ("inside the header", 20), ("right after the header", 48), ("inside the file-info section", mid(m.file_info_offset, m.cas_info_offset)), ("at the start of the xorb-info section", m.cas_info_offset as usize),
        ("inside the xorb-info section", mid(m.cas_info_offset, m.file_lookup_offset) / 48 * 48 + 7), ("at the start of the file lookup table", m.file_lookup_offset as usize), ("inside the file lookup table", mid(m.file_lookup_offset, m.cas_lookup_offset)),
        ("inside the xorb lookup table", mid(m.cas_lookup_offset, m.chunk_lookup_offset)), ("inside the chunk lookup table", mid(m.chunk_lookup_offset, m.footer_offset)), ("at the start of the footer", m.footer_offset as usize),
        ("inside the footer", m.footer_offset as usize + 100), ("one byte short", bytes.len() - 1), ("the footer alone", usize::MAX),
    ] {
        if at == usize::MAX { variants.push(("only the footer is left".into(), bytes[m.footer_offset as usize..].to_vec())); } else { variants.push((format!("cut {what} (after {at} of {} bytes)", bytes.len()), bytes[..at].to_vec())); }
    }
    // (only the lookup TABLES are overwritten: with a zeroed or shifted info section the scanning readers of HEAD size a Vec from
    // whatever lands in a header's num_entries field and can abort the process with a >100 GB allocation - see README.md)
    for (what, a, b) in [("file lookup table", m.file_lookup_offset, m.cas_lookup_offset), ("xorb lookup table", m.cas_lookup_offset, m.chunk_lookup_offset), ("chunk lookup table", m.chunk_lookup_offset, m.footer_offset)] {
        let mut v = bytes.clone();
        for x in &mut v[a as usize..b as usize] { *x = 0; }
        variants.push((format!("the {what} overwritten with zeros (length kept)"), v));
        let mut v = bytes.clone();
        for x in &mut v[a as usize..b as usize] { *x = 0xff; }
        variants.push((format!("the {what} overwritten with 0xff (length kept)"), v));
    }
    for (what, v) in &variants {
        let ctx = format!("{ctx0}, {what}");
        let cut = what.starts_with("cut") || what.starts_with("only");
        // streaming readers (cut shards only: on HEAD the walkers size their buffers from the record header they just read, so a
        // shard whose sections are misaligned or zeroed can make them request a >100 GB allocation, which aborts the process -
        // recorded as an observation in README.md, outside the property text): an error, and what was delivered before it is a
        // prefix of the stored records
        if cut {
        let (mut sf, mut sx) = (vec![], vec![]);
        let res = guarded(&ctx, || mdb_shard::streaming_shard::process_shard_stream(
            &mut &v[..],
            Some(|x: mdb_shard::file_structs::MDBFileInfoView| { let mut o = vec![]; x.serialize(&mut o)?; sf.push(o); Ok(()) }),
            Some(|x: mdb_shard::cas_structs::MDBCASInfoView| { let mut o = vec![]; x.serialize(&mut o)?; sx.push(o); Ok(()) }),
        ));
        if cut && res.is_ok() && (v.len() as u64) < m.file_lookup_offset { witness(format!("{ctx}: process_shard_stream reports success on a shard whose info sections are incomplete")); }
        if cut && (!want_files.starts_with(&sf) || !want_xorbs.starts_with(&sx)) { witness(format!("{ctx}: process_shard_stream delivered {} file / {} xorb records that are not a prefix of the stored records before it stopped ({})", sf.len(), sx.len(), if res.is_ok() { "Ok" } else { "Err" })); }
        let _ = guarded(&ctx, || futures::executor::block_on(MDBMinimalShard::from_reader_async(&mut &v[..], true, true)).map(|_| ()));
        if let Ok(min) = guarded(&ctx, || MDBMinimalShard::from_reader(&mut &v[..], true, true)) {
            if cut && (v.len() as u64) < m.file_lookup_offset { witness(format!("{ctx}: MDBMinimalShard::from_reader reports success on a shard whose info sections are incomplete ({} files, {} xorbs)", min.num_files(), min.num_cas())); }
        }
        }
        // seekable readers
        let Ok(li) = guarded(&ctx, || MDBShardInfo::load_from_reader(&mut Cursor::new(&v[..]))) else { continue };
        let r = &mut Cursor::new(&v[..]);
        for (h, f) in &c.files {
            match guarded(&ctx, || li.get_file_reconstruction_info(r, h)) {
                Ok(Some(g)) if g != *f && cut => witness(format!("{ctx}: get_file_reconstruction_info({}) returns a record that differs from the stored one", hx(h))),
                Ok(Some(g)) if g.metadata.file_hash != *h => witness(format!("{ctx}: get_file_reconstruction_info({}) returns the record of another file ({})", hx(h), hx(&g.metadata.file_hash))),
                _ => {},
            }
        }
        for (_what, q) in queries(rng, &c, 20) {
            if let Ok(ans) = guarded(&ctx, || li.chunk_hash_dedup_query(r, &q)) {
                if cut { if let Err(why) = truthful(&c, &q, &ans) { witness(format!("{ctx}: chunk_hash_dedup_query answers untruthfully instead of failing: {why}")); } }
            }
        }
        let _ = guarded(&ctx, || li.read_all_file_info_sections(r).map(|_| ()));
        let _ = guarded(&ctx, || li.read_all_cas_blocks_full(r).map(|_| ()));
        let _ = guarded(&ctx, || li.read_all_truncated_hashes(r).map(|_| ()));
        let _ = guarded(&ctx, || li.read_full_cas_lookup(r).map(|_| ()));
        let _ = guarded(&ctx, || MDBShardInfo::read_file_info_ranges(&mut Cursor::new(&v[..])).map(|_| ()));
    }
    // a shard file truncated / deleted after a manager registered it
    for how in ["truncated to half its length", "truncated to its first 100 bytes", "deleted"] {
        let dir = tempfile::tempdir().unwrap();
        let ctx = format!("{ctx0}: ShardFileManager registers the shard file (flush), then the file is {how}");
        let qs = queries(rng, &c, 20);
        let res = catch_unwind(AssertUnwindSafe(|| rt.block_on(async {
            let mgr = ShardFileManager::new_in_session_directory(dir.path()).await.map_err(|e| format!("creating the manager fails: {e}"))?;
            for x in c.xorbs.values() { mgr.add_cas_block(x.clone()).await.map_err(|e| format!("add_cas_block fails: {e}"))?; }
            for f in c.files.values() { mgr.add_file_reconstruction_info(f.clone()).await.map_err(|e| format!("add_file_reconstruction_info fails: {e}"))?; }
            let p = mgr.flush().await.map_err(|e| format!("flush fails: {e}"))?.ok_or("flush wrote nothing")?;
            match how {
                "deleted" => std::fs::remove_file(&p).map_err(|e| e.to_string())?,
                "truncated to half its length" => std::fs::OpenOptions::new().write(true).open(&p).and_then(|f| f.set_len(bytes.len() as u64 / 2)).map_err(|e| e.to_string())?,
                _ => std::fs::OpenOptions::new().write(true).open(&p).and_then(|f| f.set_len(100)).map_err(|e| e.to_string())?,
            }
            for (what, q) in &qs {
                if let Ok(ans) = mgr.chunk_hash_dedup_query(q).await {
                    truthful(&c, q, &ans).map_err(|why| format!("chunk_hash_dedup_query, query = {what}: answers untruthfully instead of failing: {why}"))?;
                }
            }
            for (h, f) in &c.files {
                if let Ok(Some((g, _))) = mgr.get_file_reconstruction_info(h).await {
                    if g != *f { return Err(format!("get_file_reconstruction_info({}) returns a record that differs from the stored one", hx(h))); }
                }
            }
            Ok::<(), String>(())
        })));
        match res { Ok(Ok(())) => {}, Ok(Err(e)) => witness(format!("{ctx}: {e}")), Err(_) => witness(format!("{ctx}: the ShardFileManager code panicked")) }
    }
}

fn check_manager(rt: &tokio::runtime::Runtime, rng: &mut StdRng, name: &str, c: &Contents) {
    let ctx = format!("ShardFileManager over shard '{name}' ({} files, {} xorbs)", c.files.len(), c.xorbs.len());
    let dir = tempfile::tempdir().unwrap();
    let qs = queries(rng, c, 60);
    let absent = absent_hashes(rng, &c.files);
    let r = catch_unwind(AssertUnwindSafe(|| {
        rt.block_on(async {
            let mgr = ShardFileManager::new_in_session_directory(dir.path()).await.map_err(|e| format!("creating the manager fails: {e}"))?;
            for x in c.xorbs.values() { mgr.add_cas_block(x.clone()).await.map_err(|e| format!("add_cas_block fails: {e}"))?; }
            for f in c.files.values() { mgr.add_file_reconstruction_info(f.clone()).await.map_err(|e| format!("add_file_reconstruction_info fails: {e}"))?; }
            for phase in ["before flush (in-memory index)", "after flush (registered shard file)"] {
                for (what, q) in &qs {
                    let ans = mgr.chunk_hash_dedup_query(q).await.map_err(|e| format!("{phase}: chunk_hash_dedup_query fails for the query [{what}]: {e}"))?;
                    truthful(c, q, &ans).map_err(|why| format!("{phase}: chunk_hash_dedup_query, query = {what} ({} hashes): the answer is untruthful: {why}", q.len()))?;
                }
                for (h, f) in &c.files {
                    match mgr.get_file_reconstruction_info(h).await {
                        Ok(Some((got, _))) if got == *f => {},
                        Ok(Some(_)) => return Err(format!("{phase}: get_file_reconstruction_info({}) returns a record that differs from the stored one", hx(h))),
                        Ok(None) => return Err(format!("{phase}: get_file_reconstruction_info({}) reports not-found for a stored file ({} stored file(s) share its truncated prefix)", hx(h), c.files.keys().filter(|k| k[0] == h[0]).count())),
                        Err(e) => return Err(format!("{phase}: get_file_reconstruction_info({}) fails for a stored file: {e}", hx(h))),
                    }
                }
                for h in &absent {
                    if *h == MerkleHash::default() { continue; }
                    match mgr.get_file_reconstruction_info(h).await {
                        Ok(None) => {},
                        Ok(Some(_)) => return Err(format!("{phase}: get_file_reconstruction_info({}) returns a record for a hash never stored", hx(h))),
                        Err(e) => return Err(format!("{phase}: get_file_reconstruction_info({}) fails for an absent hash: {e}", hx(h))),
                    }
                }
                if phase.starts_with("before") {
                    mgr.flush().await.map_err(|e| format!("flush fails: {e}"))?;
                }
            }
            Ok::<(), String>(())
        })
    }));
    match r {
        Ok(Ok(())) => {},
        Ok(Err(e)) => witness(format!("{ctx}: {e}")),
        Err(p) => {
            let msg = p.downcast_ref::<String>().cloned().or_else(|| p.downcast_ref::<&str>().map(|s| s.to_string())).unwrap_or_default();
            witness(format!("{ctx}: the code under test panicked (adding records, flushing - which re-reads and integrity-checks the written shard in debug builds - or querying): {msg}"))
        },
    }
}

/// Opt-in (C09_DEBUG_SELFCHECK=1): smallest shard with ONE repeated chunk hash for which writing the shard to a directory panics in
/// debug builds.  Not a violation of C09 / C05 as stated (release builds are unaffected), hence not part of the default run.
fn debug_selfcheck(rng: &mut StdRng) {
    for n in 2..200usize {
        for trial in 0..20 {
            let mut mem = MDBInMemoryShard::default();
            let dup = h4(rng.random(), 1, 1, 1);
            let mut c = Contents::default();
            for k in 0..2u64 {
                let mut chunks: Vec<CASChunkSequenceEntry> = (0..n).map(|j| CASChunkSequenceEntry::new(h4(rng.random(), 2, 2, 2), 10u32, 10 * j as u32)).collect();
                let at = rng.random_range(0..n);
                chunks[at] = CASChunkSequenceEntry::new(dup, 10u32, 10 * at as u32);
                let x = MDBCASInfo { metadata: CASChunkSequenceHeader::new(h4(rng.random(), k, 3, 3), n, 10 * n), chunks };
                c.xorbs.insert(x.metadata.cas_hash, x.clone());
                mem.add_cas_block(x).unwrap();
            }
            let dir = tempfile::tempdir().unwrap();
            // (write_to_directory runs the self-check itself when mdb_shard is built with debug assertions; the replay crate builds it
            // without, so it is called explicitly here - it is the same public function)
            if let Err(p) = catch_unwind(AssertUnwindSafe(|| {
                let path = mem.write_to_directory(dir.path()).unwrap();
                mdb_shard::MDBShardFile::load_from_file(&path).unwrap().verify_shard_integrity();
            })) {
                let msg = p.downcast_ref::<String>().cloned().unwrap_or_default();
                witness(format!("(debug-build self-check) a shard of 2 xorbs with {n} chunks each in which one chunk hash occurs in both xorbs (trial {trial}): the shard writer's debug-build self-check MDBShardFile::verify_shard_integrity (run by write_to_directory / load / register when mdb_shard has debug assertions) panics: {}", &msg[..msg.len().min(300)]));
            }
        }
    }
    println!("debug self-check: no panic");
}

fn main() {
    let seed = std::env::var("VERIF_SEED").ok().and_then(|s| s.parse().ok()).unwrap_or(0u64);
    let mut rng = StdRng::seed_from_u64(seed);
    std::panic::set_hook(Box::new(|_| {}));
    let rt = tokio::runtime::Builder::new_current_thread().enable_all().build().unwrap();
    use Dist::*;
    let configs: Vec<(&str, usize, usize, Dist, Vec<usize>, bool)> = vec![
        ("empty", 0, 0, Uniform, vec![], true),
        ("one file, one xorb", 1, 1, Uniform, vec![], true),
        ("seven files and seven xorbs all sharing one truncated prefix", 7, 7, Uniform, vec![7], true),
        ("small with prefix groups", 40, 30, Uniform, vec![2, 3, 7], false),
        ("255 entries (largest table scanned without interpolation)", 255, 255, Uniform, vec![2], false),
        ("256 entries", 256, 256, Uniform, vec![3], false),
        ("257 entries", 257, 257, Uniform, vec![], false),
        ("600 uniform keys with prefix groups of 2..7", 600, 600, Uniform, vec![2, 3, 4, 5, 6, 7], true),
        ("600 clustered keys plus extreme first words 0, 1, MAX-1, MAX, with prefix groups", 600, 600, ClusteredExtreme, vec![2, 5, 7], true),
        ("400 evenly spread keys with prefix groups of 2..7 (exact first probe on a group's last member)", 400, 400, Even, vec![2, 3, 4, 5, 6, 7], true),
        ("330 evenly spread keys, no groups", 330, 290, Even, vec![], false),
        ("500 files, 12 xorbs", 500, 12, Uniform, vec![4], false),
        ("12 files, 500 xorbs", 12, 500, Uniform, vec![4], false),
    ];
    // (own generator, so that the inputs of the older checks below stay what they were for a given VERIF_SEED)
    let mut rng2 = StdRng::seed_from_u64(seed ^ 0xC09F);
    // zero-segment mixes through every reader (kind = 4 zero segments | 1 verification | 2 metadata ext)
    let orders: Vec<(&str, Vec<u8>, Vec<usize>, usize)> = vec![
        ("a single zero-segment record with metadata ext, no xorbs", vec![6], vec![], 0),
        ("a single zero-segment record with both flags", vec![7], vec![], 1),
        ("a single zero-segment record without flags", vec![4], vec![0], 1),
        ("zero-segment + metadata-ext record first", vec![6, 0, 1, 2, 3, 4, 5, 7], vec![0], 3),
        ("zero-segment + metadata-ext record last", vec![0, 1, 2, 3, 4, 5, 7, 6], vec![2], 3),
        ("two zero-segment + metadata-ext records in a row, then an ordinary record", vec![0, 6, 6, 1, 7, 7, 2], vec![1], 3),
        ("only zero-segment records, all four flag combinations", vec![4, 5, 6, 7], vec![0, 1], 2),
        ("only zero-segment records with metadata ext", vec![6, 7, 6, 7, 6], vec![], 2),
        ("all eight kinds ascending", vec![0, 1, 2, 3, 4, 5, 6, 7], vec![0, 4], 5),
        ("all eight kinds descending", vec![7, 6, 5, 4, 3, 2, 1, 0], vec![2], 5),
        ("zero-segment and ordinary records alternating", vec![4, 0, 5, 1, 6, 2, 7, 3], vec![4], 5),
        ("ordinary and zero-segment records alternating", vec![3, 7, 2, 6, 1, 5, 0, 4], vec![], 4),
    ];
    for (name, order, zx, nx) in &orders {
        let c = zero_mix(&mut rng2, order, zx, *nx);
        check_every_reader(&mut rng2, &format!("zero-segment mix: {name} (file kinds in hash order {order:?}; kind = 4 if zero segments + 1 if verification + 2 if metadata ext)"), &c);
        check_serialized(&mut rng2, &format!("zero-segment mix: {name}"), &c);
        check_entry_points(&mut rng2, &format!("zero-segment mix: {name}"), &c);
    }
    for t in 0..4 {
        let mut order: Vec<u8> = (0..24).map(|_| rng2.random_range(0..8u8)).collect();
        if t % 2 == 0 { order.push(6); }
        let c = zero_mix(&mut rng2, &order, &[0, 3, 6], 7);
        check_every_reader(&mut rng2, &format!("zero-segment mix: random order #{t} (file kinds in hash order {order:?}; kind = 4 if zero segments + 1 if verification + 2 if metadata ext)"), &c);
    }
    check_oversized_groups(&mut rng2, 8);
    check_oversized_groups(&mut rng2, 9);
    check_huge_xorbs(&rt, &mut rng2);
    check_damage(&rt, &mut rng2);
    for (name, nf, nx, dist, groups, with_manager) in configs {
        let c = generate(&mut rng, nf, nx, dist, &groups, true);
        check_every_reader(&mut rng2, name, &c);
        check_entry_points(&mut rng2, name, &c);
        check_serialized(&mut rng, name, &c);
        if with_manager {
            // with duplicate / prefix-colliding chunks (needs mdb_shard built without debug assertions, as Cargo.toml.in does: with
            // them the shard writer's self-check verify_shard_integrity panics on some such shards, see debug_selfcheck below) ...
            check_manager(&rt, &mut rng, name, &c);
            // ... and without
            let c = generate(&mut rng, nf, nx, dist, &groups, false);
            check_serialized(&mut rng, name, &c);
            check_manager(&rt, &mut rng, name, &c);
        }
    }
    if std::env::var("C09_DEBUG_SELFCHECK").is_ok() {
        debug_selfcheck(&mut rng);
    }
    println!("no violation found");
}
