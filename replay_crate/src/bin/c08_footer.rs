//! Witness search for C08 (footer parsers on arbitrary input): the REAL `CasObjectInfoV1::deserialize_only_boundaries_section`,
//! `CasObjectInfoV1::deserialize` and `CasObject::deserialize` on tiny hand-built and random inputs, under a recording global
//! allocator.  A footer parser must return Ok or Err: a panic is a violation, and so is a single allocation request that is
//! out of proportion to the input (an untrusted count used as an allocation size).
//! Prints `WITNESS ...` and exits 1 on the first violation.
#![allow(deprecated)]
use std::alloc::{GlobalAlloc, Layout, System};
use std::io::Cursor;
use std::panic::{catch_unwind, AssertUnwindSafe};
use std::sync::atomic::{AtomicUsize, Ordering};

use cas_object::{CasObject, CasObjectInfoV1};
use rand::rngs::StdRng;
use rand::{Rng, SeedableRng};

struct Recording;
static MAX_REQUEST: AtomicUsize = AtomicUsize::new(0);
unsafe impl GlobalAlloc for Recording {
    unsafe fn alloc(&self, l: Layout) -> *mut u8 {
        MAX_REQUEST.fetch_max(l.size(), Ordering::Relaxed);
        System.alloc(l)
    }
    unsafe fn alloc_zeroed(&self, l: Layout) -> *mut u8 {
        MAX_REQUEST.fetch_max(l.size(), Ordering::Relaxed);
        System.alloc_zeroed(l)
    }
    unsafe fn realloc(&self, p: *mut u8, l: Layout, n: usize) -> *mut u8 {
        MAX_REQUEST.fetch_max(n, Ordering::Relaxed);
        System.realloc(p, l, n)
    }
    unsafe fn dealloc(&self, p: *mut u8, l: Layout) {
        System.dealloc(p, l)
    }
}
#[global_allocator]
static A: Recording = Recording;

/// an allocation request of more than this for an input of at most a few KiB is "unbounded" (the parsers' own cap on
/// pre-allocation is a few thousand entries)
const ALLOC_LIMIT: usize = 64 << 20;

fn witness(msg: String) -> ! {
    println!("WITNESS {msg}");
    std::process::exit(1);
}

fn hex(b: &[u8]) -> String {
    b.iter().map(|x| format!("{x:02x}")).collect::<Vec<_>>().join("")
}

fn run(name: &str, input: &[u8], f: impl FnOnce(&mut Cursor<&[u8]>) -> bool) {
    MAX_REQUEST.store(0, Ordering::Relaxed);
    let mut c = Cursor::new(input);
    let r = catch_unwind(AssertUnwindSafe(|| f(&mut c)));
    let peak = MAX_REQUEST.load(Ordering::Relaxed);
    match r {
        Err(e) => {
            let msg = e.downcast_ref::<String>().cloned().or_else(|| e.downcast_ref::<&str>().map(|s| s.to_string())).unwrap_or_default();
            witness(format!("{name} panicked on a {}-byte input ({}): {msg}", input.len(), hex(input)));
        },
        Ok(_) => {
            if peak > ALLOC_LIMIT {
                witness(format!("{name} requested a single allocation of {peak} bytes for a {}-byte input ({})", input.len(), hex(input)));
            }
        },
    }
}

fn all(input: &[u8]) {
    run("CasObjectInfoV1::deserialize_only_boundaries_section", input, |c| CasObjectInfoV1::deserialize_only_boundaries_section(c).is_ok());
    run("CasObjectInfoV1::deserialize", input, |c| CasObjectInfoV1::deserialize(c).is_ok());
    run("CasObject::deserialize", input, |c| CasObject::deserialize(c).is_ok());
}

/// a boundaries section (ident, version 1, count, [tables], count, two offsets, buffer) followed by the trailing info_length
fn boundaries_tail(count_head: u32, tables: &[u8], count_tail: u32, hashes_off: u32, boundary_off: u32, info_length: u32) -> Vec<u8> {
    let mut v = vec![];
    v.extend_from_slice(b"XBLBBND");
    v.push(1);
    v.extend_from_slice(&count_head.to_le_bytes());
    v.extend_from_slice(tables);
    v.extend_from_slice(&count_tail.to_le_bytes());
    v.extend_from_slice(&hashes_off.to_le_bytes());
    v.extend_from_slice(&boundary_off.to_le_bytes());
    v.extend_from_slice(&[0u8; 16]);
    v.extend_from_slice(&info_length.to_le_bytes());
    v
}

fn main() {
    // 1. the untrusted section offset 24 bytes before the end, at and near the u32 limit
    for off in [u32::MAX, u32::MAX - 1, u32::MAX - 3, u32::MAX - 4, 1 << 31, 0, 1, 40, 44] {
        for len in [24usize, 28, 44, 64, 200] {
            let mut v = vec![0u8; len];
            v[len - 24..len - 20].copy_from_slice(&off.to_le_bytes());
            all(&v);
        }
    }
    // 2. a well-formed, table-less boundaries section that announces a huge chunk count
    for count in [u32::MAX, u32::MAX - 15, 1 << 30, 1 << 24, 70_000, 0] {
        let v = boundaries_tail(count, &[], count, 0, 40, 44);
        all(&v);
        let mut w = vec![0u8; 100];
        w.extend_from_slice(&v);
        all(&w);
    }
    // 3. the trailing info_length, at and near the limits (the full parsers seek by it)
    for info_length in [u32::MAX, u32::MAX - 3, u32::MAX - 4, 1 << 31, 0, 1, 7, 8, 40, 44, 45, 96, 100] {
        for len in [4usize, 8, 44, 100] {
            let mut v = vec![0u8; len];
            v[len - 4..].copy_from_slice(&info_length.to_le_bytes());
            all(&v);
        }
    }
    // 4. random short strings, and random strings ending in a plausible tail
    let mut rng = StdRng::seed_from_u64(std::env::var("VERIF_SEED").ok().and_then(|s| s.parse().ok()).unwrap_or(0));
    for _ in 0..20000 {
        let len = rng.random_range(0..160usize);
        let mut v = vec![0u8; len];
        rng.fill(&mut v[..]);
        if len >= 24 && rng.random_bool(0.5) {
            let off: u32 = rng.random_range(0..200);
            v[len - 24..len - 20].copy_from_slice(&off.to_le_bytes());
            let il: u32 = rng.random_range(0..200);
            v[len - 4..].copy_from_slice(&il.to_le_bytes());
        }
        all(&v);
    }
    classes::run();
    println!("no violation found");
}

/// Coverage extension: footers written by an OWN layout writer with every field individually settable, given to all footer entry
/// points - `CasObjectInfoV1::{deserialize, deserialize_only_boundaries_section, deserialize_async, deserialize_async_v1}`,
/// `CasObjectInfoV0::{serialize, deserialize, deserialize_async}`, `CasObject::{get_info_length, deserialize, deserialize_async}` -
/// under the recording allocator.  Oracle: a parser that answers Ok must return a struct that is well-formed (constants, the three
/// counts == table lengths, section offsets == the layout formula) and whose own re-encoding (by the layout writer here) equals
/// the bytes it was given; the canonical footer must be accepted with exactly the fields written; every class below is
/// non-canonical in a field the parser is responsible for and must be answered with Err.
mod classes {
    use std::io::Cursor;
    use std::panic::{catch_unwind, AssertUnwindSafe};
    use std::sync::atomic::Ordering;

    use cas_object::{CasObject, CasObjectInfoV0, CasObjectInfoV1};
    use futures::executor::block_on;
    use merklehash::MerkleHash;

    use super::{hex, witness, ALLOC_LIMIT, MAX_REQUEST};

    fn guard<T>(name: &str, what: &str, input: &[u8], f: impl FnOnce() -> T) -> T {
        MAX_REQUEST.store(0, Ordering::Relaxed);
        let r = catch_unwind(AssertUnwindSafe(f));
        let peak = MAX_REQUEST.load(Ordering::Relaxed);
        let shown = if input.len() <= 400 { hex(input) } else { format!("{}...", hex(&input[..400])) };
        match r {
            Err(e) => {
                let msg = e.downcast_ref::<String>().cloned().or_else(|| e.downcast_ref::<&str>().map(|s| s.to_string())).unwrap_or_default();
                witness(format!("{name} panicked on {what} ({} bytes: {shown}): {msg}", input.len()))
            },
            Ok(v) => {
                if peak > ALLOC_LIMIT {
                    witness(format!("{name} requested a single allocation of {peak} bytes for {what} ({} bytes: {shown})", input.len()));
                }
                v
            },
        }
    }

    #[derive(Clone)]
    struct F {
        ident: [u8; 7],
        version: u8,
        cashash: [u8; 32],
        hid: [u8; 7],
        hver: u8,
        n2: u32,
        hashes: Vec<[u8; 32]>,
        bid: [u8; 7],
        bver: u8,
        n3: u32,
        bounds: Vec<u32>,
        unpacked: Vec<u32>,
        n: u32,
        hoff: u32,
        boff: u32,
        buffer: [u8; 16],
    }
    fn boff_for(k: usize) -> u32 { (7 + 1 + 4 + 8 * k + 4 + 4 + 4 + 16) as u32 }
    fn hoff_for(k: usize) -> u32 { (7 + 1 + 4 + 32 * k) as u32 + boff_for(k) }
    fn pat(tag: u8, i: usize) -> [u8; 32] {
        let mut h = [0u8; 32];
        for (j, b) in h.iter_mut().enumerate() { *b = tag.wrapping_mul(37).wrapping_add((i * 32 + j) as u8).wrapping_mul(101) | 1; }
        h
    }
    impl F {
        fn canonical(k: usize) -> F {
            F {
                ident: *b"XETBLOB", version: 1, cashash: pat(200, 0),
                hid: *b"XBLBHSH", hver: 0, n2: k as u32, hashes: (0..k).map(|i| pat(1, i)).collect(),
                bid: *b"XBLBBND", bver: 1, n3: k as u32,
                bounds: (0..k).map(|i| 108 * (i as u32 + 1)).collect(), unpacked: (0..k).map(|i| 100 * (i as u32 + 1)).collect(),
                n: k as u32, hoff: hoff_for(k), boff: boff_for(k), buffer: [0; 16],
            }
        }
        fn bytes(&self) -> Vec<u8> {
            let mut v = vec![];
            v.extend_from_slice(&self.ident); v.push(self.version); v.extend_from_slice(&self.cashash);
            v.extend_from_slice(&self.hid); v.push(self.hver); v.extend_from_slice(&self.n2.to_le_bytes());
            for h in &self.hashes { v.extend_from_slice(h); }
            v.extend_from_slice(&self.boundary_section());
            v
        }
        fn boundary_section(&self) -> Vec<u8> {
            let mut v = vec![];
            v.extend_from_slice(&self.bid); v.push(self.bver); v.extend_from_slice(&self.n3.to_le_bytes());
            for b in &self.bounds { v.extend_from_slice(&b.to_le_bytes()); }
            for b in &self.unpacked { v.extend_from_slice(&b.to_le_bytes()); }
            v.extend_from_slice(&self.n.to_le_bytes()); v.extend_from_slice(&self.hoff.to_le_bytes()); v.extend_from_slice(&self.boff.to_le_bytes());
            v.extend_from_slice(&self.buffer);
            v
        }
        /// the V0 layout: ident, version, cashash, count, boundaries, hashes, 16 spare bytes
        fn bytes_v0(&self) -> Vec<u8> {
            let mut v = vec![];
            v.extend_from_slice(&self.ident); v.push(self.version); v.extend_from_slice(&self.cashash);
            v.extend_from_slice(&self.n.to_le_bytes());
            for b in &self.bounds { v.extend_from_slice(&b.to_le_bytes()); }
            for h in &self.hashes { v.extend_from_slice(h); }
            v.extend_from_slice(&self.buffer);
            v
        }
    }
    fn hb(h: &MerkleHash) -> [u8; 32] {
        let mut o = [0u8; 32];
        for w in 0..4 { o[8 * w..8 * w + 8].copy_from_slice(&h[w].to_le_bytes()); }
        o
    }
    /// what the returned struct says, as an F (the 16 spare bytes are not visible: taken from `spare`)
    fn as_f(i: &CasObjectInfoV1, spare: [u8; 16]) -> F {
        F {
            ident: i.ident, version: i.version, cashash: hb(&i.cashash), hid: i.ident_hash_section, hver: i.hashes_version, n2: i.num_chunks,
            hashes: i.chunk_hashes.iter().map(hb).collect(), bid: i.ident_boundary_section, bver: i.boundaries_version, n3: i.num_chunks,
            bounds: i.chunk_boundary_offsets.clone(), unpacked: i.unpacked_chunk_offsets.clone(), n: i.num_chunks,
            hoff: i.hashes_section_offset_from_end, boff: i.boundary_section_offset_from_end, buffer: spare,
        }
    }
    fn spare_of(region: &[u8]) -> [u8; 16] {
        let mut s = [0u8; 16];
        if region.len() >= 16 { s.copy_from_slice(&region[region.len() - 16..]); }
        s
    }
    /// Ok(()) if `i`, returned for the footer bytes `region`, is a well-formed V1 footer struct whose encoding is `region`
    fn sound_v1(i: &CasObjectInfoV1, region: &[u8]) -> Result<(), String> {
        let k = i.num_chunks as usize;
        if &i.ident != b"XETBLOB" || i.version != 1 || &i.ident_hash_section != b"XBLBHSH" || i.hashes_version != 0 || &i.ident_boundary_section != b"XBLBBND" || i.boundaries_version != 1 {
            return Err(format!("idents / versions of the returned struct are not the V1 constants (version {}, hashes_version {}, boundaries_version {})", i.version, i.hashes_version, i.boundaries_version));
        }
        if i.chunk_hashes.len() != k || i.chunk_boundary_offsets.len() != k || i.unpacked_chunk_offsets.len() != k {
            return Err(format!("num_chunks {k} but {} hashes, {} boundaries, {} unpacked offsets", i.chunk_hashes.len(), i.chunk_boundary_offsets.len(), i.unpacked_chunk_offsets.len()));
        }
        if i.boundary_section_offset_from_end != boff_for(k) || i.hashes_section_offset_from_end != hoff_for(k) {
            return Err(format!("section offsets ({}, {}) are not those of a footer with {k} chunks ({}, {})", i.hashes_section_offset_from_end, i.boundary_section_offset_from_end, hoff_for(k), boff_for(k)));
        }
        if as_f(i, spare_of(region)).bytes() != region {
            return Err("the returned struct does not encode to the bytes that were parsed".into());
        }
        Ok(())
    }
    /// the struct `from_v0` must produce for the V0 footer bytes `region`
    fn sound_from_v0(i: &CasObjectInfoV1, region: &[u8]) -> Result<(), String> {
        let k = i.num_chunks as usize;
        if &i.ident != b"XETBLOB" || i.version != 1 || &i.ident_hash_section != b"XBLBHSH" || i.hashes_version != 0 || &i.ident_boundary_section != b"XBLBBND" || i.boundaries_version != 0 {
            return Err(format!("a V0 footer must come back as version 1 / hashes_version 0 / boundaries_version 0 (no unpacked info), got {} / {} / {}", i.version, i.hashes_version, i.boundaries_version));
        }
        if i.chunk_hashes.len() != k || i.chunk_boundary_offsets.len() != k || !i.unpacked_chunk_offsets.is_empty() {
            return Err(format!("num_chunks {k} but {} hashes, {} boundaries, {} unpacked offsets (a V0 footer has none)", i.chunk_hashes.len(), i.chunk_boundary_offsets.len(), i.unpacked_chunk_offsets.len()));
        }
        let boff = (7 + 1 + 4 + 4 * k + 4 + 4 + 4 + 16) as u32;
        if i.boundary_section_offset_from_end != boff || i.hashes_section_offset_from_end != boff + (12 + 32 * k) as u32 {
            return Err(format!("section offsets ({}, {}) are not those fill_in_boundary_offsets defines for {k} chunks without unpacked offsets", i.hashes_section_offset_from_end, i.boundary_section_offset_from_end));
        }
        let mut f = as_f(i, spare_of(region));
        f.version = 0;
        if f.bytes_v0() != region {
            return Err("the returned struct does not encode (V0 layout) to the bytes that were parsed".into());
        }
        Ok(())
    }
    fn sound_any(i: &CasObjectInfoV1, region: &[u8]) -> Result<(), String> {
        if region.len() >= 8 && region[7] == 0 { sound_from_v0(i, region) } else { sound_v1(i, region) }
    }

    #[derive(Clone, Copy, PartialEq)]
    enum Exp { Accept, Reject, Sound }
    static N_ACCEPTED: std::sync::atomic::AtomicUsize = std::sync::atomic::AtomicUsize::new(0);
    static N_REJECTED: std::sync::atomic::AtomicUsize = std::sync::atomic::AtomicUsize::new(0);

    fn verdict(name: &str, what: &str, input: &[u8], exp: Exp, got: Result<Result<(), String>, String>) {
        let shown = if input.len() <= 400 { hex(input) } else { format!("{}...", hex(&input[..400])) };
        match got {
            Ok(Ok(())) => {
                N_ACCEPTED.fetch_add(1, Ordering::Relaxed);
                if exp == Exp::Reject {
                    witness(format!("{name} ACCEPTS {what} ({} bytes: {shown})", input.len()));
                }
            },
            Ok(Err(why)) => witness(format!("{name} ACCEPTS {what} and returns a footer that does not match the bytes: {why} ({} bytes: {shown})", input.len())),
            Err(e) => {
                N_REJECTED.fetch_add(1, Ordering::Relaxed);
                if exp == Exp::Accept {
                    witness(format!("{name} REJECTS {what}: {e} ({} bytes: {shown})", input.len()));
                }
            },
        }
    }

    struct Case {
        what: String,
        /// arbitrary bytes in front (chunk section stand-in)
        prefix: Vec<u8>,
        footer: Vec<u8>,
        info_length: u32,
        extra: Vec<u8>,
        full: Exp,       // CasObjectInfoV1::deserialize on the footer bytes
        boundaries: Exp, // deserialize_only_boundaries_section on the file
        object: Exp,     // CasObject::deserialize / deserialize_async on the file
    }

    fn run_case(c: &Case) {
        let mut file = c.prefix.clone();
        file.extend_from_slice(&c.footer);
        file.extend_from_slice(&c.info_length.to_le_bytes());
        file.extend_from_slice(&c.extra);
        let what = &c.what;
        // --- sync, footer alone
        let name = "CasObjectInfoV1::deserialize";
        let r = guard(name, what, &c.footer, || CasObjectInfoV1::deserialize(&mut Cursor::new(&c.footer[..])));
        verdict(name, what, &c.footer, c.full, match r {
            Ok((i, n)) => Ok(if n as usize > c.footer.len() { Err(format!("reports {n} bytes read of {}", c.footer.len())) } else { sound_any(&i, &c.footer[..n as usize]).and_then(|_| if c.full == Exp::Accept && n as usize != c.footer.len() { Err(format!("reports {n} bytes read, the footer has {}", c.footer.len())) } else { Ok(()) }) }),
            Err(e) => Err(e.to_string()),
        });
        // --- sync, whole file
        let name = "CasObject::get_info_length";
        let r = guard(name, what, &file, || CasObject::get_info_length(&mut Cursor::new(&file[..])));
        match r {
            Ok(l) if file.len() >= 4 && l.to_le_bytes() == file[file.len() - 4..] => {},
            Err(_) if file.len() < 4 => {},
            other => witness(format!("{name} on {what} ({} bytes) returns {other:?}, the last four bytes are {}", file.len(), hex(&file[file.len().saturating_sub(4)..]))),
        }
        let name = "CasObject::deserialize";
        let r = guard(name, what, &file, || CasObject::deserialize(&mut Cursor::new(&file[..])));
        verdict(name, what, &file, c.object, match r {
            Ok(cas) => Ok((|| {
                let il = cas.info_length as usize;
                if file.len() < 4 || cas.info_length.to_le_bytes() != file[file.len() - 4..] { return Err(format!("info_length {il} is not what the last four bytes say")); }
                if il + 4 > file.len() { return Err(format!("info_length {il} exceeds the file")); }
                sound_any(&cas.info, &file[file.len() - 4 - il..file.len() - 4])
            })()),
            Err(e) => Err(e.to_string()),
        });
        let name = "CasObjectInfoV1::deserialize_only_boundaries_section";
        let r = guard(name, what, &file, || CasObjectInfoV1::deserialize_only_boundaries_section(&mut Cursor::new(&file[..])));
        verdict(name, what, &file, c.boundaries, match r {
            Ok((i, n)) => Ok((|| {
                let k = i.num_chunks as usize;
                if &i.ident_boundary_section != b"XBLBBND" || i.boundaries_version != 1 { return Err(format!("boundary ident / version {} of the returned struct are not the constants", i.boundaries_version)); }
                if i.chunk_boundary_offsets.len() != k || i.unpacked_chunk_offsets.len() != k || !i.chunk_hashes.is_empty() {
                    return Err(format!("num_chunks {k} but {} boundaries, {} unpacked offsets, {} hashes (none are read)", i.chunk_boundary_offsets.len(), i.unpacked_chunk_offsets.len(), i.chunk_hashes.len()));
                }
                if i.boundary_section_offset_from_end != boff_for(k) || n != boff_for(k) { return Err(format!("boundary_section_offset_from_end {} / {n} bytes read, a section with {k} chunks has {}", i.boundary_section_offset_from_end, boff_for(k))); }
                if file.len() < 4 + n as usize { return Err("section longer than the file".into()); }
                let region = &file[file.len() - 4 - n as usize..file.len() - 4];
                if as_f(&i, spare_of(region)).boundary_section() != region { return Err("the returned struct does not encode to the bytes of the boundary section".into()); }
                Ok(())
            })()),
            Err(e) => Err(e.to_string()),
        });
        // --- async (reader positioned after ident + version, the version is handed over by the caller)
        if c.footer.len() >= 8 && &c.footer[..7] == b"XETBLOB" {
            let version = c.footer[7];
            let rest: Vec<u8> = file[c.prefix.len() + 8..].to_vec();
            let flen = c.footer.len();
            let name = "CasObject::deserialize_async";
            let r = guard(name, what, &rest, || block_on(async { let mut rd: &[u8] = &rest; CasObject::deserialize_async(&mut rd, version).await }));
            // (trailing bytes after info_length must be refused: "content past the end")
            let exp = if !c.extra.is_empty() { Exp::Reject } else { c.object };
            verdict(name, what, &rest, exp, match r {
                Ok(cas) => Ok((|| {
                    if cas.info_length as usize != flen || cas.info_length != c.info_length { return Err(format!("info_length {} but the footer has {flen} bytes and is followed by the length field {}", cas.info_length, c.info_length)); }
                    if !c.extra.is_empty() { return Err(format!("{} bytes follow the length field", c.extra.len())); }
                    sound_any(&cas.info, &c.footer)
                })()),
                Err(e) => Err(e.to_string()),
            });
            let name = "CasObjectInfoV1::deserialize_async";
            let body = &c.footer[8..];
            let r = guard(name, what, body, || block_on(async { let mut rd: &[u8] = body; CasObjectInfoV1::deserialize_async(&mut rd, version).await }));
            verdict(name, what, body, c.full, match r {
                Ok((i, n)) => Ok(if n as usize > flen { Err(format!("reports {n} bytes of {flen}")) } else { sound_any(&i, &c.footer[..n as usize]) }),
                Err(e) => Err(e.to_string()),
            });
            if version == 1 {
                let name = "CasObjectInfoV1::deserialize_async_v1";
                let r = guard(name, what, body, || block_on(async { let mut rd: &[u8] = body; CasObjectInfoV1::deserialize_async_v1(&mut rd).await }));
                verdict(name, what, body, c.full, match r {
                    Ok((i, n)) => Ok(if n as usize > flen { Err(format!("reports {n} bytes of {flen}")) } else { sound_v1(&i, &c.footer[..n as usize]) }),
                    Err(e) => Err(e.to_string()),
                });
            }
        }
    }

    fn v1_case(what: String, f: &F, full: Exp, boundaries: Exp, object: Exp) -> Case {
        let footer = f.bytes();
        let il = footer.len() as u32;
        Case { what, prefix: vec![0xAA; 20], footer, info_length: il, extra: vec![], full, boundaries, object }
    }

    pub fn run() {
        use Exp::*;
        for k in [0usize, 1, 3, 5] {
            let canon = F::canonical(k);
            let d = |s: &str| format!("a V1 footer for {k} chunks, {s}");
            // canonical: accepted with exactly these fields (the soundness oracle compares the encoding)
            run_case(&v1_case(d("canonical"), &canon, Accept, Accept, Accept));
            // spare bytes are free
            let mut f = canon.clone(); f.buffer = [0xC3; 16];
            run_case(&v1_case(d("spare buffer bytes set to 0xC3"), &f, Accept, Accept, Accept));
            // --- idents: every position changed
            for pos in 0..7 {
                for x in [0x20u8, 0xFF] {
                    let mut f = canon.clone(); f.ident[pos] ^= x;
                    run_case(&v1_case(d(&format!("first ident byte {pos} xored with {x:#04x}")), &f, Reject, Accept, Reject));
                    let mut f = canon.clone(); f.hid[pos] ^= x;
                    run_case(&v1_case(d(&format!("hash-section ident byte {pos} xored with {x:#04x}")), &f, Reject, Accept, Reject));
                    let mut f = canon.clone(); f.bid[pos] ^= x;
                    run_case(&v1_case(d(&format!("boundary-section ident byte {pos} xored with {x:#04x}")), &f, Reject, Reject, Reject));
                }
            }
            // idents exchanged between the sections
            let mut f = canon.clone(); std::mem::swap(&mut f.hid, &mut f.bid);
            run_case(&v1_case(d("hash- and boundary-section idents exchanged"), &f, Reject, Reject, Reject));
            // --- version bytes
            for v in [0u8, 2, 3, 255] {
                let mut f = canon.clone(); f.version = v;
                // (version 0 makes the same bytes a V0 footer whose count field is 'XBLB': far more entries than bytes)
                run_case(&v1_case(d(&format!("format version byte {v}")), &f, Reject, Accept, Reject));
                let mut f = canon.clone(); f.bver = v;
                run_case(&v1_case(d(&format!("boundaries-section version byte {v}")), &f, Reject, Reject, Reject));
            }
            for v in [1u8, 2, 3, 255] {
                let mut f = canon.clone(); f.hver = v;
                run_case(&v1_case(d(&format!("hashes-section version byte {v}")), &f, Reject, Accept, Reject));
            }
            // --- the three copies of the chunk count (tables unchanged)
            let kk = k as u32;
            for delta in [kk.wrapping_sub(1), kk + 1, 0, 1 << 16, u32::MAX] {
                if delta == kk { continue; }
                let mut f = canon.clone(); f.n2 = delta;
                run_case(&v1_case(d(&format!("count in the hash section = {delta}")), &f, Reject, Accept, Reject));
                let mut f = canon.clone(); f.n3 = delta;
                run_case(&v1_case(d(&format!("count in the boundary section = {delta}")), &f, Reject, Reject, Reject));
                let mut f = canon.clone(); f.n = delta;
                run_case(&v1_case(d(&format!("count in the fixed tail = {delta}")), &f, Reject, Reject, Reject));
                let mut f = canon.clone(); f.n2 = delta; f.n3 = delta; f.n = delta;
                run_case(&v1_case(d(&format!("all three counts = {delta} with tables for {k} entries")), &f, Reject, Reject, Reject));
                let mut f = canon.clone(); f.n2 = delta; f.n3 = delta;
                run_case(&v1_case(d(&format!("both section counts = {delta}, tail count {k}")), &f, Reject, Reject, Reject));
            }
            // tables of different lengths under one consistent count
            if k > 0 {
                let mut f = canon.clone(); f.unpacked.pop();
                run_case(&v1_case(d("one unpacked offset missing"), &f, Reject, Reject, Reject));
                let mut f = canon.clone(); f.bounds.push(7);
                run_case(&v1_case(d("one boundary offset too many"), &f, Reject, Reject, Reject));
                let mut f = canon.clone(); f.hashes.pop();
                run_case(&v1_case(d("one chunk hash missing"), &f, Reject, Sound, Reject));
            }
            // --- section offsets from the end
            let flen = canon.bytes().len() as u32;
            for off in [0u32, 1, 24, 28, canon.boff - 1, canon.boff + 1, canon.hoff - 1, canon.hoff + 1, flen, flen + 4, flen + 20, flen + 24, flen + 25, 1 << 31, u32::MAX - 4, u32::MAX - 3, u32::MAX] {
                if off != canon.hoff {
                    let mut f = canon.clone(); f.hoff = off;
                    run_case(&v1_case(d(&format!("hashes_section_offset_from_end = {off} (right value {})", canon.hoff)), &f, Reject, Accept, Reject));
                }
                if off != canon.boff {
                    let mut f = canon.clone(); f.boff = off;
                    run_case(&v1_case(d(&format!("boundary_section_offset_from_end = {off} (right value {})", canon.boff)), &f, Reject, Reject, Reject));
                }
            }
            let mut f = canon.clone(); f.boff = canon.hoff; // points at the hash section
            run_case(&v1_case(d("boundary_section_offset_from_end pointing at the hash section"), &f, Reject, Reject, Reject));
            let mut f = canon.clone(); std::mem::swap(&mut f.boff, &mut f.hoff);
            run_case(&v1_case(d("the two section offsets exchanged"), &f, Reject, Reject, Reject));
            // --- the trailing info_length
            for il in [0u32, 1, 4, flen - 1, flen + 1, flen - 8, flen + 19, flen + 20, flen + 21, flen + 24, 2 * flen, 1 << 31, u32::MAX - 3, u32::MAX] {
                if il == flen { continue; }
                let mut c = v1_case(d(&format!("followed by info_length = {il} (footer has {flen} bytes, file {} bytes)", flen + 24)), &canon, Accept, Accept, Reject);
                c.info_length = il;
                run_case(&c);
            }
            // --- bytes after the length field
            for extra in [vec![0u8], vec![0u8; 3], vec![0u8; 4], (flen).to_le_bytes().to_vec(), vec![0xAA; 8], vec![0u8; 9]] {
                let mut c = v1_case(d(&format!("with {} bytes {} after the length field", extra.len(), hex(&extra))), &canon, Accept, Sound, Reject);
                // (appending the length again leaves a file whose LAST four bytes are a length too, but the footer is then 4 bytes off)
                c.extra = extra;
                run_case(&c);
            }
            // --- truncation at every offset (footer alone; whole file; async body)
            let file = { let mut v = vec![0xAAu8; 20]; v.extend_from_slice(&canon.bytes()); v.extend_from_slice(&flen.to_le_bytes()); v };
            for cut in 0..file.len() {
                let t = &file[..cut];
                let what = d(&format!("file (20 bytes + footer + length) truncated to {cut} of {} bytes", file.len()));
                for (name, ok) in [
                    ("CasObject::deserialize", guard("CasObject::deserialize", &what, t, || CasObject::deserialize(&mut Cursor::new(t)).is_ok())),
                    ("CasObjectInfoV1::deserialize_only_boundaries_section", guard("CasObjectInfoV1::deserialize_only_boundaries_section", &what, t, || CasObjectInfoV1::deserialize_only_boundaries_section(&mut Cursor::new(t)).is_ok())),
                ] {
                    if ok { witness(format!("{name} ACCEPTS {what} ({})", hex(t))); }
                }
                let _ = guard("CasObject::get_info_length", &what, t, || CasObject::get_info_length(&mut Cursor::new(t)).is_ok());
            }
            let footer = canon.bytes();
            for cut in 0..footer.len() {
                let t = &footer[..cut];
                let what = d(&format!("footer truncated to {cut} of {} bytes", footer.len()));
                if guard("CasObjectInfoV1::deserialize", &what, t, || CasObjectInfoV1::deserialize(&mut Cursor::new(t)).is_ok()) {
                    witness(format!("CasObjectInfoV1::deserialize ACCEPTS {what} ({})", hex(t)));
                }
            }
            let body = { let mut v = footer[8..].to_vec(); v.extend_from_slice(&flen.to_le_bytes()); v };
            for cut in 0..body.len() {
                let t = &body[..cut];
                let what = d(&format!("async body (footer after ident and version, + length field) truncated to {cut} of {} bytes", body.len()));
                if guard("CasObject::deserialize_async", &what, t, || block_on(async { let mut rd: &[u8] = t; CasObject::deserialize_async(&mut rd, 1).await }).is_ok()) {
                    witness(format!("CasObject::deserialize_async ACCEPTS {what} ({})", hex(t)));
                }
                if cut < body.len() - 4 && guard("CasObjectInfoV1::deserialize_async", &what, t, || block_on(async { let mut rd: &[u8] = t; CasObjectInfoV1::deserialize_async(&mut rd, 1).await }).is_ok()) {
                    witness(format!("CasObjectInfoV1::deserialize_async ACCEPTS {what} ({})", hex(t)));
                }
            }
            // version handed to the async parsers although the bytes are V1: every value but 1 must fail
            for v in [0u8, 2, 3, 255] {
                let what = d(&format!("async body parsed with the caller-supplied version {v}"));
                if guard("CasObject::deserialize_async", &what, &body, || block_on(async { let mut rd: &[u8] = &body; CasObject::deserialize_async(&mut rd, v).await }).is_ok()) {
                    witness(format!("CasObject::deserialize_async ACCEPTS {what}"));
                }
            }

            // ------------------------------------------------------------------------------------------------------------------
            // V0 footers
            // ------------------------------------------------------------------------------------------------------------------
            let mut v0 = canon.clone();
            v0.version = 0;
            v0.buffer = [0; 16];
            let v0b = v0.bytes_v0();
            let d0 = |s: &str| format!("a V0 footer for {k} chunks, {s}");
            // the real serializer writes exactly this layout
            let mut s0 = CasObjectInfoV0::default();
            s0.cashash = MerkleHash::from(&v0.cashash);
            s0.num_chunks = k as u32;
            s0.chunk_boundary_offsets = v0.bounds.clone();
            s0.chunk_hashes = v0.hashes.iter().map(MerkleHash::from).collect();
            let mut out = vec![];
            match guard("CasObjectInfoV0::serialize", &d0("canonical"), &v0b, || s0.serialize(&mut out)) {
                Ok(n) if n == out.len() && out == v0b => {},
                other => witness(format!("CasObjectInfoV0::serialize of {} writes {} bytes ({}) and returns {other:?}; the V0 layout is {} bytes ({})", d0("canonical"), out.len(), hex(&out), v0b.len(), hex(&v0b))),
            }
            match guard("CasObjectInfoV0::deserialize", &d0("canonical"), &v0b, || CasObjectInfoV0::deserialize(&mut Cursor::new(&v0b[..]))) {
                Ok((i, n)) if i == s0 && n as usize == v0b.len() => {},
                other => witness(format!("CasObjectInfoV0::deserialize of {} returns {:?}, expected the struct that was serialized and {} bytes read", d0("canonical"), other.map(|x| (x.0.num_chunks, x.1)).map_err(|e| e.to_string()), v0b.len())),
            }
            match guard("CasObjectInfoV0::deserialize_async", &d0("canonical"), &v0b, || block_on(async { let mut rd: &[u8] = &v0b[8..]; CasObjectInfoV0::deserialize_async(&mut rd, 0).await })) {
                Ok((i, n)) if i == s0 && n as usize == v0b.len() => {},
                other => witness(format!("CasObjectInfoV0::deserialize_async of {} returns {:?}, expected the struct that was serialized and {} bytes counted", d0("canonical"), other.map(|x| (x.0.num_chunks, x.1)).map_err(|e| e.to_string()), v0b.len())),
            }
            // conversions
            let conv = guard("CasObjectInfoV1::from_v0", &d0("canonical"), &v0b, || CasObjectInfoV1::from_v0(s0.clone()));
            if let Err(why) = sound_from_v0(&conv, &v0b) {
                witness(format!("CasObjectInfoV1::from_v0 of {}: {why}", d0("canonical")));
            }
            if conv.has_chunk_hashes() != (k > 0) {
                witness(format!("has_chunk_hashes() is {} on a footer with {k} chunk hashes", conv.has_chunk_hashes()));
            }
            let conv2 = guard("CasObjectInfoV1::from_v0_with_unpacked_chunk_offsets", &d0("canonical"), &v0b, || CasObjectInfoV1::from_v0_with_unpacked_chunk_offsets(s0.clone(), canon.unpacked.clone()));
            if let Err(why) = sound_v1(&conv2, &canon.bytes()) {
                witness(format!("CasObjectInfoV1::from_v0_with_unpacked_chunk_offsets of {} and the unpacked offsets {:?} is not the V1 footer with the same contents: {why}", d0("canonical"), canon.unpacked));
            }
            // through the V1 entry points
            let mut c = Case { what: d0("canonical"), prefix: vec![0xAA; 20], footer: v0b.clone(), info_length: v0b.len() as u32, extra: vec![], full: Accept, boundaries: Reject, object: Accept };
            run_case(&c);
            c.what = d0("followed by one extra byte"); c.extra = vec![0]; c.object = Reject; c.boundaries = Sound;
            run_case(&c);
            for il in [0u32, v0b.len() as u32 - 1, v0b.len() as u32 + 1, v0b.len() as u32 + 21, u32::MAX] {
                let c = Case { what: d0(&format!("followed by info_length = {il} (footer has {} bytes)", v0b.len())), prefix: vec![0xAA; 20], footer: v0b.clone(), info_length: il, extra: vec![], full: Accept, boundaries: Sound, object: Reject };
                run_case(&c);
            }
            for cnt in [kk.wrapping_sub(1), kk + 1, 1 << 16, 1 << 24, u32::MAX] {
                if cnt == kk { continue; }
                let mut f = v0.clone(); f.n = cnt;
                let fb = f.bytes_v0();
                // (a smaller count makes the V0 parsers stop early: a sound parse of a PREFIX, which only the length check of
                // CasObject::deserialize can notice)
                let c = Case { what: d0(&format!("count field = {cnt} with tables for {k} entries")), prefix: vec![0xAA; 20], footer: fb.clone(), info_length: fb.len() as u32, extra: vec![], full: if cnt < kk { Sound } else { Reject }, boundaries: Sound, object: Reject };
                run_case(&c);
                if cnt < kk { continue; }
                let what = &c.what;
                if guard("CasObjectInfoV0::deserialize", what, &fb, || CasObjectInfoV0::deserialize(&mut Cursor::new(&fb[..])).is_ok()) {
                    witness(format!("CasObjectInfoV0::deserialize ACCEPTS {what} ({})", hex(&fb)));
                }
                if guard("CasObjectInfoV0::deserialize_async", what, &fb, || block_on(async { let mut rd: &[u8] = &fb[8..]; CasObjectInfoV0::deserialize_async(&mut rd, 0).await }).is_ok()) {
                    witness(format!("CasObjectInfoV0::deserialize_async ACCEPTS {what} ({})", hex(&fb)));
                }
            }
            for v in [1u8, 2, 255] {
                let mut fb = v0b.clone(); fb[7] = v;
                let what = d0(&format!("version byte {v}"));
                if guard("CasObjectInfoV0::deserialize", &what, &fb, || CasObjectInfoV0::deserialize(&mut Cursor::new(&fb[..])).is_ok()) {
                    witness(format!("CasObjectInfoV0::deserialize ACCEPTS {what} ({})", hex(&fb)));
                }
            }
            for pos in 0..7 {
                let mut fb = v0b.clone(); fb[pos] ^= 0x20;
                let what = d0(&format!("ident byte {pos} xored with 0x20"));
                if guard("CasObjectInfoV0::deserialize", &what, &fb, || CasObjectInfoV0::deserialize(&mut Cursor::new(&fb[..])).is_ok()) {
                    witness(format!("CasObjectInfoV0::deserialize ACCEPTS {what} ({})", hex(&fb)));
                }
                let c = Case { what, prefix: vec![0xAA; 20], footer: fb.clone(), info_length: fb.len() as u32, extra: vec![], full: Reject, boundaries: Sound, object: Reject };
                run_case(&c);
            }
            for cut in 0..v0b.len() {
                let t = &v0b[..cut];
                let what = d0(&format!("truncated to {cut} of {} bytes", v0b.len()));
                if guard("CasObjectInfoV0::deserialize", &what, t, || CasObjectInfoV0::deserialize(&mut Cursor::new(t)).is_ok()) {
                    witness(format!("CasObjectInfoV0::deserialize ACCEPTS {what} ({})", hex(t)));
                }
                if guard("CasObjectInfoV1::deserialize", &what, t, || CasObjectInfoV1::deserialize(&mut Cursor::new(t)).is_ok()) {
                    witness(format!("CasObjectInfoV1::deserialize ACCEPTS {what} ({})", hex(t)));
                }
                if cut >= 8 && guard("CasObjectInfoV0::deserialize_async", &what, t, || block_on(async { let mut rd: &[u8] = &t[8..]; CasObjectInfoV0::deserialize_async(&mut rd, 0).await }).is_ok()) {
                    witness(format!("CasObjectInfoV0::deserialize_async ACCEPTS {what} ({})", hex(t)));
                }
                let mut tf = vec![0xAAu8; 20]; tf.extend_from_slice(t);
                if cut >= 4 && guard("CasObject::deserialize", &what, &tf, || CasObject::deserialize(&mut Cursor::new(&tf[..])).is_ok()) {
                    witness(format!("CasObject::deserialize ACCEPTS 20 bytes + {what}"));
                }
            }
        }
        // a footer with more chunks than the parsers pre-allocate for (1152), parsed exactly
        for k in [1152usize, 1153, 4000] {
            let f = F::canonical(k);
            run_case(&v1_case(format!("a V1 footer for {k} chunks, canonical"), &f, Accept, Accept, Accept));
            let mut v0 = f.clone(); v0.version = 0;
            let fb = v0.bytes_v0();
            run_case(&Case { what: format!("a V0 footer for {k} chunks, canonical"), prefix: vec![0xAA; 20], footer: fb.clone(), info_length: fb.len() as u32, extra: vec![], full: Accept, boundaries: Reject, object: Accept });
        }
        println!("footer classes: {} parser answers Ok (all sound), {} Err", N_ACCEPTED.load(Ordering::Relaxed), N_REJECTED.load(Ordering::Relaxed));
    }
}
