//! Witness search for C08 (footer parsers on arbitrary input): the REAL `CasObjectInfoV1::deserialize_only_boundaries_section`,
//! `CasObjectInfoV1::deserialize` and `CasObject::deserialize` on tiny hand-built and random inputs, under a recording global
//! allocator.  A footer parser must return Ok or Err: a panic is a violation, and so is a single allocation request that is
//! out of proportion to the input (an untrusted count used as an allocation size).
//! Prints `WITNESS ...` and exits 1 on the first violation.
use std::alloc::{GlobalAlloc, Layout, System};
use std::io::Cursor;
use std::panic::{catch_unwind, AssertUnwindSafe};
use std::sync::atomic::{AtomicUsize, Ordering};

use cas_object::{CasObject, CasObjectInfoV1};
use rand::rngs::StdRng;
use rand::{Rng, SeedableRng};

struct Recording;
static MAX_REQUEST: AtomicUsize = AtomicUsize::new(0);
unsafe impl GlobalAlloc for Recording {
    unsafe fn alloc(&self, l: Layout) -> *mut u8 {
        MAX_REQUEST.fetch_max(l.size(), Ordering::Relaxed);
        System.alloc(l)
    }
    unsafe fn alloc_zeroed(&self, l: Layout) -> *mut u8 {
        MAX_REQUEST.fetch_max(l.size(), Ordering::Relaxed);
        System.alloc_zeroed(l)
    }
    unsafe fn realloc(&self, p: *mut u8, l: Layout, n: usize) -> *mut u8 {
        MAX_REQUEST.fetch_max(n, Ordering::Relaxed);
        System.realloc(p, l, n)
    }
    unsafe fn dealloc(&self, p: *mut u8, l: Layout) {
        System.dealloc(p, l)
    }
}
#[global_allocator]
static A: Recording = Recording;

/// an allocation request of more than this for an input of at most a few KiB is "unbounded" (the parsers' own cap on
/// pre-allocation is a few thousand entries)
const ALLOC_LIMIT: usize = 64 << 20;

fn witness(msg: String) -> ! {
    println!("WITNESS {msg}");
    std::process::exit(1);
}

fn hex(b: &[u8]) -> String {
    b.iter().map(|x| format!("{x:02x}")).collect::<Vec<_>>().join("")
}

fn run(name: &str, input: &[u8], f: impl FnOnce(&mut Cursor<&[u8]>) -> bool) {
    MAX_REQUEST.store(0, Ordering::Relaxed);
    let mut c = Cursor::new(input);
    let r = catch_unwind(AssertUnwindSafe(|| f(&mut c)));
    let peak = MAX_REQUEST.load(Ordering::Relaxed);
    match r {
        Err(e) => {
            let msg = e.downcast_ref::<String>().cloned().or_else(|| e.downcast_ref::<&str>().map(|s| s.to_string())).unwrap_or_default();
            witness(format!("{name} panicked on a {}-byte input ({}): {msg}", input.len(), hex(input)));
        },
        Ok(_) => {
            if peak > ALLOC_LIMIT {
                witness(format!("{name} requested a single allocation of {peak} bytes for a {}-byte input ({})", input.len(), hex(input)));
            }
        },
    }
}

fn all(input: &[u8]) {
    run("CasObjectInfoV1::deserialize_only_boundaries_section", input, |c| CasObjectInfoV1::deserialize_only_boundaries_section(c).is_ok());
    run("CasObjectInfoV1::deserialize", input, |c| CasObjectInfoV1::deserialize(c).is_ok());
    run("CasObject::deserialize", input, |c| CasObject::deserialize(c).is_ok());
}

/// a boundaries section (ident, version 1, count, [tables], count, two offsets, buffer) followed by the trailing info_length
fn boundaries_tail(count_head: u32, tables: &[u8], count_tail: u32, hashes_off: u32, boundary_off: u32, info_length: u32) -> Vec<u8> {
    let mut v = vec![];
    v.extend_from_slice(b"XBLBBND");
    v.push(1);
    v.extend_from_slice(&count_head.to_le_bytes());
    v.extend_from_slice(tables);
    v.extend_from_slice(&count_tail.to_le_bytes());
    v.extend_from_slice(&hashes_off.to_le_bytes());
    v.extend_from_slice(&boundary_off.to_le_bytes());
    v.extend_from_slice(&[0u8; 16]);
    v.extend_from_slice(&info_length.to_le_bytes());
    v
}

fn main() {
    // 1. the untrusted section offset 24 bytes before the end, at and near the u32 limit
    for off in [u32::MAX, u32::MAX - 1, u32::MAX - 3, u32::MAX - 4, 1 << 31, 0, 1, 40, 44] {
        for len in [24usize, 28, 44, 64, 200] {
            let mut v = vec![0u8; len];
            v[len - 24..len - 20].copy_from_slice(&off.to_le_bytes());
            all(&v);
        }
    }
    // 2. a well-formed, table-less boundaries section that announces a huge chunk count
    for count in [u32::MAX, u32::MAX - 15, 1 << 30, 1 << 24, 70_000, 0] {
        let v = boundaries_tail(count, &[], count, 0, 40, 44);
        all(&v);
        let mut w = vec![0u8; 100];
        w.extend_from_slice(&v);
        all(&w);
    }
    // 3. the trailing info_length, at and near the limits (the full parsers seek by it)
    for info_length in [u32::MAX, u32::MAX - 3, u32::MAX - 4, 1 << 31, 0, 1, 7, 8, 40, 44, 45, 96, 100] {
        for len in [4usize, 8, 44, 100] {
            let mut v = vec![0u8; len];
            v[len - 4..].copy_from_slice(&info_length.to_le_bytes());
            all(&v);
        }
    }
    // 4. random short strings, and random strings ending in a plausible tail
    let mut rng = StdRng::seed_from_u64(std::env::var("VERIF_SEED").ok().and_then(|s| s.parse().ok()).unwrap_or(0));
    for _ in 0..20000 {
        let len = rng.random_range(0..160usize);
        let mut v = vec![0u8; len];
        rng.fill(&mut v[..]);
        if len >= 24 && rng.random_bool(0.5) {
            let off: u32 = rng.random_range(0..200);
            v[len - 24..len - 20].copy_from_slice(&off.to_le_bytes());
            let il: u32 = rng.random_range(0..200);
            v[len - 4..].copy_from_slice(&il.to_le_bytes());
        }
        all(&v);
    }
    println!("no violation found");
}
