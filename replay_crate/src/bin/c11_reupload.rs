//! Witness search for C11: upload files in one session against a local store, finalize, then re-upload the same bytes in a second
//! session sharing the local shard cache; every chunk was stored in a new xorb by the first session, so the second session must
//! transfer no new chunk bytes - whether the data went into a mid-file xorb or into the session's final aggregated xorb.
//! Prints `WITNESS ...` and exits 1 on the first violation.
use std::sync::Arc;

use data::configurations::TranslatorConfig;
use data::FileUploadSession;
use xet_threadpool::ThreadPool;

fn data_of(seed: u64, len: usize) -> Vec<u8> {
    // xorshift: incompressible, no repeated chunk
    let mut x = seed.wrapping_mul(0x9E3779B97F4A7C15) | 1;
    (0..len).map(|_| { x ^= x << 13; x ^= x >> 7; x ^= x << 17; (x >> 24) as u8 }).collect()
}

async fn upload(cfg: Arc<TranslatorConfig>, tp: Arc<ThreadPool>, files: &[Vec<u8>]) -> (usize, usize) {
    let session = FileUploadSession::new(cfg, tp, None).await.unwrap();
    let mut new_bytes = 0;
    let mut total = 0;
    for (i, f) in files.iter().enumerate() {
        let mut cleaner = session.start_clean(format!("file{i}"));
        cleaner.add_data(f).await.unwrap();
        let (_p, m) = cleaner.finish().await.unwrap();
        new_bytes += m.new_bytes;
        total += m.total_bytes;
    }
    session.finalize().await.unwrap();
    (new_bytes, total)
}

fn main() {
    // a small xorb limit (configurable constant, read from the environment at first use) so that a 3 MB file is cut into several
    // mid-file xorbs without needing hundreds of megabytes
    unsafe { std::env::set_var("HF_XET_MAX_XORB_BYTES", "1000000"); }
    let tp = Arc::new(ThreadPool::new().expect("runtime"));
    let cases: Vec<(&str, Vec<Vec<u8>>)> = vec![
        ("one small file (goes into the session's final aggregated xorb)", vec![data_of(1, 300_000)]),
        ("three small files merged into one aggregated xorb", vec![data_of(2, 200_000), data_of(3, 150_000), data_of(4, 90_000)]),
        ("one sub-chunk file", vec![data_of(5, 1000)]),
        ("one 3 MB file cut into several mid-file xorbs (xorb limit lowered to 1 MB)", vec![data_of(6, 3_000_000)]),
        ("a 2.5 MB file followed by two small ones", vec![data_of(7, 2_500_000), data_of(8, 100_000), data_of(9, 5_000)]),
    ];
    for (name, files) in cases {
        let dir = tempfile::tempdir().unwrap();
        let files2 = files.clone();
        let tp2 = tp.clone();
        let path = dir.path().to_path_buf();
        let r = tp
            .external_run_async_task(async move {
                let first = upload(TranslatorConfig::local_config(&path).unwrap(), tp2.clone(), &files2).await;
                let second = upload(TranslatorConfig::local_config(&path).unwrap(), tp2.clone(), &files2).await;
                (first, second)
            })
            .unwrap();
        let ((n1, t1), (n2, t2)) = r;
        if n1 != t1 || t2 != t1 {
            println!("WITNESS {name}: unexpected baseline metrics first session new={n1} total={t1}, second total={t2}");
            std::process::exit(1);
        }
        if n2 != 0 {
            println!("WITNESS {name}: the first session stored {n1} new bytes and finalized; re-uploading the same bytes in a second session sharing the local shard cache transferred {n2} new bytes again (expected 0)");
            std::process::exit(1);
        }
    }
    println!("no violation found");
}
