//! Witness search for C11 (data uploaded once is deduplicated by every later session): every chunk that a finalized session stored
//! in a new xorb is recorded in that session's shards, so a later session / manager sharing the local shard cache finds it.
//! Prints `WITNESS ...` and exits 1 on the first violation, `no violation found` otherwise; never proves anything.
//!
//! Scenarios:
//!  R  (the original search) upload files in one FileUploadSession against a local store, finalize, re-upload the same bytes in a
//!     second session sharing the local shard cache: the second session must transfer no new chunk bytes - one small file
//!     (final aggregated xorb), three small files, a sub-chunk file, a 3 MB file cut into several mid-file xorbs (xorb limit
//!     lowered to 1 MB), a 2.5 MB file followed by two small ones.
//!  P  "another process writes into the shared cache between two sessions", session level: P1 runs a session on unrelated data
//!     (which opens the shard cache directory in this process); P2 - stood in for by the same cache directory spelled
//!     `.../shard-session/../shard-cache`, which gets its own ShardFileManager instance exactly like another process - uploads
//!     file A as new data and finalizes (its session shard is exported into the shared cache directory); P1 starts a NEW session
//!     and re-uploads A: no new bytes.  Control order (P2 first) as well.
//!  M  the same at the manager level: `ShardFileManager::new_in_cache_directory(cache)` (session 1 of P1); a shard recording xorb X
//!     is exported into `cache` by someone else (session-directory manager: add_cas_block, flush, export_with_expiration);
//!     `new_in_cache_directory(cache)` again (what the next session of P1 does): every chunk of X must be found.
//!  B  a session shard with MORE than 65,536 CAS-section entries (80 xorbs x 1000 chunks = 80,080 entries), built through the real
//!     `ShardFileManager` (add_cas_block x 80, flush), exported to the cache directory with an expiry as
//!     `upload_and_register_session_shards` does: the flushing manager itself and a later manager over the cache directory must
//!     find every xorb - runs of 5 chunks starting at chunk 0, 417 and 995 of each xorb must come back as (5, that xorb, that range).
//!  G  the same through FileUploadSession (child process, because the chunk-size constants are read once per process:
//!     HF_XET_TARGET_CHUNK_SIZE=256, HF_XET_MINIMUM_CHUNK_DIVISOR=2, honoured in debug builds): a 22 MB file (about 90,000 chunks)
//!     is uploaded as new data, finalized, and uploaded again in a second session over the same local directories: the second
//!     session must report 0 new bytes / 0 new chunks and deduped_bytes == file size.
//!  X  xorb-only session shards (child process: 4 KiB chunks, 100,000-byte xorbs, HF_XET_MDB_SHARD_MIN_TARGET_SIZE=4096, so the
//!     session shard is flushed to disk several times WHILE the 1.5 MB file is still being cleaned - those shard files hold xorb
//!     records and no file record): session 1 uploads the file, session 2 over the same directories re-uploads it: 0 new bytes.
//!  S  stray entries in the shard cache directory, fresh processes: child 1 uploads the file (same small limits, several shard
//!     files) and exits; `.DS_Store`, `.<uuid>.mdb_temp`, `notes.txt`, editor backups, a sub-directory ... (40 entries, so that some
//!     are listed before the shard files whatever the directory order) are dropped into `shard-cache`; child 2 - which can learn
//!     about the shards only by scanning the directory - re-uploads the file: 0 new bytes.
//! `VERIF_C11_ONLY=R,P,...` selects scenarios.  Exit 2 = the harness itself failed.
use std::path::{Path, PathBuf};
use std::sync::Arc;
use std::time::Duration;

use data::configurations::TranslatorConfig;
use data::FileUploadSession;
use deduplication::DeduplicationMetrics;
use mdb_shard::cas_structs::{CASChunkSequenceEntry, CASChunkSequenceHeader, MDBCASInfo};
use mdb_shard::{MDBShardFile, ShardFileManager};
use merklehash::MerkleHash;
use xet_threadpool::ThreadPool;

fn infra(msg: String) -> ! {
    eprintln!("harness failure: {msg}");
    println!("harness failure: {msg}");
    std::process::exit(2)
}
fn witness(msg: String) -> ! {
    println!("WITNESS {}", msg.replace('\n', " "));
    std::process::exit(1)
}

fn data_of(seed: u64, len: usize) -> Vec<u8> {
    // xorshift: incompressible, no repeated chunk
    let mut x = seed.wrapping_mul(0x9E3779B97F4A7C15) | 1;
    (0..len).map(|_| { x ^= x << 13; x ^= x >> 7; x ^= x << 17; (x >> 24) as u8 }).collect()
}

async fn upload_metrics(cfg: Arc<TranslatorConfig>, tp: Arc<ThreadPool>, files: &[Vec<u8>]) -> DeduplicationMetrics {
    let session = FileUploadSession::new(cfg, tp, None).await.unwrap();
    let mut all = DeduplicationMetrics::default();
    for (i, f) in files.iter().enumerate() {
        let mut cleaner = session.start_clean(format!("file{i}"));
        cleaner.add_data(f).await.unwrap();
        let (_p, m) = cleaner.finish().await.unwrap();
        all.merge_in(&m);
    }
    session.finalize().await.unwrap();
    all
}
async fn upload(cfg: Arc<TranslatorConfig>, tp: Arc<ThreadPool>, files: &[Vec<u8>]) -> (usize, usize) {
    let m = upload_metrics(cfg, tp, files).await;
    (m.new_bytes, m.total_bytes)
}

// ---------------------------------------------------------------- R
fn scenario_r(tp: &Arc<ThreadPool>) {
    let cases: Vec<(&str, Vec<Vec<u8>>)> = vec![
        ("one small file (goes into the session's final aggregated xorb)", vec![data_of(1, 300_000)]),
        ("three small files merged into one aggregated xorb", vec![data_of(2, 200_000), data_of(3, 150_000), data_of(4, 90_000)]),
        ("one sub-chunk file", vec![data_of(5, 1000)]),
        ("one 3 MB file cut into several mid-file xorbs (xorb limit lowered to 1 MB)", vec![data_of(6, 3_000_000)]),
        ("a 2.5 MB file followed by two small ones", vec![data_of(7, 2_500_000), data_of(8, 100_000), data_of(9, 5_000)]),
    ];
    for (name, files) in cases {
        let dir = tempfile::tempdir().unwrap();
        let files2 = files.clone();
        let tp2 = tp.clone();
        let path = dir.path().to_path_buf();
        let r = tp
            .external_run_async_task(async move {
                let first = upload(TranslatorConfig::local_config(&path).unwrap(), tp2.clone(), &files2).await;
                let second = upload(TranslatorConfig::local_config(&path).unwrap(), tp2.clone(), &files2).await;
                (first, second)
            })
            .unwrap();
        let ((n1, t1), (n2, t2)) = r;
        if n1 != t1 || t2 != t1 {
            witness(format!("{name}: unexpected baseline metrics first session new={n1} total={t1}, second total={t2}"));
        }
        if n2 != 0 {
            witness(format!("{name}: the first session stored {n1} new bytes and finalized; re-uploading the same bytes in a second session sharing the local shard cache transferred {n2} new bytes again (expected 0)"));
        }
    }
}

// ---------------------------------------------------------------- P
fn config_p1(cas_dir: &Path) -> Arc<TranslatorConfig> {
    TranslatorConfig::local_config(cas_dir).unwrap()
}
/// same directories on disk, but the shard cache directory is spelled differently, so this process treats it like a separate
/// process would (own ShardFileManager instance; the process-global table is keyed by the un-normalised absolute path)
fn config_p2(cas_dir: &Path) -> Arc<TranslatorConfig> {
    let mut config = TranslatorConfig::local_config(cas_dir).unwrap();
    let alias: PathBuf = cas_dir.join("xet").join("shard-session").join("..").join("shard-cache");
    std::fs::create_dir_all(cas_dir.join("xet").join("shard-session")).unwrap();
    std::fs::create_dir_all(cas_dir.join("xet").join("shard-cache")).unwrap();
    let same = std::fs::canonicalize(&alias).ok() == std::fs::canonicalize(&config.shard_config.cache_directory).ok();
    if !same {
        infra("P: the alias path does not name the shard cache directory".into());
    }
    match Arc::get_mut(&mut config) {
        Some(c) => c.shard_config.cache_directory = alias,
        None => infra("P: config not unique".into()),
    }
    config
}
fn scenario_p(tp: &Arc<ThreadPool>) {
    const SIZE: usize = 1024 * 1024;
    for control in [false, true] {
        let dir = tempfile::tempdir().unwrap();
        let cas = dir.path().join("cas");
        let tp2 = tp.clone();
        let r = tp
            .external_run_async_task(async move {
                let warmup = vec![data_of(101, SIZE)];
                let a = vec![data_of(102, SIZE)];
                let mut log = Vec::new();
                if !control {
                    log.push(("P1 session on unrelated data", upload(config_p1(&cas), tp2.clone(), &warmup).await));
                }
                log.push(("P2 uploads A as new data", upload(config_p2(&cas), tp2.clone(), &a).await));
                if !control {
                    log.push(("P2 re-uploads A", upload(config_p2(&cas), tp2.clone(), &a).await));
                }
                log.push(("P1 (new session) re-uploads A", upload(config_p1(&cas), tp2.clone(), &a).await));
                log.push(("P1 (another new session) re-uploads A", upload(config_p1(&cas), tp2.clone(), &a).await));
                let n_cache = std::fs::read_dir(cas.join("xet").join("shard-cache")).map(|d| d.count()).unwrap_or(0);
                (log, n_cache)
            })
            .unwrap();
        let (log, n_cache) = r;
        let history = log.iter().map(|(s, (n, t))| format!("{s}: new={n} total={t}")).collect::<Vec<_>>().join("; ");
        let first_p2 = log.iter().find(|(s, _)| s.starts_with("P2 uploads")).map(|x| x.1).unwrap_or((0, 0));
        if first_p2 != (SIZE, SIZE) {
            infra(format!("P: unexpected baseline: {history}"));
        }
        for (step, (n, t)) in &log {
            if step.contains("re-uploads A") && (*n != 0 || *t != SIZE) {
                witness(format!(
                    "P ({}): two users of one on-disk shard cache directory ({n_cache} shard files in it); P2 is the same directory under another path spelling = another ShardFileManager instance, as in another process. History: {history}. Step '{step}' stored {n} new bytes although A's xorbs are recorded in a shard of the shared cache directory (expected 0)",
                    if control { "control order" } else { "P1 opened the cache before P2 uploaded" }
                ));
            }
        }
    }
}

// ---------------------------------------------------------------- M and B: shard level
fn hash_of(a: u64, b: u64) -> MerkleHash {
    let mut z = a.wrapping_mul(0x9E3779B97F4A7C15) ^ b.wrapping_mul(0xD1B54A32D192ED03);
    let mut out = [0u8; 32];
    for j in 0..4 {
        z = z.wrapping_add(0x9E3779B97F4A7C15);
        let mut x = z;
        x = (x ^ (x >> 30)).wrapping_mul(0xBF58476D1CE4E5B9);
        x = (x ^ (x >> 27)).wrapping_mul(0x94D049BB133111EB);
        x ^= x >> 31;
        out[j * 8..j * 8 + 8].copy_from_slice(&x.to_le_bytes());
    }
    MerkleHash::from_slice(&out).unwrap()
}
fn make_xorb(tag: u64, xorb_idx: u64, n_chunks: u64) -> MDBCASInfo {
    let mut chunks = Vec::with_capacity(n_chunks as usize);
    let mut pos = 0u32;
    for c in 0..n_chunks {
        let len = 60_000 + (c as u32 % 7) * 1000;
        chunks.push(CASChunkSequenceEntry::new(hash_of(tag, 1_000_000 * (xorb_idx + 1) + c), len, pos));
        pos += len;
    }
    MDBCASInfo { metadata: CASChunkSequenceHeader::new(hash_of(tag ^ 0x77, xorb_idx), n_chunks as u32, pos), chunks }
}
/// every xorb must be found: runs of 5 chunks from the given starts come back as (5, that xorb, that range)
async fn missing_xorbs(mgr: &ShardFileManager, xorbs: &[MDBCASInfo], starts: &[usize]) -> Vec<String> {
    let mut bad = Vec::new();
    for (xi, x) in xorbs.iter().enumerate() {
        for &start in starts {
            if start + 5 > x.chunks.len() {
                continue;
            }
            let q: Vec<_> = x.chunks[start..start + 5].iter().map(|c| c.chunk_hash).collect();
            match mgr.chunk_hash_dedup_query(&q).await {
                Ok(Some((5, e))) if e.cas_hash == x.metadata.cas_hash && (e.chunk_index_start, e.chunk_index_end) == (start as u32, start as u32 + 5) => {},
                Ok(None) => {
                    bad.push(format!("xorb #{xi} (chunks {start}..{}): not found", start + 5));
                    break;
                },
                Ok(Some((n, e))) => {
                    bad.push(format!("xorb #{xi} (chunks {start}..{}): answered ({n}, xorb {}, [{},{}))", start + 5, e.cas_hash.hex(), e.chunk_index_start, e.chunk_index_end));
                    break;
                },
                Err(e) => {
                    bad.push(format!("xorb #{xi}: query failed: {e:?}"));
                    break;
                },
            }
        }
    }
    bad
}
fn scenario_m(tp: &Arc<ThreadPool>) {
    let cache = tempfile::tempdir().unwrap();
    let other = tempfile::tempdir().unwrap();
    let (cache_p, other_p) = (cache.path().to_path_buf(), other.path().to_path_buf());
    let r = tp
        .external_run_async_task(async move {
            let x0 = vec![make_xorb(31, 0, 20)];
            let x1 = vec![make_xorb(32, 0, 20), make_xorb(32, 1, 7)];
            // session 1 of P1 opens the cache and records X0 there through its own session
            let mgr1 = ShardFileManager::new_in_cache_directory(&cache_p).await.unwrap();
            let export = |dir: PathBuf, xs: Vec<MDBCASInfo>, cache: PathBuf| async move {
                let s = ShardFileManager::new_in_session_directory(&dir).await.unwrap();
                for x in xs {
                    s.add_cas_block(x).await.unwrap();
                }
                let p = s.flush().await.unwrap().expect("a session shard is written");
                MDBShardFile::load_from_file(&p).unwrap().export_with_expiration(&cache, Duration::from_secs(3600)).unwrap()
            };
            let own = export(other_p.join("p1"), x0.clone(), cache_p.clone()).await;
            mgr1.register_shards(&[own]).await.unwrap();
            let before = missing_xorbs(&mgr1, &x0, &[0, 9]).await;
            // someone else exports a shard into the shared cache directory
            export(other_p.join("p2"), x1.clone(), cache_p.clone()).await;
            // the next session of P1 asks for the manager of the cache directory again
            let mgr2 = ShardFileManager::new_in_cache_directory(&cache_p).await.unwrap();
            let mut after = missing_xorbs(&mgr2, &x1, &[0, 2]).await;
            after.extend(missing_xorbs(&mgr2, &x0, &[0, 9]).await);
            (before, after)
        })
        .unwrap();
    if !r.0.is_empty() {
        infra(format!("M: baseline broken: {:?}", r.0));
    }
    if !r.1.is_empty() {
        witness(format!(
            "M: ShardFileManager::new_in_cache_directory(cache) (session 1 of a long-lived process); then a shard recording xorbs X1 (20 and 7 chunks) is exported into the same cache directory by another manager (new_in_session_directory elsewhere, add_cas_block, flush, export_with_expiration(cache, 1 h)); then new_in_cache_directory(cache) again, as the next session does: {}",
            r.1.join("; ")
        ));
    }
}
fn scenario_b(tp: &Arc<ThreadPool>) {
    const N_XORBS: u64 = 80;
    const CHUNKS: u64 = 1000;
    let session = tempfile::tempdir().unwrap();
    let cache = tempfile::tempdir().unwrap();
    let (session_p, cache_p) = (session.path().to_path_buf(), cache.path().to_path_buf());
    let r = tp
        .external_run_async_task(async move {
            let xorbs: Vec<MDBCASInfo> = (0..N_XORBS).map(|i| make_xorb(41, i, CHUNKS)).collect();
            let smgr = ShardFileManager::new_in_session_directory(&session_p).await.unwrap();
            for x in &xorbs {
                smgr.add_cas_block(x.clone()).await.unwrap();
            }
            let in_memory = missing_xorbs(&smgr, &xorbs, &[0]).await;
            let p = smgr.flush().await.unwrap().expect("a session shard is written");
            let sf = MDBShardFile::load_from_file(&p).unwrap();
            let entries = sf.shard.total_num_chunks() as u64 + sf.shard.num_cas_entries() as u64;
            let same_session = missing_xorbs(&smgr, &xorbs, &[0, 417, 995]).await;
            sf.export_with_expiration(&cache_p, Duration::from_secs(3600)).unwrap();
            let cmgr = ShardFileManager::new_in_cache_directory(&cache_p).await.unwrap();
            let later = missing_xorbs(&cmgr, &xorbs, &[0, 417, 995]).await;
            (entries, in_memory, same_session, later)
        })
        .unwrap();
    let (entries, in_memory, same_session, later) = r;
    if entries <= 65_536 || !in_memory.is_empty() {
        infra(format!("B: setup: {entries} CAS-section entries; in-memory misses {in_memory:?}"));
    }
    let head = format!(
        "B: a session manager (new_in_session_directory) records {N_XORBS} xorbs x {CHUNKS} chunks (add_cas_block) and flushes them into ONE session shard with {entries} CAS-section entries (> 65,536)"
    );
    if !same_session.is_empty() {
        witness(format!("{head}; the same manager afterwards does not find {} of the {N_XORBS} recorded xorbs: {}", same_session.len(), same_session.iter().take(6).cloned().collect::<Vec<_>>().join("; ")));
    }
    if !later.is_empty() {
        witness(format!(
            "{head}; the shard is exported to the cache directory (export_with_expiration, 1 h) and a later manager (new_in_cache_directory) does not find {} of the {N_XORBS} recorded xorbs: {}",
            later.len(),
            later.iter().take(6).cloned().collect::<Vec<_>>().join("; ")
        ));
    }
}

// ---------------------------------------------------------------- G: child process with tiny chunks
const BIG_FILE: usize = 22 * 1024 * 1024;
fn child_big(tp: &Arc<ThreadPool>) {
    if *deduplication::constants::TARGET_CHUNK_SIZE != 256 || *deduplication::constants::MINIMUM_CHUNK_DIVISOR != 2 {
        infra("G child: the chunk-size overrides were not picked up (not a debug build?)".into());
    }
    let dir = tempfile::tempdir().unwrap();
    let path = dir.path().to_path_buf();
    let tp2 = tp.clone();
    let (m1, m2) = tp
        .external_run_async_task(async move {
            let files = vec![data_of(11, BIG_FILE)];
            let m1 = upload_metrics(TranslatorConfig::local_config(&path).unwrap(), tp2.clone(), &files).await;
            let m2 = upload_metrics(TranslatorConfig::local_config(&path).unwrap(), tp2.clone(), &files).await;
            (m1, m2)
        })
        .unwrap();
    if m1.total_bytes != BIG_FILE || m1.new_bytes != BIG_FILE || m1.total_chunks <= 70_000 {
        infra(format!("G child: unexpected first session: {m1:?}"));
    }
    if m2.total_bytes != BIG_FILE || m2.new_bytes != 0 || m2.new_chunks != 0 || m2.deduped_bytes != BIG_FILE {
        witness(format!(
            "G: (chunk size lowered to 128..512 bytes) a {BIG_FILE}-byte file of {} chunks is uploaded as new data in one FileUploadSession and finalized (its session shard has more than 65,536 CAS-section entries); a second session over the same local directories re-uploads the unchanged file and stores {} new bytes in {} new chunks (deduped {} of {} chunks), expected 0",
            m1.total_chunks, m2.new_bytes, m2.new_chunks, m2.deduped_chunks, m2.total_chunks
        ));
    }
    println!("no violation found");
}
fn scenario_g() {
    let exe = std::env::current_exe().unwrap_or_else(|e| infra(format!("current_exe: {e}")));
    let out = std::process::Command::new(exe)
        .env("C11_CHILD", "big")
        .env("HF_XET_TARGET_CHUNK_SIZE", "256")
        .env("HF_XET_MINIMUM_CHUNK_DIVISOR", "2")
        .env_remove("HF_XET_MAX_XORB_BYTES")
        .output()
        .unwrap_or_else(|e| infra(format!("spawning the child failed: {e}")));
    let stdout = String::from_utf8_lossy(&out.stdout);
    match out.status.code() {
        Some(0) => {},
        Some(1) => {
            let line = stdout.lines().find(|l| l.starts_with("WITNESS ")).unwrap_or("WITNESS G: the child reported a violation");
            println!("{line}");
            std::process::exit(1);
        },
        other => {
            let err = String::from_utf8_lossy(&out.stderr);
            let tail: String = err.lines().rev().take(8).collect::<Vec<_>>().into_iter().rev().collect::<Vec<_>>().join(" | ");
            // a panic of the session code on this valid input is a finding as well
            if err.contains("panicked at") {
                witness(format!("G: the child process running two upload sessions of a 22 MB file with 256-byte chunks died (status {other:?}): {tail}"));
            }
            infra(format!("G child ended with status {other:?}: {} {tail}", stdout.trim()));
        },
    }
}

// ---------------------------------------------------------------- X, S: small limits, several shard files per session
const SMALL_ENV: [(&str, &str); 3] = [("HF_XET_TARGET_CHUNK_SIZE", "4096"), ("HF_XET_MAX_XORB_BYTES", "100000"), ("HF_XET_MDB_SHARD_MIN_TARGET_SIZE", "4096")];
const SMALL_FILE: usize = 1_500_000;

/// child modes "xorbonly" (two sessions in this process), "store" (session 1 only), "reupload" (session 2 only); directory in C11_DIR
fn child_small(tp: &Arc<ThreadPool>, mode: &str) {
    if *deduplication::constants::TARGET_CHUNK_SIZE != 4096 || *deduplication::constants::MAX_XORB_BYTES != 100_000 || *mdb_shard::constants::MDB_SHARD_MIN_TARGET_SIZE != 4096 {
        infra("X/S child: the limit overrides were not picked up (not a debug build?)".into());
    }
    let path = PathBuf::from(std::env::var("C11_DIR").unwrap_or_else(|_| infra("C11_DIR not set".into())));
    let tp2 = tp.clone();
    let mode2 = mode.to_string();
    let (m1, m2) = tp
        .external_run_async_task(async move {
            let files = vec![data_of(21, SMALL_FILE)];
            let m1 = if mode2 != "reupload" { Some(upload_metrics(TranslatorConfig::local_config(&path).unwrap(), tp2.clone(), &files).await) } else { None };
            let m2 = if mode2 != "store" { Some(upload_metrics(TranslatorConfig::local_config(&path).unwrap(), tp2.clone(), &files).await) } else { None };
            (m1, m2)
        })
        .unwrap_or_else(|e| witness(format!("{mode}: the upload session panicked / was aborted: {e}")));
    if let Some(m1) = m1 {
        if m1.total_bytes != SMALL_FILE || m1.new_bytes != SMALL_FILE {
            infra(format!("X/S child: unexpected first session: {m1:?}"));
        }
    }
    if let Some(m2) = m2 {
        if m2.total_bytes != SMALL_FILE || m2.new_bytes != 0 || m2.new_chunks != 0 {
            // the parent completes the description
            println!("REUPLOAD new_bytes={} new_chunks={} deduped_chunks={} total_chunks={}", m2.new_bytes, m2.new_chunks, m2.deduped_chunks, m2.total_chunks);
            std::process::exit(1);
        }
    }
    println!("no violation found");
}

fn run_small_child(mode: &str, dir: &Path) -> Option<String> {
    let exe = std::env::current_exe().unwrap_or_else(|e| infra(format!("current_exe: {e}")));
    let mut cmd = std::process::Command::new(exe);
    cmd.env("C11_CHILD", mode).env("C11_DIR", dir);
    for (k, v) in SMALL_ENV {
        cmd.env(k, v);
    }
    let out = cmd.output().unwrap_or_else(|e| infra(format!("spawning the child failed: {e}")));
    let stdout = String::from_utf8_lossy(&out.stdout);
    match out.status.code() {
        Some(0) => None,
        Some(1) => Some(stdout.lines().find(|l| l.starts_with("REUPLOAD ") || l.starts_with("WITNESS ")).unwrap_or("REUPLOAD ?").to_string()),
        other => {
            let err = String::from_utf8_lossy(&out.stderr);
            let tail: String = err.lines().rev().take(8).collect::<Vec<_>>().into_iter().rev().collect::<Vec<_>>().join(" | ");
            if err.contains("panicked at") {
                witness(format!("{mode}: the child process running an upload session (4 KiB chunks, 100,000-byte xorbs, 4 KiB minimum shard size) died (status {other:?}): {tail}"));
            }
            infra(format!("{mode} child ended with status {other:?}: {} {tail}", stdout.trim()))
        },
    }
}

fn shard_cache_listing(dir: &Path) -> (Vec<String>, usize) {
    let cache = dir.join("xet").join("shard-cache");
    let names: Vec<String> = std::fs::read_dir(&cache).map(|rd| rd.flatten().map(|e| e.file_name().to_string_lossy().to_string()).collect()).unwrap_or_default();
    let n_shards = names.iter().filter(|n| n.ends_with(".mdb") && n.len() == 68).count();
    (names, n_shards)
}

fn scenario_x() {
    let dir = tempfile::tempdir().unwrap();
    if let Some(r) = run_small_child("xorbonly", dir.path()) {
        let (_, n) = shard_cache_listing(dir.path());
        witness(format!(
            "X: (4 KiB chunks, 100,000-byte xorbs, minimum shard size 4096 bytes: the session shard is flushed several times while the file is being cleaned, giving shard files with xorb records but no file record) session 1 uploads a {SMALL_FILE}-byte file as new data and finalizes ({n} shard files reached the local shard cache); session 2 over the same directories re-uploads the unchanged file and stores new data again: {r} (expected 0 new bytes)"
        ));
    }
}

fn scenario_s() {
    let dir = tempfile::tempdir().unwrap();
    if let Some(r) = run_small_child("store", dir.path()) {
        infra(format!("S: the first child reported {r}"));
    }
    let (_, n_shards) = shard_cache_listing(dir.path());
    if n_shards == 0 {
        infra("S: the first session left no shard in the shard cache".into());
    }
    let cache = dir.path().join("xet").join("shard-cache");
    let mut strays: Vec<String> = vec![".DS_Store".into(), ".3f2b8a1c-7d4e-4b61-9a55-0c1d2e3f4a5b.mdb_temp".into(), "notes.txt".into(), "Thumbs.db".into(), "shard.mdb".into(), "README".into()];
    for i in 0..32u64 {
        let h = hash_of(77, i).hex();
        strays.push(match i % 4 { 0 => format!("{h}.mdb~"), 1 => format!(".{h}.mdb.swp"), 2 => format!("{}.mdb", &h[..40]), _ => format!("{h}.bak") });
    }
    for name in &strays {
        std::fs::write(cache.join(name), b"not a shard").unwrap_or_else(|e| infra(format!("S: writing {name}: {e}")));
    }
    std::fs::create_dir_all(cache.join("lost+found").join("inner")).unwrap();
    std::fs::create_dir_all(cache.join("0000000000000000000000000000000000000000000000000000000000000000.mdb.d")).unwrap();
    let (listing, _) = shard_cache_listing(dir.path());
    let first_shard = listing.iter().position(|n| n.ends_with(".mdb") && n.len() == 68).unwrap_or(0);
    if let Some(r) = run_small_child("reupload", dir.path()) {
        witness(format!(
            "S: a process uploads a {SMALL_FILE}-byte file (4 KiB chunks, 100,000-byte xorbs, minimum shard size 4096 bytes) and finalizes: {n_shards} shard files in the local shard cache; then {} foreign entries ({:?} ... and two directories) are dropped into that directory (read_dir lists {} entries, the first shard file at position {first_shard}); a NEW process re-uploads the unchanged file over the same directories and stores new data again: {r} (expected 0 new bytes)",
            strays.len() + 2, &strays[..4], listing.len()
        ));
    }
}

fn main() {
    let tp = Arc::new(ThreadPool::new().expect("runtime"));
    if std::env::var("C11_CHILD").as_deref() == Ok("big") {
        child_big(&tp);
        return;
    }
    if let Ok(mode) = std::env::var("C11_CHILD") {
        child_small(&tp, &mode);
        return;
    }
    // a small xorb limit (configurable constant, read from the environment at first use) so that a 3 MB file is cut into several
    // mid-file xorbs without needing hundreds of megabytes
    unsafe { std::env::set_var("HF_XET_MAX_XORB_BYTES", "1000000"); }
    let only = std::env::var("VERIF_C11_ONLY").unwrap_or_default();
    let on = |name: &str| only.is_empty() || only.split(',').any(|s| s.trim() == name);
    let t = std::time::Instant::now();
    // G runs in a child process; start it first so that it overlaps with the rest
    let g = if on("G") { Some(std::thread::spawn(scenario_g)) } else { None };
    let xs = if on("X") || on("S") {
        let (x, s_) = (on("X"), on("S"));
        Some(std::thread::spawn(move || { if x { scenario_x(); } if s_ { scenario_s(); } }))
    } else { None };
    if on("R") {
        scenario_r(&tp);
        eprintln!("R done at {:?}", t.elapsed());
    }
    if on("P") {
        scenario_p(&tp);
        eprintln!("P done at {:?}", t.elapsed());
    }
    if on("M") {
        scenario_m(&tp);
        eprintln!("M done at {:?}", t.elapsed());
    }
    if on("B") {
        scenario_b(&tp);
        eprintln!("B done at {:?}", t.elapsed());
    }
    if let Some(h) = xs {
        if h.join().is_err() {
            infra("the thread running X / S panicked".into());
        }
        eprintln!("X, S done at {:?}", t.elapsed());
    }
    if let Some(g) = g {
        if g.join().is_err() {
            infra("the thread waiting for the G child panicked".into());
        }
        eprintln!("G done at {:?}", t.elapsed());
    }
    println!("no violation found");
}
