//! Witness search for C08 (streaming validator, FOOTER-LESS xorbs): when `validate_cas_object_from_async_read` accepts a stream
//! without a footer it GENERATES the footer it returns; that footer must match the chunk data (C08: "any footer it relied on
//! matches the chunk data") or the stream must be rejected.
//!   (A) small hand-built streams (stored chunks with hand-made headers; independent hashes, boundaries, root): footer-less, with
//!       an own-layout V1 footer, with a V0 footer (the validator then builds a new footer and answers go_back_bytes = 8), with
//!       trailing garbage of 1..9 bytes, unknown footer versions, truncated footers, bytes after the footer, footers that contradict
//!       the chunk data, wrong hashes - each through readers that deliver everything at once / 1 byte per read / random pieces /
//!       with Pending in between, and readers that fail mid-stream.
//!   (B) objects of 32766..40000 maximum-size chunks whose unpacked total (and, separately, whose stored total) is just below / at /
//!       above the u32 range of the footer fields, footer-less and footered, through the streaming and the seekable validator.  The
//!       objects are synthesized by a virtual reader (a few LZ4 chunks + raw chunks of zeros), so nothing of that size is held in
//!       memory and almost no LZ4 decoding is needed (C08_ALL_LZ4=1 adds the all-LZ4 streams of the earlier version;
//!       C08_PROBE_FILE_OVER_4G=1 gives the seekable validator files longer than 2^32 bytes).
//! Prints `WITNESS ...` and exits 1 on the first violation.
use std::panic::{catch_unwind, AssertUnwindSafe};
use std::pin::Pin;
use std::task::{Context, Poll};

use cas_object::{serialize_chunk, validate_cas_object_from_async_read, CasObject, CompressionScheme};
use futures::executor::block_on;
use merklehash::{compute_data_hash, MerkleHash};

fn witness(msg: String) -> ! {
    println!("WITNESS {msg}");
    std::process::exit(1);
}

// ---------------------------------------------------------------------------------------------------------------------------------
// independent reference: published keys, level-wise aggregate construction, footer layouts
// ---------------------------------------------------------------------------------------------------------------------------------

const DATA_KEY: [u8; 32] = [102, 151, 245, 119, 91, 149, 80, 222, 49, 53, 203, 172, 165, 151, 24, 28, 157, 228, 33, 16, 155, 235, 43, 88, 180, 208, 176, 75, 147, 173, 242, 41];
const INTERNAL_KEY: [u8; 32] = [1, 126, 197, 199, 165, 71, 41, 150, 253, 148, 102, 102, 180, 138, 2, 230, 93, 221, 83, 111, 55, 199, 109, 210, 248, 99, 82, 230, 74, 83, 113, 63];

fn leaf_hash(b: &[u8]) -> MerkleHash {
    MerkleHash::from(*blake3::keyed_hash(&DATA_KEY, b).as_bytes())
}
fn words(h: &MerkleHash) -> [u64; 4] {
    [h[0], h[1], h[2], h[3]]
}
fn hash_bytes(h: &MerkleHash) -> [u8; 32] {
    let mut o = [0u8; 32];
    for (w, v) in words(h).iter().enumerate() {
        o[8 * w..8 * w + 8].copy_from_slice(&v.to_le_bytes());
    }
    o
}
/// level by level; cut after child i when it is the last, or the group has >= 2 earlier children and word 3 of child i is 0 mod 4,
/// or the group has 8 earlier children; group hash = keyed hash of the lines "<64 hex digits> : <decimal length>\n"
fn reference_root(list: &[(MerkleHash, usize)]) -> MerkleHash {
    if list.is_empty() {
        return MerkleHash::default();
    }
    let mut level = list.to_vec();
    while level.len() > 1 {
        let mut next = vec![];
        let mut start = 0;
        for i in 0..level.len() {
            let earlier = i - start;
            if (earlier >= 2 && level[i].0[3] % 4 == 0) || earlier >= 8 || i + 1 == level.len() {
                let mut text = String::new();
                let mut total = 0;
                for (h, n) in &level[start..=i] {
                    text.push_str(&format!("{:016x}{:016x}{:016x}{:016x} : {}\n", h[0], h[1], h[2], h[3], n));
                    total += n;
                }
                next.push((MerkleHash::from(*blake3::keyed_hash(&INTERNAL_KEY, text.as_bytes()).as_bytes()), total));
                start = i + 1;
            }
        }
        level = next;
    }
    level[0].0
}

struct Truth {
    stream: Vec<u8>,
    hashes: Vec<MerkleHash>,
    bounds: Vec<u32>,
    unpacked: Vec<u32>,
    root: MerkleHash,
}

/// stored (scheme 0) chunks with hand-made 8-byte headers
fn build(chunks: &[Vec<u8>]) -> Truth {
    let mut t = Truth { stream: vec![], hashes: vec![], bounds: vec![], unpacked: vec![], root: MerkleHash::default() };
    let mut u = 0u32;
    for c in chunks {
        let n = c.len();
        t.stream.extend_from_slice(&[0, n as u8, (n >> 8) as u8, (n >> 16) as u8, 0, n as u8, (n >> 8) as u8, (n >> 16) as u8]);
        t.stream.extend_from_slice(c);
        t.hashes.push(leaf_hash(c));
        t.bounds.push(t.stream.len() as u32);
        u += n as u32;
        t.unpacked.push(u);
    }
    t.root = reference_root(&t.hashes.iter().zip(chunks).map(|(h, c)| (*h, c.len())).collect::<Vec<_>>());
    t
}

fn v1_footer(cashash: &MerkleHash, hashes: &[MerkleHash], bounds: &[u32], unpacked: &[u32], n: u32) -> Vec<u8> {
    let boff = (7 + 1 + 4 + 4 * bounds.len() + 4 * unpacked.len() + 4 + 4 + 4 + 16) as u32;
    let hoff = (7 + 1 + 4 + 32 * hashes.len()) as u32 + boff;
    let mut v = vec![];
    v.extend_from_slice(b"XETBLOB"); v.push(1); v.extend_from_slice(&hash_bytes(cashash));
    v.extend_from_slice(b"XBLBHSH"); v.push(0); v.extend_from_slice(&n.to_le_bytes());
    for h in hashes { v.extend_from_slice(&hash_bytes(h)); }
    v.extend_from_slice(b"XBLBBND"); v.push(1); v.extend_from_slice(&n.to_le_bytes());
    for b in bounds { v.extend_from_slice(&b.to_le_bytes()); }
    for b in unpacked { v.extend_from_slice(&b.to_le_bytes()); }
    v.extend_from_slice(&n.to_le_bytes()); v.extend_from_slice(&hoff.to_le_bytes()); v.extend_from_slice(&boff.to_le_bytes());
    v.extend_from_slice(&[0u8; 16]);
    v
}
fn v0_footer(cashash: &MerkleHash, hashes: &[MerkleHash], bounds: &[u32]) -> Vec<u8> {
    let mut v = vec![];
    v.extend_from_slice(b"XETBLOB"); v.push(0); v.extend_from_slice(&hash_bytes(cashash));
    v.extend_from_slice(&(bounds.len() as u32).to_le_bytes());
    for b in bounds { v.extend_from_slice(&b.to_le_bytes()); }
    for h in hashes { v.extend_from_slice(&hash_bytes(h)); }
    v.extend_from_slice(&[0u8; 16]);
    v
}
fn with_len(mut stream: Vec<u8>, footer: &[u8]) -> Vec<u8> {
    stream.extend_from_slice(footer);
    stream.extend_from_slice(&(footer.len() as u32).to_le_bytes());
    stream
}

// ---------------------------------------------------------------------------------------------------------------------------------
// readers
// ---------------------------------------------------------------------------------------------------------------------------------

struct Dribble<'a> {
    data: &'a [u8],
    pos: usize,
    sizes: Vec<usize>,
    k: usize,
    pending_every: usize,
    polls: usize,
    fail_at: Option<usize>,
}
impl futures::io::AsyncRead for Dribble<'_> {
    fn poll_read(mut self: Pin<&mut Self>, cx: &mut Context<'_>, buf: &mut [u8]) -> Poll<std::io::Result<usize>> {
        self.polls += 1;
        if self.pending_every > 0 && self.polls % self.pending_every == 0 {
            cx.waker().wake_by_ref();
            return Poll::Pending;
        }
        let mut n = self.sizes[self.k % self.sizes.len()].min(buf.len()).min(self.data.len() - self.pos);
        self.k += 1;
        if let Some(f) = self.fail_at {
            if self.pos >= f {
                return Poll::Ready(Err(std::io::Error::new(std::io::ErrorKind::Other, "scripted read failure")));
            }
            n = n.min(f - self.pos);
        }
        let p = self.pos;
        buf[..n].copy_from_slice(&self.data[p..p + n]);
        self.pos += n;
        Poll::Ready(Ok(n))
    }
}

#[derive(Clone, Copy, PartialEq, Debug)]
enum Exp {
    /// accepted, returned footer == truth, with this go_back_bytes and this info_length
    Accept(Option<usize>, u32),
    Reject,
}

type Outcome = Result<Option<(CasObject, Option<usize>)>, String>;

fn validate_with(reader_kind: usize, bytes: &[u8], h: &MerkleHash, fail_at: Option<usize>) -> Result<Outcome, String> {
    let run = || -> Outcome {
        match reader_kind {
            0 if fail_at.is_none() => block_on(async { let mut r: &[u8] = bytes; validate_cas_object_from_async_read(&mut r, h).await }).map_err(|e| e.to_string()),
            _ => {
                let (sizes, pending_every) = match reader_kind {
                    0 => (vec![usize::MAX], 0),
                    1 => (vec![1], 0),
                    2 => (vec![3, 1, 13, 2, 8, 5, 7, 64, 1, 9], 0),
                    _ => (vec![5, 4096, 1, 8], 3),
                };
                let mut r = Dribble { data: bytes, pos: 0, sizes, k: 0, pending_every, polls: 0, fail_at };
                block_on(validate_cas_object_from_async_read(&mut r, h)).map_err(|e| e.to_string())
            },
        }
    };
    catch_unwind(AssertUnwindSafe(run)).map_err(|e| e.downcast_ref::<String>().cloned().or_else(|| e.downcast_ref::<&str>().map(|s| s.to_string())).unwrap_or_default())
}

const READERS: [&str; 4] = ["a reader delivering everything at once", "a reader delivering 1 byte per read", "a reader delivering pieces of 3/1/13/2/8/5/7/64/1/9 bytes", "a reader delivering pieces of 5/4096/1/8 bytes and answering Pending on every third poll"];

fn footer_matches(cas: &CasObject, t: &Truth, h: &MerkleHash) -> Result<(), String> {
    let i = &cas.info;
    let k = t.hashes.len();
    if i.cashash != *h { return Err(format!("cashash {} != requested {}", i.cashash.hex(), h.hex())); }
    if i.num_chunks as usize != k { return Err(format!("num_chunks {} but the stream holds {k} chunks", i.num_chunks)); }
    if i.chunk_hashes != t.hashes { return Err("chunk_hashes differ from the hashes of the chunk data".into()); }
    if i.chunk_boundary_offsets != t.bounds { return Err(format!("chunk_boundary_offsets {:?} but the stored chunks end at {:?}", i.chunk_boundary_offsets, t.bounds)); }
    if i.unpacked_chunk_offsets != t.unpacked { return Err(format!("unpacked_chunk_offsets {:?} but the chunk data ends at {:?}", i.unpacked_chunk_offsets, t.unpacked)); }
    let boff = (7 + 1 + 4 + 8 * k + 4 + 4 + 4 + 16) as u32;
    if &i.ident != b"XETBLOB" || i.version != 1 || &i.ident_hash_section != b"XBLBHSH" || i.hashes_version != 0 || &i.ident_boundary_section != b"XBLBBND" || i.boundaries_version != 1
        || i.boundary_section_offset_from_end != boff || i.hashes_section_offset_from_end != boff + (12 + 32 * k) as u32
    {
        return Err(format!("idents / versions / section offsets ({}, {}) are not those of a V1 footer for {k} chunks", i.hashes_section_offset_from_end, i.boundary_section_offset_from_end));
    }
    Ok(())
}

fn check(what: &str, bytes: &[u8], h: &MerkleHash, t: &Truth, exp: Exp) {
    for (rk, rname) in READERS.iter().enumerate() {
        let ctx = format!("{what} ({} bytes), validated for hash {} through {rname}", bytes.len(), h.hex());
        match validate_with(rk, bytes, h, None) {
            Err(p) => witness(format!("{ctx}: the streaming validator panicked: {p}")),
            Ok(Ok(Some((cas, gb)))) => match exp {
                Exp::Reject => witness(format!("{ctx}: the streaming validator ACCEPTS it (go_back_bytes {gb:?}, info_length {}, {} chunks)", cas.info_length, cas.info.num_chunks)),
                Exp::Accept(want_gb, want_il) => {
                    if let Err(why) = footer_matches(&cas, t, h) {
                        witness(format!("{ctx}: the streaming validator ACCEPTS it and returns a footer that does not match the chunk data: {why}"));
                    }
                    if gb != want_gb || cas.info_length != want_il {
                        witness(format!("{ctx}: accepted with go_back_bytes {gb:?} and info_length {}, documented are {want_gb:?} and {want_il}", cas.info_length));
                    }
                },
            },
            Ok(Ok(None)) | Ok(Err(_)) => {
                if let Exp::Accept(..) = exp {
                    witness(format!("{ctx}: the streaming validator REJECTS it"));
                }
            },
        }
    }
}

fn small_streams(seed: u64) {
    let mut x = seed.wrapping_mul(0x9E37_79B9_7F4A_7C15) ^ 0x1234_5678_9ABC_DEF1;
    let mut rnd = move || { x ^= x << 13; x ^= x >> 7; x ^= x << 17; x };
    let mut bytes_of = |n: usize| -> Vec<u8> { (0..n).map(|_| (rnd() >> 24) as u8).collect() };
    let lists: Vec<Vec<Vec<u8>>> = vec![
        vec![bytes_of(1)],
        vec![bytes_of(100), bytes_of(1), bytes_of(257)],
        (0..12).map(|i| bytes_of(1 + 7 * i)).collect(),
        // a chunk whose first stored bytes look like the footer ident (payload, not a header)
        vec![b"XETBLOB\x01 payload that starts like a footer".to_vec(), bytes_of(9)],
    ];
    for chunks in &lists {
        let t = build(chunks);
        let k = chunks.len();
        let d = |s: &str| format!("stream of {k} stored chunks of lengths {:?} {s}", chunks.iter().map(|c| c.len()).collect::<Vec<_>>());
        let api_root = merkledb::aggregate_hashes::cas_node_hash(&t.hashes.iter().zip(chunks).map(|(h, c)| (*h, c.len())).collect::<Vec<_>>());
        if api_root != t.root || chunks.iter().zip(&t.hashes).any(|(c, h)| compute_data_hash(c) != *h) {
            witness(format!("{}: cas_node_hash / compute_data_hash ({}) differ from the published construction ({})", d(""), api_root.hex(), t.root.hex()));
        }
        let f1 = v1_footer(&t.root, &t.hashes, &t.bounds, &t.unpacked, k as u32);
        let f0 = v0_footer(&t.root, &t.hashes, &t.bounds);
        let mut other = t.root;
        other[2] ^= 1 << 40;
        // 1. the three valid forms, own hash / another hash
        check(&d("without footer"), &t.stream, &t.root, &t, Exp::Accept(Some(0), 0));
        check(&d("with a V1 footer"), &with_len(t.stream.clone(), &f1), &t.root, &t, Exp::Accept(None, f1.len() as u32));
        // (V0: the validator stops at the 8 bytes ident + version, builds a new footer and asks the caller to go back 8 bytes)
        check(&d("with a V0 footer"), &with_len(t.stream.clone(), &f0), &t.root, &t, Exp::Accept(Some(8), 0));
        check(&d("without footer"), &t.stream, &other, &t, Exp::Reject);
        check(&d("with a V1 footer"), &with_len(t.stream.clone(), &f1), &other, &t, Exp::Reject);
        check(&d("with a V0 footer"), &with_len(t.stream.clone(), &f0), &other, &t, Exp::Reject);
        let f1_other = v1_footer(&other, &t.hashes, &t.bounds, &t.unpacked, k as u32);
        check(&d("with a V1 footer naming another hash"), &with_len(t.stream.clone(), &f1_other), &other, &t, Exp::Reject);
        check(&d("with a V1 footer naming another hash"), &with_len(t.stream.clone(), &f1_other), &t.root, &t, Exp::Reject);
        // 2. trailing garbage shorter than a header
        for g in 1..8usize {
            for fill in [0u8, 0xFF, b'X'] {
                let mut s = t.stream.clone();
                s.extend(std::iter::repeat(fill).take(g));
                check(&d(&format!("followed by {g} stray bytes {fill:#04x}")), &s, &t.root, &t, Exp::Reject);
            }
            let mut s = t.stream.clone();
            s.extend_from_slice(&b"XETBLOB"[..g.min(7)]);
            check(&d(&format!("followed by the first {g} bytes of the footer ident")), &s, &t.root, &t, Exp::Reject);
        }
        // 3. eight and more trailing bytes
        for (name, tail) in [
            ("8 bytes 0xFF", vec![0xFFu8; 8]),
            ("the ident with version byte 2", b"XETBLOB\x02".to_vec()),
            ("the ident with version byte 255", b"XETBLOB\xFF".to_vec()),
            ("the ident with version byte 1 and nothing else", b"XETBLOB\x01".to_vec()),
            ("a chunk header announcing 5 stored bytes that do not follow", vec![0, 5, 0, 0, 0, 5, 0, 0]),
            ("a chunk header with version 1", vec![1, 0, 0, 0, 0, 0, 0, 0]),
            ("a chunk header with scheme 3", vec![0, 0, 0, 0, 3, 0, 0, 0]),
            ("9 zero bytes", vec![0u8; 9]),
        ] {
            let mut s = t.stream.clone();
            s.extend_from_slice(&tail);
            check(&d(&format!("followed by {name}")), &s, &t.root, &t, Exp::Reject);
        }
        // eight zero bytes ARE a chunk (empty, stored): the stream then holds k+1 chunks and hashes differently
        {
            let mut s = t.stream.clone();
            s.extend_from_slice(&[0u8; 8]);
            check(&d("followed by 8 zero bytes (an empty stored chunk)"), &s, &t.root, &t, Exp::Reject);
        }
        // 4. V1 footer cut at every offset, and followed by further bytes
        let full = with_len(t.stream.clone(), &f1);
        for cut in t.stream.len() + 1..full.len() {
            if k > 3 && cut > t.stream.len() + 60 && cut + 30 < full.len() && cut % 7 != 0 {
                continue; // (long footers: the first 60, every 7th and the last 30 offsets)
            }
            check(&d(&format!("with a V1 footer, cut after {} of the {} footer + length bytes", cut - t.stream.len(), full.len() - t.stream.len())), &full[..cut], &t.root, &t, Exp::Reject);
        }
        for extra in [vec![0u8], vec![0u8; 4], (f1.len() as u32).to_le_bytes().to_vec(), vec![0u8; 8], vec![0x55; 9]] {
            let mut s = full.clone();
            s.extend_from_slice(&extra);
            check(&d(&format!("with a V1 footer and {} further bytes after the length field", extra.len())), &s, &t.root, &t, Exp::Reject);
        }
        for il in [0u32, f1.len() as u32 - 1, f1.len() as u32 + 1, f1.len() as u32 - 8, (f1.len() + t.stream.len()) as u32, u32::MAX] {
            let mut s = t.stream.clone();
            s.extend_from_slice(&f1);
            s.extend_from_slice(&il.to_le_bytes());
            check(&d(&format!("with a V1 footer of {} bytes followed by the length field {il}", f1.len())), &s, &t.root, &t, Exp::Reject);
        }
        // 5. V1 footers that contradict the chunk data
        {
            let mut hs = t.hashes.clone();
            hs[k / 2][0] ^= 1;
            check(&d(&format!("with a V1 footer whose chunk hash #{} has one bit changed", k / 2)), &with_len(t.stream.clone(), &v1_footer(&t.root, &hs, &t.bounds, &t.unpacked, k as u32)), &t.root, &t, Exp::Reject);
            for (name, delta) in [("one more", 1i64), ("one less", -1)] {
                let mut b = t.bounds.clone();
                b[k - 1] = (b[k - 1] as i64 + delta) as u32;
                check(&d(&format!("with a V1 footer whose last boundary offset is {name}")), &with_len(t.stream.clone(), &v1_footer(&t.root, &t.hashes, &b, &t.unpacked, k as u32)), &t.root, &t, Exp::Reject);
                let mut u = t.unpacked.clone();
                u[0] = (u[0] as i64 + delta) as u32;
                check(&d(&format!("with a V1 footer whose first unpacked offset is {name}")), &with_len(t.stream.clone(), &v1_footer(&t.root, &t.hashes, &t.bounds, &u, k as u32)), &t.root, &t, Exp::Reject);
                let mut u = t.unpacked.clone();
                u[k - 1] = (u[k - 1] as i64 + delta) as u32;
                check(&d(&format!("with a V1 footer whose last unpacked offset is {name}")), &with_len(t.stream.clone(), &v1_footer(&t.root, &t.hashes, &t.bounds, &u, k as u32)), &t.root, &t, Exp::Reject);
            }
            // a footer for one chunk more / one chunk less than the stream holds (tables consistent with its own count)
            let mut hs = t.hashes.clone(); hs.push(leaf_hash(b"")); let mut b = t.bounds.clone(); b.push(b[k - 1] + 8); let mut u = t.unpacked.clone(); u.push(u[k - 1]);
            check(&d("with a V1 footer listing one (empty) chunk more"), &with_len(t.stream.clone(), &v1_footer(&t.root, &hs, &b, &u, k as u32 + 1)), &t.root, &t, Exp::Reject);
            if k > 1 {
                check(&d("with a V1 footer listing one chunk less"), &with_len(t.stream.clone(), &v1_footer(&t.root, &t.hashes[..k - 1], &t.bounds[..k - 1], &t.unpacked[..k - 1], k as u32 - 1)), &t.root, &t, Exp::Reject);
                // and the chunk data of one chunk less under the full footer
                let shorter = t.stream[..t.bounds[k - 2] as usize].to_vec();
                check(&d("minus its last chunk, with the V1 footer of the full list"), &with_len(shorter.clone(), &f1), &t.root, &t, Exp::Reject);
                check(&d("minus its last chunk, without footer"), &shorter, &t.root, &t, Exp::Reject);
            }
        }
        // 6. chunk data damaged (stored chunks: every payload bit matters), all three forms
        {
            let mut s = t.stream.clone();
            let p = 8 + chunks[0].len() / 2;
            s[p] ^= 0x10;
            check(&d(&format!("with payload byte {p} changed, without footer")), &s, &t.root, &t, Exp::Reject);
            check(&d(&format!("with payload byte {p} changed, with the V1 footer")), &with_len(s.clone(), &f1), &t.root, &t, Exp::Reject);
            check(&d(&format!("with payload byte {p} changed, with the V0 footer")), &with_len(s.clone(), &f0), &t.root, &t, Exp::Reject);
        }
        // 7. readers failing mid-stream: never an acceptance, never a panic
        let full0 = with_len(t.stream.clone(), &f0);
        for (form, bytes) in [("without footer", &t.stream), ("with a V1 footer", &full), ("with a V0 footer", &full0)] {
            let mut points = vec![0usize, 1, 7, 8, 9, t.bounds[0] as usize - 1, t.bounds[0] as usize, t.stream.len() - 1, t.stream.len()];
            points.extend([t.stream.len() + 1, t.stream.len() + 7, t.stream.len() + 8, t.stream.len() + 9, bytes.len().saturating_sub(5), bytes.len().saturating_sub(4), bytes.len().saturating_sub(1)]);
            points.sort(); points.dedup();
            for at in points.into_iter().filter(|p| *p < bytes.len()) {
                for rk in [0usize, 1, 3] {
                    let ctx = format!("{}, through {} that fails with an I/O error after delivering {at} of {} bytes", d(form), READERS[rk], bytes.len());
                    match validate_with(rk, bytes, &t.root, Some(at)) {
                        Err(p) => witness(format!("{ctx}: the streaming validator panicked: {p}")),
                        // (a V0 stream is accepted once the 8 bytes ident + version have been seen: nothing after them is read)
                        Ok(Ok(Some((_, gb)))) if !(form == "with a V0 footer" && at >= t.stream.len() + 8 && gb == Some(8)) => witness(format!("{ctx}: the streaming validator ACCEPTS the stream (go_back_bytes {gb:?})")),
                        _ => {},
                    }
                }
            }
        }
    }
    // the empty stream: no chunk, no footer.  Observed on HEAD and not judged beyond "no panic, footer sound": see the final line.
    for h in [MerkleHash::default(), leaf_hash(b"x")] {
        match validate_with(0, &[], &h, None) {
            Err(p) => witness(format!("the streaming validator panicked on the empty stream (hash {}): {p}", h.hex())),
            Ok(Ok(Some((cas, gb)))) => {
                if h != MerkleHash::default() || cas.info.num_chunks != 0 || !cas.info.chunk_hashes.is_empty() || !cas.info.chunk_boundary_offsets.is_empty() || !cas.info.unpacked_chunk_offsets.is_empty() {
                    witness(format!("the streaming validator ACCEPTS the empty stream for hash {} with a footer of {} chunks (go_back_bytes {gb:?})", h.hex(), cas.info.num_chunks));
                }
                println!("note: the empty stream is accepted for the all-zero hash (footer with 0 chunks, go_back_bytes {gb:?})");
            },
            _ => {},
        }
    }
}

// ---------------------------------------------------------------------------------------------------------------------------------
// (B) unpacked / stored totals around 2^32.  The objects are VIRTUAL: a reader synthesizes `n_lz` LZ4 chunks of 128 KiB zeros (548
// stored bytes each) followed by `n_raw` chunks of 128 KiB zeros stored raw (8-byte header + 131072 bytes), then an optional footer.
// Raw chunks cost the validators a copy and a hash (no LZ4 decoding); just enough LZ4 chunks are used to keep the STORED total
// inside u32 when the case is about the UNPACKED total, and none when the case is about the stored total.
// ---------------------------------------------------------------------------------------------------------------------------------

const CHUNK: usize = 128 * 1024;
const RAW_STORED: usize = CHUNK + 8;
const RAW_HEADER: [u8; 8] = [0, 0, 0, 2, 0, 0, 0, 2];
static ZEROS: [u8; CHUNK] = [0u8; CHUNK];

#[derive(Clone)]
struct Virt {
    lz: std::sync::Arc<Vec<u8>>,
    n_lz: usize,
    n_raw: usize,
    tail: std::sync::Arc<Vec<u8>>,
    pos: u64,
}
impl Virt {
    fn total(&self) -> u64 {
        (self.n_lz * self.lz.len() + self.n_raw * RAW_STORED + self.tail.len()) as u64
    }
    fn fill(&self, mut pos: u64, buf: &mut [u8]) -> usize {
        let (a, b, end) = ((self.n_lz * self.lz.len()) as u64, (self.n_lz * self.lz.len() + self.n_raw * RAW_STORED) as u64, self.total());
        let mut done = 0;
        while done < buf.len() && pos < end {
            let room = buf.len() - done;
            let take;
            if pos < a {
                let off = (pos % self.lz.len() as u64) as usize;
                take = room.min(self.lz.len() - off);
                buf[done..done + take].copy_from_slice(&self.lz[off..off + take]);
            } else if pos < b {
                let r = ((pos - a) % RAW_STORED as u64) as usize;
                if r < 8 {
                    take = room.min(8 - r);
                    buf[done..done + take].copy_from_slice(&RAW_HEADER[r..r + take]);
                } else {
                    take = room.min(RAW_STORED - r);
                    buf[done..done + take].copy_from_slice(&ZEROS[..take]); // (memcpy; a `fill` loop is slow in an unoptimized build)
                }
            } else {
                let off = (pos - b) as usize;
                take = room.min(self.tail.len() - off);
                buf[done..done + take].copy_from_slice(&self.tail[off..off + take]);
            }
            done += take;
            pos += take as u64;
        }
        done
    }
}
impl std::io::Read for Virt {
    fn read(&mut self, buf: &mut [u8]) -> std::io::Result<usize> {
        let n = self.fill(self.pos, buf);
        self.pos += n as u64;
        Ok(n)
    }
}
impl std::io::Seek for Virt {
    fn seek(&mut self, to: std::io::SeekFrom) -> std::io::Result<u64> {
        let p = match to {
            std::io::SeekFrom::Start(p) => p as i128,
            std::io::SeekFrom::End(d) => self.total() as i128 + d as i128,
            std::io::SeekFrom::Current(d) => self.pos as i128 + d as i128,
        };
        if p < 0 {
            return Err(std::io::Error::new(std::io::ErrorKind::InvalidInput, "invalid seek to a negative position"));
        }
        self.pos = p as u64;
        Ok(self.pos)
    }
}
impl futures::io::AsyncRead for Virt {
    fn poll_read(mut self: Pin<&mut Self>, _cx: &mut Context<'_>, buf: &mut [u8]) -> Poll<std::io::Result<usize>> {
        let n = self.fill(self.pos, buf);
        self.pos += n as u64;
        Poll::Ready(Ok(n))
    }
}

/// the smallest number of LZ4 chunks that keeps the stored total of `n` chunks at least `margin` bytes below u32::MAX (4 MB: the
/// whole FILE, footer included, then stays below 2^32; see the opt-in probe C08_PROBE_FILE_OVER_4G for the other situation)
fn lz_needed(n: usize, lz_len: usize, margin: i64) -> usize {
    let all_raw = (n * RAW_STORED) as i64;
    let room = u32::MAX as i64 - margin;
    if all_raw <= room { 8.min(n) } else { (((all_raw - room) + (RAW_STORED - lz_len) as i64 - 1) / (RAW_STORED - lz_len) as i64) as usize }
}

#[derive(Clone, Copy, PartialEq)]
enum Which { Stream, Seek }

/// One virtual object of `n` chunks of 128 KiB zeros, the first `n_lz` of them LZ4, with or without an own-layout V1 footer
/// (offsets that do not fit into u32 are written wrapped), through one validator.  It must be accepted - with the footer matching
/// the chunk data - exactly when both the unpacked and the stored total fit into the u32 fields of the footer.
fn big_case(n: usize, n_lz: usize, footered: bool, which: Which) -> Result<String, String> {
    let chunk = vec![0u8; CHUNK];
    let chunk_hash = compute_data_hash(&chunk);
    let mut one = Vec::new();
    serialize_chunk(&chunk, &mut one, Some(CompressionScheme::LZ4)).unwrap();
    let n_raw = n - n_lz;
    let list: Vec<(MerkleHash, usize)> = (0..n).map(|_| (chunk_hash, CHUNK)).collect();
    let hash = merkledb::aggregate_hashes::cas_node_hash(&list);
    let hashes = vec![chunk_hash; n];
    let bounds64: Vec<u64> = (1..=n).map(|k| if k <= n_lz { (k * one.len()) as u64 } else { (n_lz * one.len() + (k - n_lz) * RAW_STORED) as u64 }).collect();
    let bounds: Vec<u32> = bounds64.iter().map(|b| *b as u32).collect();
    let unpacked: Vec<u32> = (1..=n as u64).map(|k| (k * CHUNK as u64) as u32).collect();
    let (total_unpacked, total_stored) = ((n * CHUNK) as u64, *bounds64.last().unwrap());
    let fits = total_unpacked <= u32::MAX as u64 && total_stored <= u32::MAX as u64;
    let footer = v1_footer(&hash, &hashes, &bounds, &unpacked, n as u32);
    let tail = if footered { let mut t = footer.clone(); t.extend_from_slice(&(footer.len() as u32).to_le_bytes()); t } else { vec![] };
    let mut v = Virt { lz: std::sync::Arc::new(one.clone()), n_lz, n_raw, tail: std::sync::Arc::new(tail), pos: 0 };
    let validator = if which == Which::Stream { "streaming" } else { "seekable" };
    let what = format!(
        "a{} xorb of {n} chunks of 128 KiB zeros ({n_lz} stored as LZ4 in {} bytes each, {n_raw} stored raw; {total_stored} stored bytes, {total_unpacked} unpacked bytes){}",
        if footered { " footered" } else { " footer-less" }, one.len(),
        if footered && !fits { ", footer offsets wrapped modulo 2^32" } else { "" }
    );
    let r = catch_unwind(AssertUnwindSafe(|| match which {
        Which::Stream => block_on(validate_cas_object_from_async_read(&mut v, &hash)).map(|o| o.map(|(cas, gb)| (cas, gb))),
        Which::Seek => CasObject::validate_cas_object(&mut v, &hash).map(|o| o.map(|cas| (cas, None))),
    }));
    let label = format!("{n} chunks ({n_lz} LZ4 + {n_raw} raw, {total_unpacked} unpacked / {total_stored} stored bytes){}, {validator} validator", if footered { " with footer" } else { "" });
    match r {
        Err(e) => {
            let msg = e.downcast_ref::<String>().cloned().or_else(|| e.downcast_ref::<&str>().map(|s| s.to_string())).unwrap_or_default();
            Err(format!("the {validator} validator panicked on {what}: {msg}"))
        },
        Ok(Err(_)) | Ok(Ok(None)) => {
            if fits {
                return Err(format!("the {validator} validator REJECTS {what}: well-formed and within the u32 range of the footer"));
            }
            Ok(format!("{label}: rejected"))
        },
        Ok(Ok(Some((cas, gb)))) => {
            let i = &cas.info;
            if !fits {
                return Err(format!("the {validator} validator ACCEPTS {what}: no footer can describe the chunk data (returned last unpacked offsets {:?}, last boundary offsets {:?}; the data ends at {total_unpacked} / {total_stored})", &i.unpacked_chunk_offsets[i.unpacked_chunk_offsets.len().saturating_sub(3)..], &i.chunk_boundary_offsets[i.chunk_boundary_offsets.len().saturating_sub(3)..]));
            }
            if let Some(k) = (0..n.min(i.unpacked_chunk_offsets.len())).find(|k| i.unpacked_chunk_offsets[*k] != unpacked[*k]) {
                return Err(format!("the {validator} validator ACCEPTS {what} and returns a footer whose unpacked offset #{k} is {}, the chunk data ends at {}", i.unpacked_chunk_offsets[k], unpacked[k]));
            }
            let want_il = if footered { footer.len() as u32 } else { 0 };
            let want_gb = if footered || which == Which::Seek { None } else { Some(0) };
            if i.cashash != hash || i.num_chunks as usize != n || i.chunk_hashes != hashes || i.chunk_boundary_offsets != bounds || i.unpacked_chunk_offsets != unpacked || cas.info_length != want_il || gb != want_gb {
                return Err(format!("the {validator} validator ACCEPTS {what} and returns num_chunks {}, {} hashes, {} boundaries (last {:?}), {} unpacked offsets, go_back_bytes {gb:?}, info_length {}: not the footer the chunk data dictates", i.num_chunks, i.chunk_hashes.len(), i.chunk_boundary_offsets.len(), i.chunk_boundary_offsets.last(), i.unpacked_chunk_offsets.len(), cas.info_length));
            }
            Ok(format!("{label}: accepted, footer matches"))
        },
    }
}

fn main() {
    let seed: u64 = std::env::var("VERIF_SEED").ok().and_then(|s| s.parse().ok()).unwrap_or(0);
    let lz_len = { let mut one = Vec::new(); serialize_chunk(&vec![0u8; CHUNK], &mut one, Some(CompressionScheme::LZ4)).unwrap(); one.len() };
    // the virtual reader against a real buffer (harness self-check)
    {
        let v = Virt { lz: std::sync::Arc::new((0..lz_len).map(|i| i as u8).collect()), n_lz: 2, n_raw: 2, tail: std::sync::Arc::new(vec![9; 13]), pos: 0 };
        let mut real: Vec<u8> = vec![];
        for _ in 0..2 { real.extend_from_slice(&v.lz); }
        for _ in 0..2 { real.extend_from_slice(&RAW_HEADER); real.extend(std::iter::repeat(0u8).take(CHUNK)); }
        real.extend_from_slice(&v.tail);
        let mut got = vec![0xEEu8; real.len() + 5];
        let mut p = 0usize;
        for step in [1usize, 7, 500, 8, 131_000, 100, 131_072, 9_999_999] {
            let e = (p + step).min(got.len());
            p += v.fill(p as u64, &mut got[p..e]);
        }
        if p != real.len() || got[..p] != real[..] || v.total() != real.len() as u64 {
            println!("infrastructure: the virtual reader does not reproduce its layout");
            std::process::exit(2);
        }
    }
    use Which::*;
    // (n, LZ4 chunks, footered, validator)
    let mut cases: Vec<(usize, usize, bool, Which)> = vec![];
    // unpacked total just below / at / above 2^32, stored total kept inside u32
    for n in [32767usize, 32768, 32769, 40000] {
        cases.push((n, lz_needed(n, lz_len, 4_000_000), false, Stream));
    }
    for n in [32767usize, 32768] {
        cases.push((n, lz_needed(n, lz_len, 4_000_000), true, Seek));
        cases.push((n, lz_needed(n, lz_len, 4_000_000), true, Stream));
    }
    // (the earlier version of this program stored ALL chunks as LZ4: ~1 ms of LZ4 decoding per chunk in this unoptimized build,
    // 35 CPU-seconds per object; opt-in now)
    if std::env::var("C08_ALL_LZ4").is_ok() {
        cases.push((32767, 32767, false, Stream));
        cases.push((32768, 32768, false, Stream));
    }
    // stored total just below / above u32::MAX while the unpacked total stays below 2^32: all chunks raw
    // (32766 * 131080 = 4294967280 = u32::MAX - 15)
    for n in [32766usize, 32767] {
        cases.push((n, 0, false, Stream));
        cases.push((n, 0, true, Stream));
        // (a footered FILE with such a chunk section is necessarily longer than 2^32 bytes: the seekable validator is given those
        // only under the opt-in probe below)
        if std::env::var("C08_PROBE_FILE_OVER_4G").is_ok() {
            cases.push((n, 0, true, Seek));
        }
    }
    // opt-in probe: chunk section of 4293923572 bytes (inside u32) but chunk section + footer beyond 2^32
    if std::env::var("C08_PROBE_FILE_OVER_4G").is_ok() {
        cases.push((32767, lz_needed(32767, lz_len, 1_000_000), true, Seek));
    }
    let handles: Vec<_> = cases.iter().map(|c| { let c = *c; std::thread::spawn(move || big_case(c.0, c.1, c.2, c.3)) }).collect();
    std::panic::set_hook(Box::new(|_| {}));
    small_streams(seed);
    for (h, c) in handles.into_iter().zip(&cases) {
        match h.join() {
            Ok(Ok(line)) => println!("{line}"),
            Ok(Err(w)) => witness(w),
            Err(_) => {
                println!("infrastructure: the thread for the object of {} chunks died", c.0);
                std::process::exit(2);
            },
        }
    }
    println!("no violation found");
}
