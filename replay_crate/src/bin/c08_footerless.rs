//! Witness search for C08 (streaming validator, FOOTER-LESS xorbs): when `validate_cas_object_from_async_read` accepts a stream
//! without a footer it GENERATES the footer it returns; that footer must match the chunk data (C08: "any footer it relied on
//! matches the chunk data") or the stream must be rejected.  Inputs: streams of many highly compressible maximum-size chunks
//! whose unpacked total is just below / at / above the u32 range of the footer's unpacked offsets (a few MB on the wire).
//! Prints `WITNESS ...` and exits 1 on the first violation.
use std::panic::{catch_unwind, AssertUnwindSafe};

use cas_object::{serialize_chunk, validate_cas_object_from_async_read, CompressionScheme};
use futures::executor::block_on;
use merklehash::compute_data_hash;

fn main() {
    let chunk = vec![0u8; 128 * 1024];
    let chunk_hash = compute_data_hash(&chunk);
    let mut one = Vec::new();
    serialize_chunk(&chunk, &mut one, Some(CompressionScheme::LZ4)).unwrap();
    for n in [32767usize, 32768, 32769, 40000] {
        let mut stream = Vec::with_capacity(one.len() * n);
        for _ in 0..n {
            stream.extend_from_slice(&one);
        }
        let list: Vec<(merklehash::MerkleHash, usize)> = (0..n).map(|_| (chunk_hash, chunk.len())).collect();
        let hash = merkledb::aggregate_hashes::cas_node_hash(&list);
        let total: u64 = (n * chunk.len()) as u64;
        let r = catch_unwind(AssertUnwindSafe(|| block_on(validate_cas_object_from_async_read(&mut &stream[..], &hash))));
        match r {
            Err(e) => {
                let msg = e.downcast_ref::<String>().cloned().or_else(|| e.downcast_ref::<&str>().map(|s| s.to_string())).unwrap_or_default();
                println!("WITNESS the streaming validator panicked on a footer-less stream of {n} LZ4 chunks of 128 KiB zeros ({} bytes on the wire): {msg}", stream.len());
                std::process::exit(1);
            },
            Ok(Err(_)) | Ok(Ok(None)) => {
                println!("{n} chunks ({total} unpacked bytes): rejected");
            },
            Ok(Ok(Some((cas, _)))) => {
                // accepted: the generated footer must describe the chunk data
                let offs = &cas.info.unpacked_chunk_offsets;
                let mut want = 0u64;
                for (i, o) in offs.iter().enumerate() {
                    want += chunk.len() as u64;
                    if *o as u64 != want {
                        println!(
                            "WITNESS the streaming validator ACCEPTED a footer-less stream of {n} LZ4 chunks of 128 KiB zeros ({} bytes on the wire, {total} unpacked) and returned a footer whose unpacked offset #{i} is {o}, the chunk data ends at {want} (last offsets: {:?})",
                            stream.len(), &offs[offs.len().saturating_sub(3)..]
                        );
                        std::process::exit(1);
                    }
                }
                if offs.len() != n {
                    println!("WITNESS accepted with {} unpacked offsets for {n} chunks", offs.len());
                    std::process::exit(1);
                }
                println!("{n} chunks ({total} unpacked bytes): accepted, generated footer matches");
            },
        }
    }
    println!("no violation found");
}
